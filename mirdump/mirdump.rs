//! mirdump — MIR front end of the `mirsym` symbolic executor (engine M of /verif/DESIGN.md).
//!
//! Used as `RUSTC_WORKSPACE_WRAPPER` on `cargo +nightly check`: first the real `rustc` is run (so
//! dependants compile and cargo gets its artifacts), then the same command line is analysed
//! in-process with `rustc_public` and one JSON-lines file per workspace crate is written:
//!
//!   {"rec":"fn",   key, name, def, krate, span, generic:false, body, drops, ...}   local monomorphic item
//!   {"rec":"gen",  name, def}                                                     local generic item (no body)
//!   {"rec":"inst", key, name, def, depth, body, drops}                            monomorphised instance reachable from a local body
//!   {"rec":"prom", key:"prom:<defhash>:<n>", body}                                promoted constant body
//!   {"rec":"ty",   id, display, info}                                             type table (ids are per crate)
//!   {"rec":"def",  id, hash, name}                                                def-id table (ids are per crate)
//!
//! `key` is the mangled symbol name of the instance: unique per monomorphic instance and identical in
//! every crate that mentions it, so call sites in one crate can be joined with bodies dumped in another.
//! A companion `<file>.idx` holds `rec \t key \t name \t offset \t len` per line for lazy loading.
//! A failure in here never fails the build (panics are caught; exit status is that of the real rustc).
#![feature(rustc_private)]
extern crate rustc_driver;
extern crate rustc_hir;
extern crate rustc_interface;
extern crate rustc_middle;
extern crate rustc_span;
#[macro_use]
extern crate rustc_public;
extern crate rustc_public_bridge;
extern crate serde_json;

use rustc_middle::ty::TyCtxt;
use rustc_public::mir::mono::Instance;
use rustc_public::mir::{visit::Location, Body, ConstOperand, MirVisitor, TerminatorKind};
use rustc_public::rustc_internal;
use rustc_public::ty::{
    Allocation, ConstantKind, GenericArgKind, GenericArgs, MirConst, RigidTy, Ty, TyConstKind, TyKind,
};
use rustc_public::{CrateDef, DefId};
use rustc_public_bridge::IndexedVal;
use serde_json::{json, Value};
use std::collections::{HashMap, HashSet};
use std::io::Write;
use std::ops::ControlFlow;
use std::panic::{catch_unwind, AssertUnwindSafe};

fn ty_id(ty: &Ty) -> Value {
    serde_json::to_value(ty).unwrap()
}
fn safe_kind(ty: &Ty) -> Option<TyKind> {
    let t = *ty;
    catch_unwind(AssertUnwindSafe(move || t.kind())).ok()
}
fn const_is_value(c: &rustc_public::ty::TyConst) -> bool {
    matches!(c.kind(), TyConstKind::Value(..) | TyConstKind::ZSTValue(..))
}
/// true if the type mentions a type/const parameter (then nothing can be resolved for it)
fn has_param(ty: &Ty, depth: usize) -> bool {
    if depth > 8 {
        return true;
    }
    let Some(kind) = safe_kind(ty) else { return true };
    let args_have = |a: &GenericArgs| {
        a.0.iter().any(|g| match g {
            GenericArgKind::Type(t) => has_param(t, depth + 1),
            GenericArgKind::Const(c) => !const_is_value(c),
            _ => false,
        })
    };
    match kind {
        TyKind::RigidTy(r) => match r {
            RigidTy::Adt(_, a) | RigidTy::FnDef(_, a) | RigidTy::Closure(_, a) | RigidTy::Coroutine(_, a) => args_have(&a),
            RigidTy::CoroutineClosure(_, a) => args_have(&a),
            RigidTy::Ref(_, t, _) | RigidTy::RawPtr(t, _) | RigidTy::Slice(t) => has_param(&t, depth + 1),
            RigidTy::Array(t, n) => has_param(&t, depth + 1) || !const_is_value(&n),
            RigidTy::Tuple(ts) => ts.iter().any(|t| has_param(t, depth + 1)),
            RigidTy::Int(_) | RigidTy::Uint(_) | RigidTy::Bool | RigidTy::Char | RigidTy::Str | RigidTy::Never | RigidTy::Float(_) => false,
            RigidTy::FnPtr(_) | RigidTy::Dynamic(..) | RigidTy::Foreign(_) | RigidTy::CoroutineWitness(..) | RigidTy::Pat(..) => false,
        },
        TyKind::Param(_) => true,
        _ => true,
    }
}

/// instance name printed with definition paths (no re-export "visible" paths, no trimming): identical in every crate
fn canon_name(tcx: TyCtxt<'_>, i: &Instance) -> Value {
    let inst = *i;
    catch_unwind(AssertUnwindSafe(|| {
        let ii = rustc_internal::internal(tcx, inst);
        let s = rustc_middle::ty::print::with_no_visible_paths!(rustc_middle::ty::print::with_no_trimmed_paths!(ii.to_string()));
        Value::String(s)
    }))
    .unwrap_or(Value::Null)
}

struct Ctx<'tcx> {
    tcx: TyCtxt<'tcx>,
    tys: HashSet<Ty>,
    defs: HashMap<usize, Value>,
    insts: Vec<(Instance, usize)>,
    proms: Vec<(DefId, u32)>,
}

impl<'tcx> Ctx<'tcx> {
    fn def_json(&mut self, did: DefId) -> Value {
        let idv = serde_json::to_value(&did).unwrap();
        let idn = idv.as_u64().unwrap_or(u64::MAX) as usize;
        if let Some(v) = self.defs.get(&idn) {
            return v["hash"].clone();
        }
        let tcx = self.tcx;
        let v = catch_unwind(AssertUnwindSafe(|| {
            let idid = rustc_internal::internal(tcx, did);
            let hash = format!("{:?}", tcx.def_path_hash(idid)).replace("DefPathHash(Fingerprint(", "").replace("))", "").replace(", ", "_");
            let name = rustc_middle::ty::print::with_no_trimmed_paths!(tcx.def_path_str(idid));
            let krate = tcx.crate_name(idid.krate).to_string();
            let path = format!("{}{}", krate, tcx.def_path(idid).to_string_no_crate_verbose());
            json!({"id": idn, "hash": hash, "name": name, "path": path, "krate": krate})
        }))
        .unwrap_or_else(|_| json!({"id": idn, "hash": format!("unknown{idn}"), "name": "?", "path": "?", "krate": "?"}));
        let h = v["hash"].clone();
        self.defs.insert(idn, v);
        h
    }

    fn args_json(&mut self, args: &GenericArgs) -> Value {
        Value::Array(
            args.0
                .iter()
                .map(|a| match a {
                    GenericArgKind::Type(t) => {
                        self.tys.insert(*t);
                        json!({"ty": ty_id(t)})
                    }
                    GenericArgKind::Lifetime(_) => json!("lt"),
                    GenericArgKind::Const(c) => json!({"const": format!("{:?}", c.kind()).chars().take(80).collect::<String>()}),
                })
                .collect(),
        )
    }

    fn inst_json(&mut self, i: &Instance, depth: usize) -> Value {
        if format!("{:?}", i.kind) == "Virtual" {
            let def = self.def_json(i.def.def_id());
            return json!({"name": i.name(), "key": Value::Null, "has_body": false, "kind": "Virtual", "def": def});
        }
        self.insts.push((*i, depth));
        let def = self.def_json(i.def.def_id());
        json!({"name": i.name(), "cname": canon_name(self.tcx, i), "key": i.mangled_name(), "has_body": i.has_body(), "kind": format!("{:?}", i.kind), "def": def})
    }

    fn describe(&mut self, ty: Ty, depth: usize) -> Value {
        let disp = format!("{ty}");
        let Some(kind) = safe_kind(&ty) else {
            return json!({"id": ty_id(&ty), "display": disp, "info": {"k": "alias"}});
        };
        let hp = has_param(&ty, 0);
        let extra = match &kind {
            TyKind::RigidTy(r) => match r {
                RigidTy::Adt(def, args) => {
                    let tcx = self.tcx;
                    let discrs: Vec<Option<String>> = catch_unwind(AssertUnwindSafe(|| {
                        let iadt = rustc_internal::internal(tcx, *def);
                        if iadt.is_enum() {
                            iadt.variants().indices().map(|vi| Some(iadt.discriminant_for_variant(tcx, vi).val.to_string())).collect()
                        } else {
                            vec![]
                        }
                    }))
                    .unwrap_or_default();
                    let variants: Vec<Value> = def
                        .variants()
                        .iter()
                        .enumerate()
                        .map(|(vi, v)| {
                            let fields: Vec<Value> = v
                                .fields()
                                .iter()
                                .map(|f| {
                                    let fty = if hp { f.ty() } else { f.ty_with_args(args) };
                                    self.tys.insert(fty);
                                    json!({"name": f.name, "ty": ty_id(&fty)})
                                })
                                .collect();
                            json!({"name": v.name(), "fields": fields, "discr": discrs.get(vi).cloned().flatten()})
                        })
                        .collect();
                    let d = self.def_json(def.def_id());
                    let a = self.args_json(args);
                    let idn = serde_json::to_value(&def.def_id()).unwrap().as_u64().unwrap_or(u64::MAX) as usize;
                    let path = self.defs.get(&idn).map(|v| v["path"].clone()).unwrap_or(Value::Null);
                    json!({"k": "adt", "name": def.name(), "path": path, "def": d, "adt_kind": format!("{:?}", def.kind()), "variants": variants, "args": a})
                }
                RigidTy::FnDef(def, args) => {
                    let resolved = if hp { None } else { Instance::resolve(*def, args).ok() }.map(|i| self.inst_json(&i, depth));
                    let d = self.def_json(def.def_id());
                    let a = self.args_json(args);
                    // tuple-struct / tuple-variant constructors used as functions
                    let tcx = self.tcx;
                    let ctor = catch_unwind(AssertUnwindSafe(|| {
                        let did = rustc_internal::internal(tcx, def.def_id());
                        if !tcx.is_constructor(did) {
                            return None;
                        }
                        let ity = rustc_internal::internal(tcx, ty);
                        let rustc_middle::ty::FnDef(_, iargs) = ity.kind() else { return None };
                        let out = tcx.fn_sig(did).instantiate(tcx, iargs).skip_binder().output();
                        let rustc_middle::ty::Adt(adt, _) = out.kind() else { return None };
                        let vi = adt.variant_index_with_ctor_id(did).as_usize();
                        let sout: Ty = rustc_internal::stable(out);
                        Some((sout, vi))
                    }))
                    .ok()
                    .flatten();
                    let ctor_json = match ctor {
                        Some((t, vi)) => {
                            self.tys.insert(t);
                            json!({"adt_ty": ty_id(&t), "variant": vi})
                        }
                        None => Value::Null,
                    };
                    json!({"k": "fndef", "name": def.name(), "def": d, "args": a, "resolved": resolved, "ctor": ctor_json})
                }
                RigidTy::Closure(def, args) => {
                    let tcx = self.tcx;
                    let resolved = if hp {
                        None
                    } else {
                        catch_unwind(AssertUnwindSafe(|| {
                            let ity = rustc_internal::internal(tcx, ty);
                            if let rustc_middle::ty::Closure(did, iargs) = ity.kind() {
                                let kind = iargs.as_closure().kind();
                                let inst = rustc_middle::ty::Instance::resolve_closure(tcx, *did, iargs, kind);
                                // resolve_closure may hand back a FnOnce shim: we want the closure's own body
                                let inst = match inst.def {
                                    rustc_middle::ty::InstanceKind::Item(_) => inst,
                                    _ => rustc_middle::ty::Instance::new_raw(*did, iargs),
                                };
                                Some(rustc_internal::stable(inst))
                            } else {
                                None
                            }
                        }))
                        .ok()
                        .flatten()
                    }
                    .map(|i| self.inst_json(&i, depth));
                    let d = self.def_json(def.def_id());
                    let a = self.args_json(args);
                    json!({"k": "closure", "name": def.name(), "def": d, "args": a, "resolved": resolved})
                }
                RigidTy::Coroutine(def, args) => {
                    let tcx = self.tcx;
                    let resolved = if hp {
                        None
                    } else {
                        catch_unwind(AssertUnwindSafe(|| {
                            let ity = rustc_internal::internal(tcx, ty);
                            if let rustc_middle::ty::Coroutine(did, iargs) = ity.kind() {
                                Some(rustc_internal::stable(rustc_middle::ty::Instance::new_raw(*did, iargs)))
                            } else {
                                None
                            }
                        }))
                        .ok()
                        .flatten()
                    }
                    .map(|i| self.inst_json(&i, depth));
                    // variant -> saved-local field types are not needed: the executor is dynamically typed
                    let d = self.def_json(def.def_id());
                    let a = self.args_json(args);
                    json!({"k": "coroutine", "name": def.name(), "def": d, "args": a, "resolved": resolved})
                }
                RigidTy::Ref(_, t, m) => {
                    self.tys.insert(*t);
                    json!({"k": "ref", "to": ty_id(t), "mut": format!("{:?}", m)})
                }
                RigidTy::RawPtr(t, m) => {
                    self.tys.insert(*t);
                    json!({"k": "ptr", "to": ty_id(t), "mut": format!("{:?}", m)})
                }
                RigidTy::Tuple(ts) => {
                    for t in ts.iter() {
                        self.tys.insert(*t);
                    }
                    json!({"k": "tuple", "elems": ts.iter().map(ty_id).collect::<Vec<_>>()})
                }
                RigidTy::Array(t, n) => {
                    self.tys.insert(*t);
                    json!({"k": "array", "elem": ty_id(t), "len": (if const_is_value(n) { n.eval_target_usize().ok() } else { None })})
                }
                RigidTy::Slice(t) => {
                    self.tys.insert(*t);
                    json!({"k": "slice", "elem": ty_id(t)})
                }
                RigidTy::Int(i) => json!({"k": "int", "signed": true, "bits": i.num_bytes() * 8, "name": format!("{:?}", i).to_lowercase()}),
                RigidTy::Uint(i) => json!({"k": "int", "signed": false, "bits": i.num_bytes() * 8, "name": format!("{:?}", i).to_lowercase()}),
                RigidTy::Bool => json!({"k": "bool"}),
                RigidTy::Char => json!({"k": "char"}),
                RigidTy::Str => json!({"k": "str"}),
                RigidTy::Never => json!({"k": "never"}),
                RigidTy::FnPtr(_) => json!({"k": "fnptr"}),
                RigidTy::Dynamic(..) => json!({"k": "dyn"}),
                other => json!({"k": "other", "dbg": format!("{:?}", other).chars().take(120).collect::<String>()}),
            },
            TyKind::Param(p) => json!({"k": "param", "name": p.name}),
            other => json!({"k": "nonrigid", "dbg": format!("{:?}", other).chars().take(120).collect::<String>()}),
        };
        json!({"id": ty_id(&ty), "display": disp, "info": extra})
    }
}

/// Structured decoding of constant allocations (ints, bools, fieldless enums, references to strings /
/// sized pointees, structs and tuples of those) so the executor does not need layouts.
fn decode_alloc(cx: &mut Ctx, ty: Ty, alloc: &Allocation, off: usize, depth: usize) -> Option<Value> {
    if depth > 6 {
        return None;
    }
    let kind = safe_kind(&ty)?;
    let TyKind::RigidTy(r) = kind else { return None };
    let read = |off: usize, n: usize| -> Option<u128> {
        let mut v: u128 = 0;
        for i in 0..n {
            v |= (alloc.bytes.get(off + i).copied().flatten()? as u128) << (8 * i);
        }
        Some(v)
    };
    match r {
        RigidTy::Int(i) => {
            let n = i.num_bytes();
            let v = read(off, n)?;
            let sv = if n < 16 && (v >> (8 * n - 1)) & 1 == 1 { (v as i128) - (1i128 << (8 * n)) } else { v as i128 };
            Some(json!({"int": sv.to_string()}))
        }
        RigidTy::Uint(i) => Some(json!({"int": read(off, i.num_bytes())?.to_string()})),
        RigidTy::Bool => Some(json!({"bool": read(off, 1)? != 0})),
        RigidTy::Char => Some(json!({"int": read(off, 4)?.to_string()})),
        RigidTy::Ref(_, inner, _) | RigidTy::RawPtr(inner, _) => {
            let prov = alloc.provenance.ptrs.iter().find(|(o, _)| *o == off)?;
            let ptr_off = read(off, 8)? as usize;
            let ga = rustc_public::mir::alloc::GlobalAlloc::from(prov.1 .0);
            let rustc_public::mir::alloc::GlobalAlloc::Memory(target) = ga else { return None };
            match safe_kind(&inner)? {
                TyKind::RigidTy(RigidTy::Str) => {
                    let len = read(off + 8, 8)? as usize;
                    let bytes: Vec<u8> = (0..len).map(|i| target.bytes.get(ptr_off + i).copied().flatten().unwrap_or(b'?')).collect();
                    Some(json!({"str": String::from_utf8_lossy(&bytes)}))
                }
                TyKind::RigidTy(RigidTy::Slice(el)) => {
                    let len = read(off + 8, 8)? as usize;
                    if len > 64 {
                        return None;
                    }
                    let sz = el.layout().ok()?.shape().size.bytes();
                    let items: Option<Vec<Value>> = (0..len).map(|i| decode_alloc(cx, el, &target, ptr_off + i * sz, depth + 1)).collect();
                    Some(json!({"ref": {"slice": items?}}))
                }
                _ => Some(json!({"ref": decode_alloc(cx, inner, &target, ptr_off, depth + 1)?})),
            }
        }
        RigidTy::Tuple(ts) => {
            let shape = ty.layout().ok()?.shape();
            let rustc_public::abi::FieldsShape::Arbitrary { offsets } = &shape.fields else {
                return if ts.is_empty() { Some(json!({"tuple": []})) } else { None };
            };
            let items: Option<Vec<Value>> = ts.iter().zip(offsets.iter()).map(|(t, o)| decode_alloc(cx, *t, alloc, off + o.bytes(), depth + 1)).collect();
            Some(json!({"tuple": items?}))
        }
        RigidTy::Array(el, n) => {
            let len = n.eval_target_usize().ok()? as usize;
            if len > 64 {
                return None;
            }
            let sz = el.layout().ok()?.shape().size.bytes();
            let items: Option<Vec<Value>> = (0..len).map(|i| decode_alloc(cx, el, alloc, off + i * sz, depth + 1)).collect();
            Some(json!({"array": items?}))
        }
        RigidTy::Adt(def, args) => {
            let shape = ty.layout().ok()?.shape();
            let defh = cx.def_json(def.def_id());
            use rustc_public::abi::{FieldsShape, TagEncoding, VariantsShape};
            let fields_of = |cx: &mut Ctx, vi: usize, fshape: &FieldsShape, base: usize| -> Option<Vec<Value>> {
                let v = def.variants().get(vi)?.clone();
                let fs = v.fields();
                match fshape {
                    FieldsShape::Arbitrary { offsets } => fs.iter().zip(offsets.iter()).map(|(f, o)| decode_alloc(cx, f.ty_with_args(&args), alloc, base + o.bytes(), depth + 1)).collect(),
                    FieldsShape::Primitive if fs.is_empty() => Some(vec![]),
                    _ => None,
                }
            };
            match &shape.variants {
                VariantsShape::Single { index } => {
                    let vi = index.to_index();
                    let f = fields_of(cx, vi, &shape.fields, off)?;
                    Some(json!({"adt": defh, "variant": vi, "fields": f}))
                }
                VariantsShape::Multiple { tag, tag_encoding, tag_field: _, variants } => {
                    let FieldsShape::Arbitrary { offsets } = &shape.fields else { return None };
                    let tag_off = off + offsets.get(0)?.bytes();
                    let tag_size = match tag {
                        rustc_public::abi::Scalar::Initialized { value, .. } | rustc_public::abi::Scalar::Union { value } => value.size(&rustc_public::target::MachineInfo::target()).bytes(),
                    };
                    let tv = read(tag_off, tag_size)?;
                    let vi = match tag_encoding {
                        TagEncoding::Direct => {
                            let tcx = cx.tcx;
                            let iadt = rustc_internal::internal(tcx, def);
                            let mask: u128 = if tag_size >= 16 { u128::MAX } else { (1u128 << (8 * tag_size)) - 1 };
                            iadt.variants().indices().find(|vi| iadt.discriminant_for_variant(tcx, *vi).val & mask == tv)?.as_usize()
                        }
                        TagEncoding::Niche { untagged_variant, niche_variants, niche_start } => {
                            let start = niche_variants.start().to_index();
                            let end = niche_variants.end().to_index();
                            let mask: u128 = if tag_size >= 16 { u128::MAX } else { (1u128 << (8 * tag_size)) - 1 };
                            let rel = tv.wrapping_sub(*niche_start) & mask;
                            if rel <= (end - start) as u128 { start + rel as usize } else { untagged_variant.to_index() }
                        }
                    };
                    let vshape = variants.get(vi)?;
                    let f = fields_of(cx, vi, &FieldsShape::Arbitrary { offsets: vshape.offsets.clone() }, off)?;
                    Some(json!({"adt": defh, "variant": vi, "fields": f}))
                }
                _ => None,
            }
        }
        _ => None,
    }
}

struct Collect<'a, 'tcx> {
    cx: &'a mut Ctx<'tcx>,
    consts: Vec<(u64, Value)>,
}
impl<'a, 'tcx> MirVisitor for Collect<'a, 'tcx> {
    fn visit_ty(&mut self, ty: &Ty, _: Location) {
        self.cx.tys.insert(*ty);
    }
    fn visit_const_operand(&mut self, c: &ConstOperand, loc: Location) {
        self.note_const(&c.const_);
        self.super_const_operand(c, loc);
    }
}
impl<'a, 'tcx> Collect<'a, 'tcx> {
    fn note_const(&mut self, c: &MirConst) {
        let idv = serde_json::to_value(c).ok().and_then(|v| v["id"].as_u64()).unwrap_or(u64::MAX);
        self.cx.tys.insert(c.ty());
        match c.kind() {
            ConstantKind::Allocated(alloc) => {
                let ty = c.ty();
                let cx = &mut *self.cx;
                if let Ok(Some(v)) = catch_unwind(AssertUnwindSafe(|| decode_alloc(cx, ty, alloc, 0, 0))) {
                    self.consts.push((idv, v));
                }
            }
            ConstantKind::Unevaluated(u) => {
                let did = u.def.def_id();
                let h = self.cx.def_json(did);
                if let Some(p) = u.promoted {
                    self.cx.proms.push((did, p));
                    self.consts.push((idv, json!({"promoted": format!("prom:{}:{}", h.as_str().unwrap_or("?"), p)})));
                } else {
                    // try to evaluate a named constant
                    let cx = &mut *self.cx;
                    let cc = c.clone();
                    let r = catch_unwind(AssertUnwindSafe(|| {
                        let tcx = cx.tcx;
                        let ic = rustc_internal::internal(tcx, &cc);
                        let typing = rustc_middle::ty::TypingEnv::fully_monomorphized();
                        match ic.eval(tcx, typing, rustc_span::DUMMY_SP) {
                            Ok(val) => {
                                let ity = ic.ty();
                                let evald = rustc_middle::mir::Const::Val(val, ity);
                                let st: MirConst = rustc_internal::stable(evald);
                                match st.kind() {
                                    ConstantKind::Allocated(a) => decode_alloc(cx, st.ty(), a, 0, 0),
                                    ConstantKind::ZeroSized => Some(json!({"zst": true})),
                                    _ => None,
                                }
                            }
                            Err(_) => None,
                        }
                    }));
                    if let Ok(Some(v)) = r {
                        self.consts.push((idv, v));
                    }
                }
            }
            _ => {}
        }
    }
}

fn strip_body(mut v: Value) -> Value {
    if let Some(o) = v.as_object_mut() {
        o.remove("var_debug_info");
        o.remove("spread_arg");
    }
    v
}

/// per body: drop glue of workspace types (Drop terminators), decoded constants
fn body_record(cx: &mut Ctx, body: &Body, depth: usize) -> (Value, Value, Value) {
    let mut col = Collect { cx, consts: vec![] };
    col.visit_body(body);
    for l in body.locals() {
        col.cx.tys.insert(l.ty);
    }
    let consts = std::mem::take(&mut col.consts);
    let mut drops = serde_json::Map::new();
    for (bi, b) in body.blocks.iter().enumerate() {
        if let TerminatorKind::Drop { place, .. } = &b.terminator.kind {
            if let Ok(pty) = place.ty(body.locals()) {
                let disp = format!("{pty}");
                // types of the crate being compiled are displayed without their crate name (`mux::reusable_stream::Frame`):
                // print the internal type with a `crate::` prefix on local paths as well
                let tcx = cx.tcx;
                let local = catch_unwind(AssertUnwindSafe(|| {
                    let ity = rustc_internal::internal(tcx, pty);
                    rustc_middle::ty::print::with_crate_prefix!(rustc_middle::ty::print::with_no_trimmed_paths!(ity.to_string())).contains("crate::")
                })).unwrap_or(false);
                if (disp.contains("zksync_") || local) && !has_param(&pty, 0) {
                    if let Ok(inst) = catch_unwind(AssertUnwindSafe(|| Instance::resolve_drop_in_place(pty))) {
                        if inst.has_body() {
                            let j = cx.inst_json(&inst, depth);
                            drops.insert(bi.to_string(), j);
                        }
                    }
                }
            }
        }
    }
    // vtable methods: an unsizing coercion of a workspace type to `dyn Trait` makes the trait's methods for that type callable
    // through the vtable only (e.g. `Box<rpc::Server<R, H>>` -> `Box<dyn ServerTrait>`): queue those instances as well,
    // otherwise their bodies (and the async blocks inside them) never appear in the dump.
    for b in body.blocks.iter() {
        for st in b.statements.iter() {
            if let rustc_public::mir::StatementKind::Assign(_, rustc_public::mir::Rvalue::Cast(rustc_public::mir::CastKind::PointerCoercion(rustc_public::mir::PointerCoercion::Unsize), op, target)) = &st.kind {
                let Ok(src) = op.ty(body.locals()) else { continue };
                if has_param(&src, 0) || has_param(target, 0) || !format!("{target}").contains("dyn ") { continue }
                let tcx = cx.tcx;
                let (src, target) = (src, *target);
                let found = catch_unwind(AssertUnwindSafe(|| {
                    let isrc = rustc_internal::internal(tcx, src);
                    let idst = rustc_internal::internal(tcx, target);
                    fn pointee<'t>(t: rustc_middle::ty::Ty<'t>) -> Option<rustc_middle::ty::Ty<'t>> {
                        if let Some(b) = t.boxed_ty() { return Some(b); }
                        if let Some(inner) = t.builtin_deref(true) { return Some(inner); }
                        None
                    }
                    let (Some(ps), Some(pd)) = (pointee(isrc), pointee(idst)) else { return vec![] };
                    let typing = rustc_middle::ty::TypingEnv::fully_monomorphized();
                    let (ts, td) = tcx.struct_lockstep_tails_for_codegen(ps, pd, typing);
                    let rustc_middle::ty::Dynamic(preds, ..) = td.kind() else { return vec![] };
                    let Some(principal) = preds.principal() else { return vec![] };
                    let trait_ref = tcx.instantiate_bound_regions_with_erased(principal.with_self_ty(tcx, ts));
                    let mut out = vec![];
                    for e in tcx.vtable_entries(trait_ref) {
                        if let rustc_middle::ty::VtblEntry::Method(inst) = e {
                            let st: Instance = rustc_internal::stable(*inst);
                            out.push(st);
                        }
                    }
                    out
                }));
                if std::env::var("MIRDUMP_DEBUG").is_ok() { eprintln!("mirdump unsize {} -> {}: {:?}", src, target, found.as_ref().map(|l| l.len()).map_err(|_| "panic")); }
                // only instances of workspace items are wanted (Debug / Display / Error vtables of std types are noise)
                if let Ok(list) = found {
                    for inst in list { if is_workspace_name(&inst.name()) { cx.insts.push((inst, depth)); } }
                }
            }
        }
    }
    let cmap: serde_json::Map<String, Value> = consts.into_iter().map(|(k, v)| (k.to_string(), v)).collect();
    (strip_body(serde_json::to_value(body).unwrap()), Value::Object(drops), Value::Object(cmap))
}

fn is_workspace_name(n: &str) -> bool {
    n.contains("zksync_")
}

fn dump(tcx: TyCtxt<'_>) -> ControlFlow<()> {
    std::panic::set_hook(Box::new(|i| {
        if std::env::var("MIRDUMP_DEBUG").is_ok() {
            eprintln!("mirdump panic: {i}");
        }
    }));
    let out_path = std::env::var("MIRDUMP_OUT").unwrap_or_else(|_| "/verif/target/mir/out".into());
    let krate = rustc_public::local_crate();
    if krate.name.starts_with("build_script") {
        return ControlFlow::Continue(());
    }
    let path = format!("{}.{}.jsonl", out_path, krate.name);
    let tmp = format!("{}.tmp", path);
    let mut f = std::io::BufWriter::new(std::fs::File::create(&tmp).unwrap());
    let mut idx = std::io::BufWriter::new(std::fs::File::create(format!("{}.idx.tmp", path)).unwrap());
    let mut offset: u64 = 0;
    let mut emit = |f: &mut std::io::BufWriter<std::fs::File>, idx: &mut std::io::BufWriter<std::fs::File>, rec: &str, key: &str, name: &str, v: &Value| {
        let s = serde_json::to_string(v).unwrap();
        f.write_all(s.as_bytes()).unwrap();
        f.write_all(b"\n").unwrap();
        writeln!(idx, "{}\t{}\t{}\t{}\t{}", rec, key, name.replace('\t', " "), offset, s.len()).unwrap();
        offset += s.len() as u64 + 1;
    };
    let mut cx = Ctx { tcx, tys: HashSet::new(), defs: HashMap::new(), insts: vec![], proms: vec![] };
    let mut seen: HashSet<String> = HashSet::new();
    let (mut n_fn, mut n_gen, mut n_inst, mut n_prom, mut n_ty) = (0, 0, 0, 0, 0);
    // 1. local items
    for item in rustc_public::all_local_items() {
        if !item.has_body() {
            continue;
        }
        let name = item.name();
        let def = cx.def_json(item.def_id());
        let span = format!("{:?}", item.span());
        let span = span.split("repr: \"").nth(1).map(|s| s.trim_end_matches("\" }").to_string()).unwrap_or(span);
        match Instance::try_from(item) {
            Ok(inst) => {
                let key = inst.mangled_name();
                if !seen.insert(key.clone()) {
                    continue;
                }
                let Some(body) = catch_unwind(AssertUnwindSafe(|| inst.body())).ok().flatten() else { continue };
                let (b, drops, consts) = body_record(&mut cx, &body, 0);
                let v = json!({"rec": "fn", "key": key, "name": name, "iname": inst.name(), "cname": canon_name(tcx, &inst), "def": def, "krate": krate.name, "kind": format!("{:?}", item.kind()), "span": span, "body": b, "drops": drops, "consts": consts});
                emit(&mut f, &mut idx, "fn", &key, &name, &v);
                n_fn += 1;
            }
            Err(_) => {
                let v = json!({"rec": "gen", "name": name, "def": def, "krate": krate.name, "span": span});
                emit(&mut f, &mut idx, "gen", def.as_str().unwrap_or("?"), &name, &v);
                n_gen += 1;
            }
        }
    }
    // 2. instances reachable from dumped bodies (types are described here so that FnDef/closure/coroutine
    //    types push their resolved instances), to a bounded depth outside the workspace
    let maxd: usize = std::env::var("MIRDUMP_EXT_DEPTH").ok().and_then(|s| s.parse().ok()).unwrap_or(3);
    let mut described: HashMap<Ty, usize> = HashMap::new();
    let mut ty_recs: Vec<Value> = vec![];
    loop {
        // describe all pending types (depth of discovery recorded for instances they resolve)
        let pending: Vec<Ty> = cx.tys.iter().filter(|t| !described.contains_key(*t)).copied().collect();
        if pending.is_empty() && cx.insts.is_empty() && cx.proms.is_empty() {
            break;
        }
        for t in pending {
            described.insert(t, 0);
            let v = match catch_unwind(AssertUnwindSafe(|| cx.describe(t, 0))) {
                Ok(v) => v,
                Err(_) => json!({"id": ty_id(&t), "display": "?", "info": {"k": "undescribable"}}),
            };
            ty_recs.push(v);
        }
        let insts = std::mem::take(&mut cx.insts);
        for (inst, d) in insts {
            let key = inst.mangled_name();
            if !seen.insert(key.clone()) {
                continue;
            }
            if !inst.has_body() {
                continue;
            }
            let nm = inst.name();
            let ws = is_workspace_name(&nm);
            let d2 = if ws { 0 } else { d + 1 };
            if d2 > maxd {
                seen.remove(&key);
                continue;
            }
            let Some(body) = catch_unwind(AssertUnwindSafe(|| inst.body())).ok().flatten() else { continue };
            if body.blocks.len() > 400 && !ws {
                continue;
            }
            // instances discovered while recording this body get depth d2
            let before = cx.insts.len();
            let (b, drops, consts) = body_record(&mut cx, &body, d2);
            // types first seen in this body: describe now with depth d2 so their instances inherit it
            let pend: Vec<Ty> = cx.tys.iter().filter(|t| !described.contains_key(*t)).copied().collect();
            for t in pend {
                described.insert(t, d2);
                let v = match catch_unwind(AssertUnwindSafe(|| cx.describe(t, d2))) {
                    Ok(v) => v,
                    Err(_) => json!({"id": ty_id(&t), "display": "?", "info": {"k": "undescribable"}}),
                };
                ty_recs.push(v);
            }
            let _ = before;
            let def = cx.def_json(inst.def.def_id());
            let v = json!({"rec": "inst", "key": key, "name": nm, "cname": canon_name(tcx, &inst), "def": def, "krate": krate.name, "depth": d2, "kind": format!("{:?}", inst.kind), "body": b, "drops": drops, "consts": consts});
            emit(&mut f, &mut idx, "inst", &key, &nm, &v);
            n_inst += 1;
        }
        let proms = std::mem::take(&mut cx.proms);
        for (did, p) in proms {
            let h = cx.def_json(did);
            let key = format!("prom:{}:{}", h.as_str().unwrap_or("?"), p);
            if !seen.insert(key.clone()) {
                continue;
            }
            let r = catch_unwind(AssertUnwindSafe(|| {
                let idid = rustc_internal::internal(tcx, did);
                let bodies = tcx.promoted_mir(idid);
                let pb = &bodies[rustc_middle::mir::Promoted::from_u32(p)];
                let sb: Body = rustc_internal::stable(pb);
                sb
            }));
            if let Ok(sb) = r {
                let (b, drops, consts) = body_record(&mut cx, &sb, 0);
                let v = json!({"rec": "prom", "key": key, "name": key, "krate": krate.name, "body": b, "drops": drops, "consts": consts});
                emit(&mut f, &mut idx, "prom", &key, &key, &v);
                n_prom += 1;
            }
        }
    }
    for v in ty_recs {
        let id = v["id"].to_string();
        let nm = match v["info"]["path"].as_str() {
            Some(p) => format!("adt {} | {}", p, v["display"].as_str().unwrap_or("?")),
            None => v["display"].as_str().unwrap_or("?").to_string(),
        };
        emit(&mut f, &mut idx, "ty", &id, &nm, &json!({"rec": "ty", "ty": v}));
        n_ty += 1;
    }
    let defs: Vec<Value> = cx.defs.values().cloned().collect();
    for v in defs {
        emit(&mut f, &mut idx, "def", &v["id"].to_string(), v["name"].as_str().unwrap_or("?"), &json!({"rec": "def", "def": v}));
    }
    drop(f);
    drop(idx);
    std::fs::rename(&tmp, &path).unwrap();
    std::fs::rename(format!("{}.idx.tmp", path), format!("{}.idx", path)).unwrap();
    eprintln!("mirdump: {}: {} fns, {} generic, {} instances, {} promoted, {} types -> {}", krate.name, n_fn, n_gen, n_inst, n_prom, n_ty, path);
    ControlFlow::Continue(())
}

fn main() {
    let args: Vec<String> = std::env::args().collect();
    let args: Vec<String> = if args.len() > 1 && args[1].ends_with("rustc") { args[1..].to_vec() } else { args };
    // 1. the real compiler produces the artifacts cargo expects
    let status = std::process::Command::new(&args[0]).args(&args[1..]).status().expect("spawn rustc");
    if !status.success() {
        std::process::exit(status.code().unwrap_or(1));
    }
    // 2. analysis only; failures here never fail the build
    let is_probe = args.iter().any(|a| a == "-vV" || a.starts_with("--print"));
    let want = args.iter().position(|a| a == "--crate-name").and_then(|i| args.get(i + 1)).map(|n| n.starts_with("zksync_") || std::env::var("MIRDUMP_ALL").is_ok()).unwrap_or(false);
    if !is_probe && want {
        let a2 = args.clone();
        let _ = catch_unwind(move || {
            let _ = run_with_tcx!(&a2, |tcx| { let _ = dump(tcx); ControlFlow::<(), ()>::Break(()) });
        });
    }
    std::process::exit(0);
}
