//! No-op replacement for `tracing-attributes`, used only by the Kani harness crates under
//! /verif/kani. kani-compiler 0.68 crashes (ICE in codegen of intrinsics) on the span machinery
//! that `#[tracing::instrument]` expands to; logging is never the subject of a check.
use proc_macro::TokenStream;

/// `#[tracing::instrument(...)]` -> the item, unchanged.
#[proc_macro_attribute]
pub fn instrument(_attr: TokenStream, item: TokenStream) -> TokenStream {
    item
}
