//! Verification shim for the `snow` crate -- ONLY what
//! /repo/node/components/network/src/noise/stream.rs names. NOT a cipher.
//!
//! IDEAL-CIPHER MODEL of `TransportState` (what the harnesses rely on):
//!   * a session has one `mask` byte; each direction has a nonce counter starting at 0
//!     (`send_nonce` of one side pairs with `recv_nonce` of its peer);
//!   * `write_message(payload, out)`: fails (`Error::Input`) if `payload.len() + TAGLEN` exceeds
//!     `out.len()` or 65535 (the two failure conditions of the real snow); otherwise
//!     `out[i] = payload[i] ^ mask` (so ciphertext != plaintext for mask != 0),
//!     `out[len..len+16] = tag(send_nonce)` where `tag(n)` = 16 copies of `(n as u8) + 0x5A`
//!     (injective for nonces < 256 -- the harnesses use < 8 messages), `send_nonce += 1`;
//!   * `read_message(msg, out)`: fails (`Error::Decrypt`) if `msg.len() < 16`, or the last 16 bytes
//!     are not `tag(recv_nonce)` -- i.e. ANY message that is not the next one in order (replay,
//!     reorder, truncation at the tag, tag corruption) is rejected --, or the plaintext
//!     does not fit `out`; a failed call does not advance the nonce; otherwise writes
//!     `msg[i] ^ mask` and `recv_nonce += 1`.
//!   * MODEL LIMIT: plaintexts longer than `MODEL_MAX_PAYLOAD` = 8 bytes make the model panic
//!     (reported as a failure, never silently mis-modelled).
//!   What the model does NOT capture: integrity of the ciphertext BODY (flipping a body byte while
//!   keeping the tag goes undetected here, the real AEAD rejects it), confidentiality, rekeying,
//!   nonce exhaustion at 2^64.
//!
//! Handshake: `HandshakeState::is_handshake_finished()` is `true` from the start (the Noise NN
//! handshake is OUT OF SCOPE), `into_transport_mode()` yields `TransportState::new_session()`;
//! every `new_session()` value is a peer of every other one (same mask, nonces 0).

/// Length of the authentication tag appended to every transport message.
pub const TAGLEN: usize = 16;
/// Maximal length of a Noise message.
pub const MAXMSGLEN: usize = 65535;
/// MODEL LIMIT: the largest plaintext the model processes. The byte loops are written as
/// straight-line code over MODEL_MAX_PAYLOAD positions (no loop for the model checker to unwind);
/// a longer plaintext PANICS (so exceeding the limit is reported as a failure by Kani, never
/// silently mis-modelled). The harness crate scales MAX_PAYLOAD_LEN of stream.rs to 4.
pub const MODEL_MAX_PAYLOAD: usize = 8;

macro_rules! model_unroll {
    (|$v:ident| $body:block) => {
        model_unroll!(@ [0, 1, 2, 3, 4, 5, 6, 7], |$v| $body)
    };
    (@ [$($i:literal),*], |$v:ident| $body:block) => { $( { let $v: usize = $i; $body } )* };
}

/// Mask byte of the ideal-cipher model.
pub const MODEL_MASK: u8 = 0xA5;

pub mod params {
    /// Fields as in snow 0.9 (`name`, `base`, `handshake`, `dh`, `cipher`, `hash`).
    #[derive(Debug, Clone, PartialEq)]
    pub struct NoiseParams {
        pub name: String,
        pub base: BaseChoice,
        pub handshake: HandshakeChoice,
        pub dh: DHChoice,
        pub cipher: CipherChoice,
        pub hash: HashChoice,
    }
    #[derive(Debug, Clone, Copy, PartialEq)]
    pub enum BaseChoice {
        Noise,
    }
    #[derive(Debug, Clone, PartialEq)]
    pub struct HandshakeChoice {
        pub pattern: HandshakePattern,
        pub modifiers: HandshakeModifierList,
    }
    #[derive(Debug, Clone, Copy, PartialEq)]
    pub enum HandshakePattern {
        N,
        NN,
        XX,
    }
    #[derive(Debug, Clone, Copy, PartialEq)]
    pub enum HandshakeModifier {
        Fallback,
    }
    #[derive(Debug, Clone, PartialEq)]
    pub struct HandshakeModifierList {
        pub list: Vec<HandshakeModifier>,
    }
    #[derive(Debug, Clone, Copy, PartialEq)]
    pub enum DHChoice {
        Curve25519,
    }
    #[derive(Debug, Clone, Copy, PartialEq)]
    pub enum CipherChoice {
        ChaChaPoly,
        AESGCM,
    }
    #[derive(Debug, Clone, Copy, PartialEq)]
    pub enum HashChoice {
        SHA256,
        SHA512,
    }
}

/// Field-less error kinds (no heap payload: cheap for the model checker).
#[derive(Debug, Clone, Copy, PartialEq, Eq)]
pub enum Error {
    /// Bad input length (message too large for the output buffer / for a Noise message).
    Input,
    /// Authentication failed.
    Decrypt,
    /// Wrong handshake state.
    State,
}

impl std::fmt::Display for Error {
    fn fmt(&self, f: &mut std::fmt::Formatter<'_>) -> std::fmt::Result {
        f.write_str(match self {
            Error::Input => "input error",
            Error::Decrypt => "decrypt error",
            Error::State => "state error",
        })
    }
}
impl std::error::Error for Error {}

pub struct Builder {
    _params: params::NoiseParams,
}

impl Builder {
    pub fn new(params: params::NoiseParams) -> Self {
        Self { _params: params }
    }
    pub fn build_initiator(self) -> Result<HandshakeState, Error> {
        Ok(HandshakeState { initiator: true })
    }
    pub fn build_responder(self) -> Result<HandshakeState, Error> {
        Ok(HandshakeState { initiator: false })
    }
}

/// Handshake that is already finished (no message is exchanged).
pub struct HandshakeState {
    initiator: bool,
}

static HANDSHAKE_HASH: [u8; 32] = [0x11; 32];

impl HandshakeState {
    pub fn is_handshake_finished(&self) -> bool {
        true
    }
    pub fn is_my_turn(&self) -> bool {
        self.initiator
    }
    pub fn is_initiator(&self) -> bool {
        self.initiator
    }
    /// Never reached (handshake is finished).
    pub fn write_message(&mut self, _payload: &[u8], _out: &mut [u8]) -> Result<usize, Error> {
        Err(Error::State)
    }
    /// Never reached (handshake is finished).
    pub fn read_message(&mut self, _msg: &[u8], _out: &mut [u8]) -> Result<usize, Error> {
        Err(Error::State)
    }
    /// 32 bytes, as with SHA256.
    pub fn get_handshake_hash(&self) -> &[u8] {
        &HANDSHAKE_HASH
    }
    pub fn into_transport_mode(self) -> Result<TransportState, Error> {
        Ok(TransportState::new_session())
    }
}

/// See the crate documentation: ideal-cipher model.
#[derive(Debug, Clone, PartialEq, Eq)]
pub struct TransportState {
    mask: u8,
    send_nonce: u64,
    recv_nonce: u64,
}

/// Tag of the message with number `nonce`.
pub fn model_tag(nonce: u64) -> u8 {
    (nonce as u8).wrapping_add(0x5A)
}

impl TransportState {
    /// Fresh session state; any two values are each other's peers.
    pub fn new_session() -> Self {
        Self {
            mask: MODEL_MASK,
            send_nonce: 0,
            recv_nonce: 0,
        }
    }
    /// Two fresh states that are each other's peers.
    pub fn new_pair() -> (Self, Self) {
        (Self::new_session(), Self::new_session())
    }
    pub fn sending_nonce(&self) -> u64 {
        self.send_nonce
    }
    pub fn receiving_nonce(&self) -> u64 {
        self.recv_nonce
    }

    pub fn write_message(&mut self, payload: &[u8], out: &mut [u8]) -> Result<usize, Error> {
        let len = payload.len();
        if len + TAGLEN > out.len() || len + TAGLEN > MAXMSGLEN {
            return Err(Error::Input);
        }
        assert!(len <= MODEL_MAX_PAYLOAD, "snow model: payload longer than MODEL_MAX_PAYLOAD");
        model_unroll!(|i| {
            if i < len {
                out[i] = payload[i] ^ self.mask;
            }
        });
        // (no loop over the tag: keeps the unwinding bound of the harnesses independent of TAGLEN)
        out[len..len + TAGLEN].copy_from_slice(&[model_tag(self.send_nonce); TAGLEN]);
        self.send_nonce += 1;
        Ok(len + TAGLEN)
    }

    pub fn read_message(&mut self, msg: &[u8], out: &mut [u8]) -> Result<usize, Error> {
        if msg.len() < TAGLEN {
            return Err(Error::Decrypt);
        }
        let len = msg.len() - TAGLEN;
        let Ok(tag) = <[u8; TAGLEN]>::try_from(&msg[len..]) else {
            return Err(Error::Decrypt);
        };
        // all 16 bytes compared at once (no loop, see write_message)
        if u128::from_ne_bytes(tag) != u128::from_ne_bytes([model_tag(self.recv_nonce); TAGLEN]) {
            return Err(Error::Decrypt);
        }
        if len > out.len() {
            return Err(Error::Decrypt);
        }
        assert!(len <= MODEL_MAX_PAYLOAD, "snow model: payload longer than MODEL_MAX_PAYLOAD");
        model_unroll!(|i| {
            if i < len {
                out[i] = msg[i] ^ self.mask;
            }
        });
        self.recv_nonce += 1;
        Ok(len)
    }
}
