//! Verification shim for `zksync_consensus_crypto` -- ONLY what noise/stream.rs names:
//! `keccak256::Keccak256` (the session id, a 32-byte value; no hashing is modelled) and `ByteFmt`.

/// Same two methods as the real trait.
pub trait ByteFmt: Sized {
    fn decode(bytes: &[u8]) -> anyhow::Result<Self>;
    fn encode(&self) -> Vec<u8>;
}

pub mod keccak256 {
    /// 32-byte digest value.
    #[derive(Clone, Copy, Debug, PartialEq, Eq)]
    pub struct Keccak256(pub [u8; 32]);

    impl Keccak256 {
        pub fn as_bytes(&self) -> &[u8; 32] {
            &self.0
        }
    }

    impl super::ByteFmt for Keccak256 {
        fn decode(bytes: &[u8]) -> anyhow::Result<Self> {
            match <[u8; 32]>::try_from(bytes) {
                Ok(a) => Ok(Self(a)),
                Err(_) => Err(anyhow::Error::msg("Keccak256: expected 32 bytes")),
            }
        }
        fn encode(&self) -> Vec<u8> {
            self.0.to_vec()
        }
    }
}
