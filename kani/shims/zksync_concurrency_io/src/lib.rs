//! Verification shim for `zksync_concurrency` -- ONLY what
//! /repo/node/components/network/src/noise/stream.rs names: `ctx::{Ctx, Canceled, Error, Result,
//! OrCanceled}` and `io::{AsyncRead, AsyncWrite, ReadBuf, Error, ErrorKind, Result, read_exact,
//! write_all, flush}`.
//!
//! NOT tokio: `AsyncRead`/`AsyncWrite` are re-declared traits with exactly tokio 1.x's required
//! method signatures; `ReadBuf` is a safe re-implementation (a `&mut [u8]` + a `filled` counter)
//! with tokio's documented semantics for the methods provided. The async helpers are only there so
//! that `Stream::handshake` type-checks; the harnesses never reach them (they panic if reached).

pub mod ctx {
    /// Context. The real one carries a cancellation token and a clock; stream.rs only passes it
    /// through to `io::{read_exact, write_all, flush}`.
    pub struct Ctx(());

    /// A context that is never canceled.
    pub fn root() -> Ctx {
        Ctx(())
    }

    /// Context has been canceled.
    #[derive(Debug, Clone, Copy, PartialEq, Eq)]
    pub struct Canceled;

    impl std::fmt::Display for Canceled {
        fn fmt(&self, f: &mut std::fmt::Formatter<'_>) -> std::fmt::Result {
            f.write_str("canceled")
        }
    }
    impl std::error::Error for Canceled {}

    pub type OrCanceled<T> = std::result::Result<T, Canceled>;

    #[derive(Debug)]
    pub enum Error {
        Canceled(Canceled),
        Internal(anyhow::Error),
    }

    impl From<Canceled> for Error {
        fn from(c: Canceled) -> Self {
            Self::Canceled(c)
        }
    }
    impl From<anyhow::Error> for Error {
        fn from(e: anyhow::Error) -> Self {
            Self::Internal(e)
        }
    }

    pub type Result<T> = std::result::Result<T, Error>;
}

pub mod io {
    use std::{
        pin::Pin,
        task::{Context, Poll},
    };

    pub use std::io::{Error, ErrorKind, Result};

    use crate::ctx;

    /// `tokio::io::ReadBuf` restricted to a fully initialised backing slice.
    /// Invariant: `filled <= buf.len()`.
    pub struct ReadBuf<'a> {
        buf: &'a mut [u8],
        filled: usize,
    }

    impl<'a> ReadBuf<'a> {
        /// tokio: "Creates a new ReadBuf from a fully initialized buffer" -- nothing filled.
        pub fn new(buf: &'a mut [u8]) -> ReadBuf<'a> {
            ReadBuf { buf, filled: 0 }
        }
        /// Total capacity of the buffer.
        pub fn capacity(&self) -> usize {
            self.buf.len()
        }
        /// The filled portion.
        pub fn filled(&self) -> &[u8] {
            &self.buf[..self.filled]
        }
        /// Number of bytes at the end that have not been filled yet.
        pub fn remaining(&self) -> usize {
            self.buf.len() - self.filled
        }
        /// The unfilled portion (always initialised in this model).
        pub fn initialize_unfilled(&mut self) -> &mut [u8] {
            &mut self.buf[self.filled..]
        }
        /// tokio: "Advances the size of the filled region"; panics if it would exceed the
        /// (initialised) capacity.
        pub fn advance(&mut self, n: usize) {
            let new = self.filled.checked_add(n).expect("filled overflow");
            assert!(new <= self.buf.len(), "filled must not become larger than initialized");
            self.filled = new;
        }
        /// tokio: "Appends data to the buffer, advancing the written position";
        /// panics if `self.remaining()` is less than `src.len()`.
        pub fn put_slice(&mut self, src: &[u8]) {
            assert!(
                self.remaining() >= src.len(),
                "buf.len() must fit in remaining()"
            );
            let end = self.filled + src.len();
            self.buf[self.filled..end].copy_from_slice(src);
            self.filled = end;
        }
    }

    /// `tokio::io::AsyncRead` (same required method, same signature).
    pub trait AsyncRead {
        fn poll_read(
            self: Pin<&mut Self>,
            cx: &mut Context<'_>,
            buf: &mut ReadBuf<'_>,
        ) -> Poll<Result<()>>;
    }

    /// `tokio::io::AsyncWrite` (same required methods, same signatures; the provided vectored
    /// methods are omitted -- stream.rs does not use them).
    pub trait AsyncWrite {
        fn poll_write(
            self: Pin<&mut Self>,
            cx: &mut Context<'_>,
            buf: &[u8],
        ) -> Poll<Result<usize>>;
        fn poll_flush(self: Pin<&mut Self>, cx: &mut Context<'_>) -> Poll<Result<()>>;
        fn poll_shutdown(self: Pin<&mut Self>, cx: &mut Context<'_>) -> Poll<Result<()>>;
    }

    // tokio's blanket impls that stream.rs relies on for `&mut stream` arguments.
    impl<T: ?Sized + AsyncRead + Unpin> AsyncRead for &mut T {
        fn poll_read(
            mut self: Pin<&mut Self>,
            cx: &mut Context<'_>,
            buf: &mut ReadBuf<'_>,
        ) -> Poll<Result<()>> {
            Pin::new(&mut **self).poll_read(cx, buf)
        }
    }
    impl<T: ?Sized + AsyncWrite + Unpin> AsyncWrite for &mut T {
        fn poll_write(
            mut self: Pin<&mut Self>,
            cx: &mut Context<'_>,
            buf: &[u8],
        ) -> Poll<Result<usize>> {
            Pin::new(&mut **self).poll_write(cx, buf)
        }
        fn poll_flush(mut self: Pin<&mut Self>, cx: &mut Context<'_>) -> Poll<Result<()>> {
            Pin::new(&mut **self).poll_flush(cx)
        }
        fn poll_shutdown(mut self: Pin<&mut Self>, cx: &mut Context<'_>) -> Poll<Result<()>> {
            Pin::new(&mut **self).poll_shutdown(cx)
        }
    }

    // tokio's impls for `Pin<P>` (stream.rs calls `Pin::new(&mut this.inner).poll_*` where
    // `this.inner: Pin<&mut S>`), bodies as in tokio.
    impl<P> AsyncRead for Pin<P>
    where
        P: std::ops::DerefMut + Unpin,
        P::Target: AsyncRead,
    {
        fn poll_read(
            self: Pin<&mut Self>,
            cx: &mut Context<'_>,
            buf: &mut ReadBuf<'_>,
        ) -> Poll<Result<()>> {
            self.get_mut().as_mut().poll_read(cx, buf)
        }
    }
    impl<P> AsyncWrite for Pin<P>
    where
        P: std::ops::DerefMut + Unpin,
        P::Target: AsyncWrite,
    {
        fn poll_write(
            self: Pin<&mut Self>,
            cx: &mut Context<'_>,
            buf: &[u8],
        ) -> Poll<Result<usize>> {
            self.get_mut().as_mut().poll_write(cx, buf)
        }
        fn poll_flush(self: Pin<&mut Self>, cx: &mut Context<'_>) -> Poll<Result<()>> {
            self.get_mut().as_mut().poll_flush(cx)
        }
        fn poll_shutdown(self: Pin<&mut Self>, cx: &mut Context<'_>) -> Poll<Result<()>> {
            self.get_mut().as_mut().poll_shutdown(cx)
        }
    }

    /// Signature of the real `zksync_concurrency::io::read_exact`. Handshake I/O is OUT OF SCOPE of
    /// the harnesses (the shim handshake state is finished from the start): never reached.
    pub async fn read_exact<S: AsyncRead + Unpin>(
        _ctx: &ctx::Ctx,
        _stream: &mut S,
        _buf: &mut [u8],
    ) -> ctx::OrCanceled<Result<()>> {
        unimplemented!("verif shim: handshake I/O is not modelled")
    }

    /// See [`read_exact`].
    pub async fn write_all<S: AsyncWrite + Unpin>(
        _ctx: &ctx::Ctx,
        _stream: &mut S,
        _buf: &[u8],
    ) -> ctx::OrCanceled<Result<()>> {
        unimplemented!("verif shim: handshake I/O is not modelled")
    }

    /// See [`read_exact`].
    pub async fn flush<S: AsyncWrite + Unpin>(
        _ctx: &ctx::Ctx,
        _stream: &mut S,
    ) -> ctx::OrCanceled<Result<()>> {
        unimplemented!("verif shim: handshake I/O is not modelled")
    }
}
