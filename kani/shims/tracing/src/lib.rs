//! No-op replacement for the `tracing` crate (lib name `tracing`), used only by the Kani harness
//! crates under /verif/kani which compile a real source file of /repo with
//! `#[path = "/repo/node/..."] mod x;`. Only what those files use is provided: the `instrument`
//! attribute (returns its item unchanged) and the event macros (expand to `{}`; their arguments
//! are NOT evaluated -- real `tracing` evaluates them only when the level is enabled, so
//! code under test must not rely on side effects there, and none of the included files does).
//! If a path-included file starts using another `tracing` API the harness crate stops compiling
//! and the runner reports "inconclusive", never "pass".
pub use verif_tracing_attr_shim::instrument;

#[macro_export]
macro_rules! trace { ($($t:tt)*) => {{}}; }
#[macro_export]
macro_rules! debug { ($($t:tt)*) => {{}}; }
#[macro_export]
macro_rules! info { ($($t:tt)*) => {{}}; }
#[macro_export]
macro_rules! warn { ($($t:tt)*) => {{}}; }
#[macro_export]
macro_rules! error { ($($t:tt)*) => {{}}; }

/// `tracing::Span` as used by concurrency/src/scope/mod.rs (`Span::current()`, `span.enter()`): no-ops.
pub struct Span;
/// Guard returned by `Span::enter`.
pub struct Entered;
impl Span {
    pub fn current() -> Span {
        Span
    }
    pub fn enter(&self) -> Entered {
        Entered
    }
}
/// `tracing::Instrument`: returns the future unchanged.
pub trait Instrument: Sized {
    fn in_current_span(self) -> Self {
        self
    }
    fn instrument(self, _span: Span) -> Self {
        self
    }
}
impl<T: Sized> Instrument for T {}
