//! C13 (kernel part) -- the buffer of the encrypted transport: the REAL
//! /repo/node/components/network/src/noise/bytes.rs compiled into this crate with `#[path]`.
//!
//! `Buffer`'s fields are private, so an ARBITRARY buffer state (begin <= end <= capacity, arbitrary
//! bytes everywhere, including outside begin..end) is reached through the real API:
//! `new(CAP)`, fill `as_mut_capacity()` with symbolic bytes, `extend(end)`, `take(begin)`.
//! (begin, end) are observed through `len()` and `capacity()`: end = CAP - capacity(),
//! begin = end - len() -- both subtractions are overflow-checked, so `begin <= end <= CAP` is
//! implied by their not panicking plus the asserted values.
//!
//! Preconditions are the ones the only caller (noise/stream.rs) respects:
//!   extend(n): n <= capacity()      take(n): n <= len()      prefix::<N>(): N <= len()
//!   set_prefix::<N>(): N <= capacity()      push / shift / reset / as_*: none.
//! Kani compiles with debug assertions on, so the `debug_assert!`s in bytes.rs are checked too.
#![allow(dead_code)]

#[path = "/repo/node/components/network/src/noise/bytes.rs"]
mod bytes;

/// `const` items of the real noise/stream.rs (see build.rs).
mod stream_consts {
    include!(concat!(env!("OUT_DIR"), "/stream_consts.rs"));
}

#[cfg(kani)]
mod proofs {
    use super::bytes::Buffer;

    /// Size of the underlying array (constructor argument; 65520 / 65537 in stream.rs).
    const CAP: usize = 8;

    struct St {
        buf: Buffer,
        /// the whole underlying array
        all: [u8; CAP],
        begin: usize,
        end: usize,
    }

    fn any_buffer() -> St {
        let mut buf = Buffer::new(CAP);
        assert!(buf.len() == 0 && buf.capacity() == CAP);
        let all: [u8; CAP] = kani::any();
        buf.as_mut_capacity().copy_from_slice(&all);
        let begin: usize = kani::any();
        let end: usize = kani::any();
        kani::assume(begin <= end && end <= CAP);
        buf.extend(end);
        buf.take(begin);
        St { buf, all, begin, end }
    }

    /// (begin, end) of the representation.
    fn rep(b: &Buffer) -> (usize, usize) {
        let cap = b.capacity();
        let len = b.len();
        assert!(cap <= CAP);
        let end = CAP - cap;
        assert!(len <= end);
        (end - len, end)
    }

    fn same_bytes(a: &[u8], b: &[u8]) -> bool {
        if a.len() != b.len() {
            return false;
        }
        let mut i = 0;
        while i < a.len() {
            if a[i] != b[i] {
                return false;
            }
            i += 1;
        }
        true
    }

    #[kani::proof]
    #[kani::unwind(10)]
    fn generator_reaches_every_state() {
        let s = any_buffer();
        assert!(rep(&s.buf) == (s.begin, s.end));
        assert!(same_bytes(s.buf.as_slice(), &s.all[s.begin..s.end]));
        kani::cover!(s.begin == 0 && s.end == 0);
        kani::cover!(s.begin == CAP && s.end == CAP);
        kani::cover!(s.begin == 3 && s.end == 5);
        kani::cover!(s.begin == 0 && s.end == CAP);
    }

    #[kani::proof]
    #[kani::unwind(10)]
    fn new_is_empty() {
        let b = Buffer::new(CAP);
        assert!(rep(&b) == (0, 0));
        assert!(b.as_slice().is_empty());
        let z = Buffer::new(0);
        assert!(z.len() == 0 && z.capacity() == 0);
        kani::cover!(b.capacity() == CAP);
    }

    /// push(src) for every src of length 0..=12 (so also longer than the whole buffer): appends
    /// exactly min(capacity, src.len()) bytes, a prefix of src, and returns that number.
    #[kani::proof]
    #[kani::unwind(14)]
    fn push_contract() {
        let mut s = any_buffer();
        let src_arr: [u8; 12] = kani::any();
        let k: usize = kani::any();
        kani::assume(k <= 12);
        let src = &src_arr[..k];
        let n = s.buf.push(src);
        let room = CAP - s.end;
        assert!(n == if room < k { room } else { k });
        assert!(rep(&s.buf) == (s.begin, s.end + n));
        let now = s.buf.as_slice();
        assert!(same_bytes(&now[..s.end - s.begin], &s.all[s.begin..s.end]));
        assert!(same_bytes(&now[s.end - s.begin..], &src[..n]));
        kani::cover!(n < k && n > 0, "partial push");
        kani::cover!(n == k && k > 0, "full push");
        kani::cover!(n == 0 && k > 0, "buffer full");
    }

    /// as_mut_capacity() is exactly the unused tail; writing it does not touch the content;
    /// extend(n) with n <= capacity appends exactly the first n written bytes.
    #[kani::proof]
    #[kani::unwind(10)]
    fn extend_contract() {
        let mut s = any_buffer();
        let w: [u8; CAP] = kani::any();
        let room = CAP - s.end;
        {
            let tail = s.buf.as_mut_capacity();
            assert!(tail.len() == room);
            tail.copy_from_slice(&w[..room]);
        }
        assert!(rep(&s.buf) == (s.begin, s.end));
        assert!(same_bytes(s.buf.as_slice(), &s.all[s.begin..s.end]));
        let n: usize = kani::any();
        kani::assume(n <= room);
        s.buf.extend(n);
        assert!(rep(&s.buf) == (s.begin, s.end + n));
        let now = s.buf.as_slice();
        assert!(same_bytes(&now[..s.end - s.begin], &s.all[s.begin..s.end]));
        assert!(same_bytes(&now[s.end - s.begin..], &w[..n]));
        kani::cover!(n == room && room > 0);
        kani::cover!(n == 0);
    }

    /// take(n), n <= len: drops exactly the first n bytes.
    #[kani::proof]
    #[kani::unwind(10)]
    fn take_contract() {
        let mut s = any_buffer();
        let n: usize = kani::any();
        kani::assume(n <= s.end - s.begin);
        s.buf.take(n);
        assert!(rep(&s.buf) == (s.begin + n, s.end));
        assert!(same_bytes(s.buf.as_slice(), &s.all[s.begin + n..s.end]));
        kani::cover!(n > 0 && n == s.end - s.begin, "take everything");
        kani::cover!(n > 0 && n < s.end - s.begin);
    }

    /// prefix::<N>(), N <= len: the first N bytes, nothing changes. N in {0, 1, 2 (the length
    /// field of stream.rs), 8 (whole array)}.
    #[kani::proof]
    #[kani::unwind(10)]
    fn prefix_contract() {
        let s = any_buffer();
        let len = s.end - s.begin;
        if len >= 2 {
            let p: [u8; 2] = s.buf.prefix();
            assert!(p[0] == s.all[s.begin] && p[1] == s.all[s.begin + 1]);
            kani::cover!(len == 2);
        }
        if len >= 1 {
            let p: [u8; 1] = s.buf.prefix();
            assert!(p[0] == s.all[s.begin]);
        }
        if len >= CAP {
            let p: [u8; CAP] = s.buf.prefix();
            assert!(same_bytes(&p, &s.all));
            kani::cover!(true);
        }
        let _p0: [u8; 0] = s.buf.prefix();
        assert!(rep(&s.buf) == (s.begin, s.end));
        assert!(same_bytes(s.buf.as_slice(), &s.all[s.begin..s.end]));
    }

    /// set_prefix::<2>(p), 2 <= capacity: content and (begin, end) unchanged; a following
    /// extend(2 + m) appends p and then whatever was written behind it (the write path of
    /// stream.rs: encrypt into as_mut_capacity()[2..], set_prefix(len), extend(2 + n)).
    #[kani::proof]
    #[kani::unwind(10)]
    fn set_prefix_contract() {
        let mut s = any_buffer();
        let room = CAP - s.end;
        kani::assume(room >= 2);
        let w: [u8; CAP] = kani::any();
        let m: usize = kani::any();
        kani::assume(m <= room - 2);
        s.buf.as_mut_capacity()[2..2 + m].copy_from_slice(&w[..m]);
        let p: [u8; 2] = kani::any();
        s.buf.set_prefix(p);
        assert!(rep(&s.buf) == (s.begin, s.end));
        assert!(same_bytes(s.buf.as_slice(), &s.all[s.begin..s.end]));
        s.buf.extend(2 + m);
        assert!(rep(&s.buf) == (s.begin, s.end + 2 + m));
        let now = s.buf.as_slice();
        let old_len = s.end - s.begin;
        assert!(same_bytes(&now[..old_len], &s.all[s.begin..s.end]));
        assert!(now[old_len] == p[0] && now[old_len + 1] == p[1]);
        assert!(same_bytes(&now[old_len + 2..], &w[..m]));
        kani::cover!(m > 0 && m == room - 2, "frame fills the buffer exactly");
        kani::cover!(m == 0);
    }

    /// shift(): same content, moved to the start of the array.
    #[kani::proof]
    #[kani::unwind(10)]
    fn shift_contract() {
        let mut s = any_buffer();
        s.buf.shift();
        assert!(rep(&s.buf) == (0, s.end - s.begin));
        assert!(same_bytes(s.buf.as_slice(), &s.all[s.begin..s.end]));
        kani::cover!(s.begin > 0 && s.end > s.begin, "a real move");
        kani::cover!(s.begin == 0);
    }

    #[kani::proof]
    #[kani::unwind(10)]
    fn reset_contract() {
        let mut s = any_buffer();
        s.buf.reset();
        assert!(rep(&s.buf) == (0, 0));
        assert!(s.buf.as_slice().is_empty());
        assert!(s.buf.as_mut_capacity().len() == CAP);
        kani::cover!(s.end > s.begin);
    }

    /// The read path of stream.rs on one frame: `prefix` (length n), `take(2 + n)`, `shift()`
    /// when `len >= 2 + n`, for an arbitrary buffer: whatever follows the frame is preserved and
    /// moved to the front, full capacity behind it is regained.
    #[kani::proof]
    #[kani::unwind(10)]
    fn read_path_frame_consumption() {
        let mut s = any_buffer();
        let len = s.end - s.begin;
        kani::assume(len >= 2);
        let n = u16::from_le_bytes(s.buf.prefix()) as usize;
        kani::assume(len >= 2 + n);
        s.buf.take(2 + n);
        s.buf.shift();
        assert!(rep(&s.buf) == (0, len - 2 - n));
        assert!(same_bytes(s.buf.as_slice(), &s.all[s.begin + 2 + n..s.end]));
        assert!(s.buf.capacity() == CAP - (len - 2 - n));
        kani::cover!(n > 0 && len > 2 + n, "frame followed by the beginning of the next one");
    }

    /// Constants of noise/stream.rs (extracted textually by build.rs, evaluated by rustc).
    #[kani::proof]
    fn stream_constants() {
        use crate::stream_consts::*;
        assert!(MAX_PAYLOAD_LEN + AUTHDATA_LEN == 65535);
        assert!(MAX_TRANSPORT_MSG_LEN == 65535);
        assert!(MAX_TRANSPORT_MSG_LEN <= u16::MAX as usize, "frame length fits the u16 length field");
        assert!(LENGTH_FIELD_LEN == 2);
        assert!(MAX_FRAME_LEN == MAX_TRANSPORT_MSG_LEN + LENGTH_FIELD_LEN);
        assert!(MAX_FRAME_LEN == 65537);
        assert!(MAX_PAYLOAD_LEN == 65519);
        kani::cover!(MAX_FRAME_LEN > MAX_PAYLOAD_LEN);
    }
}
