//! Extracts the top-level `const NAME: usize = <expr>;` items of the real
//! /repo/node/components/network/src/noise/stream.rs into `$OUT_DIR/stream_consts.rs`.
//! stream.rs itself cannot be path-included (snow, tokio, pin-project, crate::metrics); its
//! constants are private, so this textual extraction is the only way to have rustc evaluate the
//! REAL definitions. The build fails (=> inconclusive) if one of the expected names is missing.
use std::{env, fs, path::PathBuf};

const SRC: &str = "/repo/node/components/network/src/noise/stream.rs";
const EXPECTED: [&str; 5] = [
    "MAX_TRANSPORT_MSG_LEN",
    "AUTHDATA_LEN",
    "MAX_PAYLOAD_LEN",
    "LENGTH_FIELD_LEN",
    "MAX_FRAME_LEN",
];

fn main() {
    println!("cargo:rerun-if-changed={SRC}");
    println!("cargo:rerun-if-changed=build.rs");
    let text = fs::read_to_string(SRC).expect("cannot read stream.rs");
    let mut out = String::new();
    let mut found = Vec::new();
    for line in text.lines() {
        // top-level items only: no indentation
        if let Some(rest) = line.strip_prefix("const ") {
            if let Some((name, _)) = rest.split_once(':') {
                assert!(line.trim_end().ends_with(';'), "multi-line const `{name}` not supported");
                out.push_str("pub ");
                out.push_str(line);
                out.push('\n');
                found.push(name.trim().to_string());
            }
        }
    }
    for e in EXPECTED {
        assert!(
            found.iter().filter(|f| f.as_str() == e).count() == 1,
            "constant {e} not found exactly once in {SRC}: the extraction is out of date"
        );
    }
    // how the two buffers are sized (Default for Buffer): keep the two lines as witnesses
    for needle in ["bytes::Buffer::new(MAX_PAYLOAD_LEN)", "bytes::Buffer::new(MAX_FRAME_LEN)"] {
        assert!(text.matches(needle).count() >= 1, "`{needle}` not found in {SRC}");
    }
    fs::write(PathBuf::from(env::var("OUT_DIR").unwrap()).join("stream_consts.rs"), out).unwrap();
}
