//! C13 -- the encrypted transport `Stream<S>`: the REAL
//! /repo/node/components/network/src/noise/stream.rs (`poll_read`, `poll_write`, `poll_flush`,
//! `poll_shutdown`, `poll_read_frame`, `poll_read_payload`, `poll_flush_frame`,
//! `poll_flush_payload`; `server_handshake`/`client_handshake`/`handshake` up to the first
//! `return`) together with the REAL /repo/node/components/network/src/noise/bytes.rs,
//! model-checked over a nondeterministic back-pressuring transport.
//!
//! ======================================================================================
//! BOUNDS / MODELLING (part of every claim made with this crate)
//! ======================================================================================
//! 1. SCALED CONSTANT. build.rs copies stream.rs with exactly one textual substitution:
//!    `const MAX_TRANSPORT_MSG_LEN: usize = 65535;` -> `= 20;`. Hence MAX_PAYLOAD_LEN = 4 (real:
//!    65519) and MAX_FRAME_LEN = 22 (real: 65537). Everything else in the file is the real text
//!    (the leading `//!` lines become `//` lines so that the file can be `include!`d in a module).
//!    `VERIF_STREAM_RS=<file>` makes build.rs read another file instead (used to validate the
//!    harnesses against known-bad variants, see variants/).
//!    Artefact of the scaling: the u16 length field can now announce a frame LONGER than the frame
//!    buffer (impossible with 65535 = u16::MAX); only `reader_tampered_wire_never_panics` feeds such
//!    frames and it only claims absence of panics + authenticity of what is delivered.
//! 2. `snow` is replaced by an IDEAL-CIPHER MODEL (shims/snow): per-direction nonce counters, a
//!    message is accepted iff it carries the tag of the receiver's next nonce; payloads are XORed
//!    with a mask byte. The Noise handshake is NOT modelled: the shim handshake state is finished
//!    from the start.
//! 3. INITIAL STATE. `Stream`'s fields are private. `handshake_returns_fresh_stream` polls the real
//!    `server_handshake` / `client_handshake` once and checks that they return the state
//!    `Stream::verif_fresh(inner)`; all other harnesses start from `verif_fresh`, a
//!    verification-only constructor added NEXT TO the included file (same module, see below) that
//!    repeats the struct literal of `handshake`'s `return Ok(Self { .. })`. (Using the value taken
//!    out of the polled future directly makes every pointer in it a symbolic merge of the
//!    coroutine's return paths for CBMC: measured 10x the formula size, harnesses did not finish.)
//! 4. tokio is replaced by shims/zksync_concurrency_io: `AsyncRead`/`AsyncWrite` re-declared with
//!    tokio's signatures (+ tokio's impls for `&mut T` and `Pin<P>`), `ReadBuf` re-implemented
//!    safely. `zksync_consensus_crypto` is replaced by a 32-byte `Keccak256` value type +
//!    `ByteFmt`. `crate::metrics::MeteredStream` is a dummy type (only names the default type
//!    parameter). `pin-project` and `anyhow` are the real crates.
//! 5. Transport `Mock`: decisions by `kani::any()`, budgeted per mock: at most P `Pending` answers
//!    (shared by poll_write/poll_flush/poll_shutdown/poll_read) and at most Q partial transfers (a
//!    partial `poll_write` accepts k bytes, 1 <= k < buf.len(), k symbolic; a short `poll_read`
//!    delivers k bytes, 1 <= k < min(room, available), k symbolic); once the budget is used every
//!    call transfers everything it can. `poll_write` never returns Ok(0) for a non-empty buffer;
//!    a `poll_read` into an empty buffer returns Ready(Ok) with nothing filled (as a socket does);
//!    EOF (Ready, nothing filled) only when `closed` and every byte was delivered, otherwise
//!    Pending. How the write side records the accepted bytes: see `proofs::Mock`.
//! 6. Callers re-poll an operation that returned Pending with the SAME arguments; every operation
//!    gets enough polls to complete under the mock's Pending budget (asserted).
//! 7. P, Q, the numbers of operations and the buffer lengths are stated at each harness. They are
//!    small: every harness was sized to finish in < 10 min (CaDiCaL).
//!
//! All loops of the harness code and of the shims are unrolled by macro, so `#[kani::unwind]` only
//! has to cover the loops of the real code (`poll_flush_frame`: <= Q + 1 iterations,
//! `poll_read_frame`: <= Q + 2 iterations). Unwinding assertions are on: a too small bound is
//! reported as inconclusive by the runner. No error value (`io::Error`) is ever dropped by the
//! harnesses (`ManuallyDrop`): its drop glue drags every `dyn Error` implementor into the model.
#![allow(dead_code, unused_imports, unused_macros)]

/// `crate::metrics::MeteredStream`: only names the default type parameter of `Stream<S>`.
mod metrics {
    use std::{
        pin::Pin,
        task::{Context, Poll},
    };
    use zksync_concurrency::io;

    pub struct MeteredStream(());

    impl io::AsyncRead for MeteredStream {
        fn poll_read(
            self: Pin<&mut Self>,
            _cx: &mut Context<'_>,
            _buf: &mut io::ReadBuf<'_>,
        ) -> Poll<io::Result<()>> {
            unreachable!("verif: MeteredStream is never instantiated")
        }
    }
    impl io::AsyncWrite for MeteredStream {
        fn poll_write(
            self: Pin<&mut Self>,
            _cx: &mut Context<'_>,
            _buf: &[u8],
        ) -> Poll<io::Result<usize>> {
            unreachable!("verif: MeteredStream is never instantiated")
        }
        fn poll_flush(self: Pin<&mut Self>, _cx: &mut Context<'_>) -> Poll<io::Result<()>> {
            unreachable!("verif: MeteredStream is never instantiated")
        }
        fn poll_shutdown(self: Pin<&mut Self>, _cx: &mut Context<'_>) -> Poll<io::Result<()>> {
            unreachable!("verif: MeteredStream is never instantiated")
        }
    }
}

mod noise {
    #[path = "/repo/node/components/network/src/noise/bytes.rs"]
    pub(crate) mod bytes;

    /// The real noise/stream.rs with MAX_TRANSPORT_MSG_LEN scaled (see build.rs).
    pub(crate) mod stream {
        include!(concat!(env!("OUT_DIR"), "/stream_scaled.rs"));

        // ---- VERIFICATION ONLY: the items below are NOT part of the real file. `Stream`'s fields
        // are private, so they have to live in this module. See item 3 of the crate documentation.

        /// `id == Keccak256([0x11; 32])` (the shim handshake hash) without a 32-iteration memcmp.
        #[cfg(kani)]
        pub(crate) fn verif_is_model_id(id: &Keccak256) -> bool {
            let lo: [u8; 16] = id.0[..16].try_into().unwrap();
            let hi: [u8; 16] = id.0[16..].try_into().unwrap();
            u128::from_ne_bytes(lo) == u128::from_ne_bytes([0x11; 16])
                && u128::from_ne_bytes(hi) == u128::from_ne_bytes([0x11; 16])
        }

        #[cfg(kani)]
        impl<S> Stream<S> {
            /// The struct literal of the `return Ok(Self { .. })` of the real `Stream::handshake`
            /// (`handshake_returns_fresh_stream` proves that the real handshakes return a value
            /// that `verif_is_fresh` accepts).
            pub(crate) fn verif_fresh(inner: S) -> Self {
                Self {
                    id: Keccak256([0x11; 32]),
                    inner,
                    noise: snow::TransportState::new_session(),
                    read_buf: Box::default(),
                    write_buf: Box::default(),
                }
            }

            /// Every field except `inner` has the value `verif_fresh` gives it: session id, cipher
            /// state, and the four buffers empty with their full capacity (the bytes outside
            /// begin..end -- zeros from `Buffer::new` in both cases -- are not compared).
            pub(crate) fn verif_is_fresh(&self) -> bool {
                fn empty(b: &bytes::Buffer, cap: usize) -> bool {
                    b.len() == 0 && b.capacity() == cap && b.as_slice().is_empty()
                }
                verif_is_model_id(&self.id)
                    && self.noise == snow::TransportState::new_session()
                    && empty(&self.read_buf.payload, MAX_PAYLOAD_LEN)
                    && empty(&self.read_buf.frame, MAX_FRAME_LEN)
                    && empty(&self.write_buf.payload, MAX_PAYLOAD_LEN)
                    && empty(&self.write_buf.frame, MAX_FRAME_LEN)
            }
        }
    }
}

/// `SCALED_MAX_TRANSPORT_MSG_LEN` as written into the scaled file by build.rs.
mod scaled {
    include!(concat!(env!("OUT_DIR"), "/scaled_const.rs"));
}

#[cfg(kani)]
mod proofs {
    use std::{
        future::Future,
        mem::ManuallyDrop,
        pin::Pin,
        task::{Context, Poll, Waker},
    };

    use zksync_concurrency::{
        ctx,
        io::{self, AsyncRead, AsyncWrite, ReadBuf},
    };

    use crate::noise::stream::Stream;

    /// MAX_PAYLOAD_LEN of the scaled file.
    const PAYLOAD: usize = crate::scaled::SCALED_MAX_TRANSPORT_MSG_LEN - 16;
    /// MAX_FRAME_LEN of the scaled file.
    const FRAME: usize = crate::scaled::SCALED_MAX_TRANSPORT_MSG_LEN + 2;
    // the unrolling macros below are written for these values (compile error otherwise)
    const _: [(); 0] = [(); (PAYLOAD != 4 || FRAME != 22 || RB != 5 || L != 6) as usize];

    /// Capacity of the reader's wire: two maximal frames.
    const W: usize = 2 * FRAME;
    /// Maximal length of a buffer passed to `Stream::poll_write`.
    const L: usize = 6;
    /// Maximal capacity of a `ReadBuf` passed to `Stream::poll_read`.
    const RB: usize = 5;
    /// Maximal number of plaintext bytes that reach the wire in a harness (2 frames).
    const ACC: usize = 2 * PAYLOAD;
    /// Maximal number of plaintext bytes a writer can have accepted after 3 `poll_write`s
    /// (two frames + a full payload buffer).
    const ACC_W: usize = 3 * PAYLOAD;

    /// Straight-line `for v in [..]` (no loop for CBMC to unwind).
    macro_rules! unroll {
        ([$($i:literal),*], |$v:ident| $body:block) => { $( { let $v: u8 = $i; $body } )* };
    }
    macro_rules! unroll4 { (|$v:ident| $body:block) => { unroll!([0,1,2,3], |$v| $body) }; }
    macro_rules! unroll6 { (|$v:ident| $body:block) => { unroll!([0,1,2,3,4,5], |$v| $body) }; }
    macro_rules! unroll8 { (|$v:ident| $body:block) => { unroll!([0,1,2,3,4,5,6,7], |$v| $body) }; }
    macro_rules! unroll22 { (|$v:ident| $body:block) => {
        unroll!([0,1,2,3,4,5,6,7,8,9,10,11,12,13,14,15,16,17,18,19,20,21], |$v| $body) }; }

    /// Nondeterministic transport (see the crate documentation, item 4). Counters are `u8` (all
    /// values are < 256; asserted) -- 8-bit index arithmetic is much cheaper for the solver.
    ///
    /// WRITE SIDE: the accepted byte stream is recorded frame by frame. When `poll_write` is called
    /// and every byte of the previously offered frame has been accepted, the offered buffer is a
    /// NEW FRAME: all its bytes are copied to `frames[nframes]` (`flen` = its length) and k of them
    /// are accepted (`off` = k). Otherwise the call CONTINUES the current frame: the mock asserts
    /// that the stream offers at most the unsent rest, and that the bytes it accepts now are
    /// exactly the recorded bytes `frames[cur][off..off + k]` -- checked for one ARBITRARY position
    /// j < k (the solver has to consider every j, so this is the check for all positions at the
    /// price of one). Together: the bytes accepted by the transport, in order, are exactly
    /// frames[0][..flen[0]] ++ frames[1][..flen[1]] (cut at `off` in the last frame) -- any byte
    /// sent twice, skipped or altered after a partial accept violates a mock assertion.
    /// (A full byte-by-byte copy to a linear wire at a symbolic offset was measured to be >10x more
    /// expensive and did not finish.)
    struct Mock {
        // ---- write side ----
        frames: [[u8; FRAME]; 2],
        flen: [u8; 2],
        /// number of frames offered so far
        nframes: u8,
        /// accepted bytes of frame `nframes - 1`
        off: u8,
        /// total number of bytes accepted
        written: u8,
        // ---- read side ----
        /// the wire the reader is fed from
        data: [u8; W],
        /// number of valid bytes in `data`
        dlen: u8,
        /// number of bytes already delivered by `poll_read`
        read: u8,
        /// EOF once everything is delivered
        closed: bool,
        // ---- budgets ----
        /// remaining budget of Pending answers (P)
        pend_left: u8,
        /// remaining budget of partial transfers (Q)
        partial_left: u8,
        // ---- observations for the cover witnesses ----
        /// the last answer of poll_write was a partial accept
        after_partial_write: bool,
        /// poll_write answered Pending right after a partial accept (i.e. in the middle of a frame)
        pending_mid_frame: bool,
        partial_writes: u8,
        short_reads: u8,
        read_pendings: u8,
        /// size of the first delivery of poll_read (0 = none yet)
        first_delivery: u8,
        flushes: u8,
        shutdowns: u8,
    }

    impl Mock {
        fn new(data: [u8; W], dlen: u8, closed: bool, p: u8, q: u8) -> Self {
            Mock {
                frames: [[0; FRAME]; 2],
                flen: [0; 2],
                nframes: 0,
                off: 0,
                written: 0,
                data,
                dlen,
                read: 0,
                closed,
                pend_left: p,
                partial_left: q,
                after_partial_write: false,
                pending_mid_frame: false,
                partial_writes: 0,
                short_reads: 0,
                read_pendings: 0,
                first_delivery: 0,
                flushes: 0,
                shutdowns: 0,
            }
        }
        fn writer(p: u8, q: u8) -> Self {
            Self::new([0; W], 0, false, p, q)
        }
        fn pending(&mut self) -> bool {
            if self.pend_left > 0 && kani::any() {
                self.pend_left -= 1;
                return true;
            }
            false
        }
        /// Length of the frame being sent (0 if none was offered yet).
        fn cur_len(&self) -> u8 {
            if self.nframes == 0 {
                0
            } else if self.nframes == 1 {
                self.flen[0]
            } else {
                self.flen[1]
            }
        }
        /// Every offered frame has been accepted completely.
        fn all_frames_complete(&self) -> bool {
            self.off == self.cur_len()
        }
        /// The accepted byte stream as a linear wire (only meaningful if `all_frames_complete`).
        fn wire(&self) -> ([u8; W], u8) {
            let mut w = [0u8; W];
            let l0 = self.flen[0];
            let l1 = self.flen[1];
            w[..FRAME].copy_from_slice(&self.frames[0]);
            unroll22!(|i| {
                if i < l1 {
                    w[(l0 + i) as usize] = self.frames[1][i as usize];
                }
            });
            (w, l0 + l1)
        }
    }

    impl AsyncWrite for Mock {
        fn poll_write(
            self: Pin<&mut Self>,
            _cx: &mut Context<'_>,
            buf: &[u8],
        ) -> Poll<io::Result<usize>> {
            let m = self.get_mut();
            if buf.is_empty() {
                return Poll::Ready(Ok(0));
            }
            if m.pending() {
                if m.after_partial_write {
                    m.pending_mid_frame = true;
                }
                return Poll::Pending;
            }
            // The stream never hands more than one frame to the transport at a time.
            assert!(buf.len() <= FRAME, "mock: poll_write with more than MAX_FRAME_LEN bytes");
            let len = buf.len() as u8;
            let mut k = len;
            if m.partial_left > 0 && len > 1 {
                let kk: u8 = kani::any();
                kani::assume(1 <= kk && kk <= len);
                if kk < len {
                    m.partial_left -= 1;
                    m.partial_writes += 1;
                }
                k = kk;
            }
            let cur_len = m.cur_len();
            assert!(m.off <= cur_len);
            if m.off == cur_len {
                // ---- a new frame: record all of it ----
                assert!(m.nframes < 2, "mock: the stream sends a third frame");
                // a frame is a length field + at least the 16-byte authentication tag
                assert!(len >= 18, "mock: a new frame shorter than length field + tag is offered");
                // three (overlapping) 8-byte reads instead of 22 single-byte reads at a symbolic
                // address: bytes 0..8, 8..16, len-8..len
                let p = buf.as_ptr();
                let w0 = unsafe { (p as *const [u8; 8]).read_unaligned() };
                let w1 = unsafe { (p.add(8) as *const [u8; 8]).read_unaligned() };
                let t = unsafe { (p.add(len as usize - 8) as *const [u8; 8]).read_unaligned() };
                let mut snap = [0u8; FRAME];
                snap[..8].copy_from_slice(&w0);
                snap[8..16].copy_from_slice(&w1);
                unroll!([16, 17, 18, 19, 20, 21], |i| {
                    if i < len {
                        snap[i as usize] = t[(i + 8 - len) as usize];
                    }
                });
                if m.nframes == 0 {
                    m.frames[0] = snap;
                    m.flen[0] = len;
                } else {
                    m.frames[1] = snap;
                    m.flen[1] = len;
                }
                m.nframes += 1;
                m.off = k;
            } else {
                // ---- continuation of the frame offered before ----
                let rem = cur_len - m.off;
                assert!(
                    len <= rem,
                    "mock: after a partial accept the stream offers more than the unsent rest of the frame (part of the frame is sent again)"
                );
                let j: u8 = kani::any();
                kani::assume(j < k);
                let at = (m.off + j) as usize;
                let expect = if m.nframes == 1 {
                    m.frames[0][at]
                } else {
                    m.frames[1][at]
                };
                assert!(
                    buf[j as usize] == expect,
                    "mock: bytes sent after a partial accept are not the bytes that follow the accepted ones"
                );
                m.off += k;
            }
            m.written += k;
            m.after_partial_write = k < len;
            Poll::Ready(Ok(k as usize))
        }

        fn poll_flush(self: Pin<&mut Self>, _cx: &mut Context<'_>) -> Poll<io::Result<()>> {
            let m = self.get_mut();
            if m.pending() {
                return Poll::Pending;
            }
            m.flushes += 1;
            Poll::Ready(Ok(()))
        }

        fn poll_shutdown(self: Pin<&mut Self>, _cx: &mut Context<'_>) -> Poll<io::Result<()>> {
            let m = self.get_mut();
            if m.pending() {
                return Poll::Pending;
            }
            m.shutdowns += 1;
            Poll::Ready(Ok(()))
        }
    }

    impl AsyncRead for Mock {
        fn poll_read(
            self: Pin<&mut Self>,
            _cx: &mut Context<'_>,
            buf: &mut ReadBuf<'_>,
        ) -> Poll<io::Result<()>> {
            let m = self.get_mut();
            if buf.remaining() == 0 {
                // a read into an empty buffer completes immediately with nothing read
                return Poll::Ready(Ok(()));
            }
            // the stream reads into its frame buffer: never more than MAX_FRAME_LEN at once
            assert!(buf.remaining() <= FRAME, "mock: poll_read of more than MAX_FRAME_LEN bytes");
            let room = buf.remaining() as u8;
            assert!(m.read <= m.dlen && m.dlen as usize <= W);
            let avail = m.dlen - m.read;
            if avail == 0 {
                return if m.closed {
                    Poll::Ready(Ok(()))
                } else {
                    Poll::Pending
                };
            }
            if m.pending() {
                m.read_pendings += 1;
                return Poll::Pending;
            }
            let max = if room < avail { room } else { avail };
            let mut k = max;
            if m.partial_left > 0 && max > 1 {
                let kk: u8 = kani::any();
                kani::assume(1 <= kk && kk <= max);
                if kk < max {
                    m.partial_left -= 1;
                    m.short_reads += 1;
                }
                k = kk;
            }
            let base = m.read;
            {
                let dst = buf.initialize_unfilled();
                unroll22!(|i| {
                    if i < k {
                        dst[i as usize] = m.data[(base + i) as usize];
                    }
                });
            }
            buf.advance(k as usize);
            m.read = base + k;
            if m.first_delivery == 0 {
                m.first_delivery = k;
            }
            Poll::Ready(Ok(()))
        }
    }

    /// The state `Stream::handshake` returns (see `verif_fresh` next to the included file and the
    /// harness `handshake_returns_fresh_stream`).
    fn new_stream(m: Mock) -> Stream<Mock> {
        Stream::verif_fresh(m)
    }

    /// Result of one poll without the `io::Error` payload. The error value is deliberately never
    /// dropped: the drop glue of `io::Error`'s `Box<dyn Error>` drags every `dyn Error`
    /// implementor into the model.
    #[derive(Clone, Copy, PartialEq, Eq)]
    enum Res {
        Pending,
        Ok(usize),
        Err,
    }

    fn res_usize(p: Poll<io::Result<usize>>) -> Res {
        let p = ManuallyDrop::new(p);
        match &*p {
            Poll::Pending => Res::Pending,
            Poll::Ready(Ok(n)) => Res::Ok(*n),
            Poll::Ready(Err(_)) => Res::Err,
        }
    }

    fn res_unit(p: Poll<io::Result<()>>) -> Res {
        let p = ManuallyDrop::new(p);
        match &*p {
            Poll::Pending => Res::Pending,
            Poll::Ready(Ok(())) => Res::Ok(0),
            Poll::Ready(Err(_)) => Res::Err,
        }
    }

    fn any_len(max: usize) -> usize {
        let n: u8 = kani::any();
        kani::assume(1 <= n && n as usize <= max);
        n as usize
    }

    /// The real `Stream::server_handshake` / `client_handshake` (over the shim handshake state,
    /// which is finished from the start) complete at their first poll with Ok(stream), do no I/O
    /// on the transport, and the stream is in the state all other harnesses start from
    /// (`Stream::verif_fresh`).
    #[kani::proof]
    #[kani::unwind(3)]
    #[kani::stub(std::backtrace::Backtrace::capture, std::backtrace::Backtrace::disabled)]
    fn handshake_returns_fresh_stream() {
        let ctx = ctx::root();
        let mut cx = Context::from_waker(Waker::noop());
        // Neither the completed futures nor the result wrappers are dropped (their drop glue --
        // anyhow::Error with its backtrace, every suspended state of the handshake -- is dead
        // weight for the solver); the futures are never moved after being pinned.
        let mut fut = ManuallyDrop::new(Stream::server_handshake(&ctx, Mock::writer(1, 1)));
        let pinned = unsafe { Pin::new_unchecked(&mut *fut) };
        let res = ManuallyDrop::new(pinned.poll(&mut cx));
        match &*res {
            Poll::Ready(Ok(s)) => {
                assert!(s.verif_is_fresh(), "server_handshake: not the fresh state");
                assert!(crate::noise::stream::verif_is_model_id(&s.id()));
                let m: &Mock = s;
                assert!(m.written == 0 && m.read == 0 && m.pend_left == 1 && m.flushes == 0);
                kani::cover!(true, "server handshake completes at the first poll");
            }
            _ => panic!("server_handshake did not complete"),
        }
        let mut fut = ManuallyDrop::new(Stream::client_handshake(&ctx, Mock::writer(1, 1)));
        let pinned = unsafe { Pin::new_unchecked(&mut *fut) };
        let res = ManuallyDrop::new(pinned.poll(&mut cx));
        match &*res {
            Poll::Ready(Ok(c)) => {
                assert!(c.verif_is_fresh(), "client_handshake: not the fresh state");
                let m: &Mock = c;
                assert!(m.written == 0 && m.read == 0 && m.pend_left == 1 && m.flushes == 0);
                kani::cover!(true, "client handshake completes at the first poll");
            }
            _ => panic!("client_handshake did not complete"),
        }
        let f = Stream::verif_fresh(Mock::writer(1, 1));
        assert!(f.verif_is_fresh());
        std::mem::forget(f);
    }

    #[derive(Clone, Copy, PartialEq, Eq)]
    enum Kind {
        Write,
        Flush,
        Shutdown,
        /// `poll_write` or `poll_flush`, chosen nondeterministically
        Any,
    }

    /// The caller of the write half: performs operations one after the other; an operation that
    /// returned Pending is polled again with the SAME arguments at the next step.
    struct Writer {
        /// plaintext accepted so far (`poll_write` returning n accepts the first n bytes)
        acc: [u8; ACC_W],
        acc_n: u8,
        /// `acc_n` at the moment of the last successful poll_flush / poll_shutdown
        flushed: u8,
        ops_done: u8,
        in_progress: bool,
        kind: Kind,
        content: [u8; L],
        len: usize,
        /// 0: every write has a symbolic length 1..=L; otherwise every write offers exactly this many bytes
        fixed_len: usize,
    }

    impl Writer {
        fn new() -> Self {
            Writer {
                acc: [0; ACC_W],
                acc_n: 0,
                flushed: 0,
                ops_done: 0,
                in_progress: false,
                kind: Kind::Flush,
                content: [0; L],
                len: 1,
                fixed_len: 0,
            }
        }

        /// ONE poll. Starts operation number `ops_done` (of kind `kind`) if none is in progress;
        /// does nothing once `max_ops` operations are complete.
        /// Asserts: no error; `poll_write` of a non-empty buffer returns 0 < n <= len.
        ///
        /// `AW`, `AF`, `AS`: poll_write / poll_flush / poll_shutdown may occur at this step.
        /// Compile-time constants, so that the call sites of operations a harness never performs at
        /// a step do not exist in the model at all (consistency with `kind` is asserted).
        fn step<const AW: bool, const AF: bool, const AS: bool>(
            &mut self,
            a: &mut Stream<Mock>,
            max_ops: u8,
            kind: Kind,
        ) {
            if self.ops_done >= max_ops {
                return;
            }
            if !self.in_progress {
                self.kind = match kind {
                    Kind::Any => {
                        if kani::any() {
                            Kind::Write
                        } else {
                            Kind::Flush
                        }
                    }
                    k => k,
                };
                if self.kind == Kind::Write {
                    self.content = kani::any();
                    self.len = if self.fixed_len > 0 { self.fixed_len } else { any_len(L) };
                }
                self.in_progress = true;
            }
            let mut cx = Context::from_waker(Waker::noop());
            let is_write = AW && self.kind == Kind::Write;
            let is_flush = AF && self.kind == Kind::Flush;
            let is_shutdown = AS && self.kind == Kind::Shutdown;
            assert!(
                is_write || is_flush || is_shutdown,
                "harness: operation kind not allowed at this step"
            );
            let res = if AW && is_write {
                let r =
                    res_usize(Pin::new(&mut *a).poll_write(&mut cx, &self.content[..self.len]));
                if let Res::Ok(n) = r {
                    assert!(n > 0, "poll_write returned Ok(0) for a non-empty buffer");
                    assert!(n <= self.len, "poll_write accepted more than it was given");
                    assert!(
                        self.acc_n as usize + n <= ACC_W,
                        "harness: more plaintext than three payload buffers"
                    );
                    let n = n as u8;
                    let base = self.acc_n;
                    unroll6!(|i| {
                        if i < n {
                            self.acc[(base + i) as usize] = self.content[i as usize];
                        }
                    });
                    self.acc_n = base + n;
                }
                r
            } else if AS && is_shutdown {
                let r = res_unit(Pin::new(&mut *a).poll_shutdown(&mut cx));
                if let Res::Ok(_) = r {
                    self.flushed = self.acc_n;
                }
                r
            } else if AF {
                let r = res_unit(Pin::new(&mut *a).poll_flush(&mut cx));
                if let Res::Ok(_) = r {
                    self.flushed = self.acc_n;
                }
                r
            } else {
                unreachable!("harness: operation kind not allowed at this step")
            };
            match res {
                Res::Ok(_) => {
                    self.in_progress = false;
                    self.ops_done += 1;
                }
                Res::Err => panic!("write-half operation returned an error"),
                Res::Pending => {}
            }
        }
    }

    /// The caller of the read half; same re-polling discipline as `Writer` (a Pending poll_read
    /// must leave the ReadBuf untouched -- asserted -- so re-creating it with the same capacity is
    /// "the same arguments").
    struct Reader {
        got: [u8; ACC],
        n: u8,
        eof: bool,
        /// number of bytes received when the first EOF was reported
        n_at_eof: u8,
        err: bool,
        reads_done: u8,
        in_progress: bool,
        cap: usize,
        /// if set: every read uses this capacity (chosen once) instead of a fresh symbolic one
        same_cap: bool,
    }

    impl Reader {
        fn new() -> Self {
            Reader {
                got: [0; ACC],
                n: 0,
                eof: false,
                n_at_eof: 0,
                err: false,
                reads_done: 0,
                in_progress: false,
                cap: 1,
                same_cap: false,
            }
        }

        /// All reads use one symbolic capacity 1..=RB (chosen here) instead of one per read.
        fn with_same_cap() -> Self {
            let mut r = Self::new();
            r.cap = any_len(RB);
            r.same_cap = true;
            r
        }

        /// All reads use the capacity `cap`.
        fn with_cap(cap: usize) -> Self {
            let mut r = Self::new();
            r.cap = cap;
            r.same_cap = true;
            r
        }

        /// ONE poll of `poll_read` with a ReadBuf of capacity `cap` (symbolic 1..=RB, chosen per
        /// read, unless the constructor fixed it).
        /// Asserts the AsyncRead contract (Pending / Err leave the ReadBuf untouched; at most
        /// `cap` bytes) and that no data follows an EOF.
        fn step(&mut self, b: &mut Stream<Mock>, max_reads: u8) {
            if self.reads_done >= max_reads {
                return;
            }
            if !self.in_progress {
                if !self.same_cap {
                    self.cap = any_len(RB);
                }
                self.in_progress = true;
            }
            let mut cx = Context::from_waker(Waker::noop());
            let mut storage = [0u8; RB];
            let mut rb = ReadBuf::new(&mut storage[..self.cap]);
            match res_unit(Pin::new(&mut *b).poll_read(&mut cx, &mut rb)) {
                Res::Ok(_) => {
                    let f = rb.filled().len();
                    assert!(f <= self.cap);
                    if f == 0 {
                        if !self.eof {
                            self.eof = true;
                            self.n_at_eof = self.n;
                        }
                    } else {
                        assert!(!self.eof, "data delivered after EOF was reported");
                        assert!(
                            self.n as usize + f <= ACC,
                            "reader delivered more than two payload buffers"
                        );
                        let f = f as u8;
                        let base = self.n;
                        // RB = 5 positions
                        unroll!([0, 1, 2, 3, 4], |i| {
                            if i < f {
                                self.got[(base + i) as usize] = storage[i as usize];
                            }
                        });
                        self.n = base + f;
                    }
                    self.in_progress = false;
                    self.reads_done += 1;
                }
                Res::Err => {
                    assert!(rb.filled().is_empty(), "poll_read filled bytes but returned Err");
                    self.err = true;
                    self.in_progress = false;
                    self.reads_done += 1;
                }
                Res::Pending => {
                    assert!(rb.filled().is_empty(), "poll_read filled bytes but returned Pending");
                }
            }
        }

        /// What was received is a prefix of `acc[..acc_n]`: same bytes, same order, nothing
        /// duplicated, nothing altered.
        fn assert_prefix_of(&self, acc: &[u8], acc_n: u8) {
            assert!(acc.len() >= ACC);
            assert!(self.n <= acc_n, "reader received more bytes than the writer accepted");
            unroll8!(|i| {
                if i < self.n {
                    assert!(
                        self.got[i as usize] == acc[i as usize],
                        "reader received a byte that differs from what was written at that position"
                    );
                }
            });
        }
    }

    /// (a) END TO END. Bounds: writer's mock P = 1 Pending, Q = 0 partial accepts (partial accepts
    /// on the write side are covered by `flush_delivers_exactly_once_on_wire` and
    /// `shutdown_flushes`); reader's mock P = 0, Q = 0 (it always delivers min(room, available);
    /// the reader still sees frames split over transport reads because two frames do not fit its
    /// 22-byte frame buffer; Pending and short reads on the read side are covered by
    /// `reader_false_eof`). Writer stream A performs NW = 3 operations: a `poll_write`, then twice
    /// nondeterministically `poll_write` or `poll_flush` (write buffers of symbolic length
    /// 1..=L = 6, symbolic content; NW + P = 4 polls). Then reader stream B (peer cipher state) over
    /// a mock pre-loaded with exactly the bytes A's mock accepted (W = 44), closed, performs NR = 3
    /// `poll_read`s with ReadBufs of capacity RB = 5 (small ReadBufs: `reader_small_reads`).
    /// Asserts: no operation fails or is still Pending when the budget is used up; poll_write
    /// never returns Ok(0) / more than len; the mock's wire-consistency assertions (see `Mock`);
    /// what B receives is a prefix of what A accepted (order, no duplication, no corruption); B
    /// reports EOF only after at least the bytes accepted before A's last successful flush; no
    /// data after EOF.
    /// unwind 3: poll_flush_frame 1 iteration, poll_read_frame <= 2 iterations.
    #[kani::proof]
    #[kani::unwind(3)]
    fn roundtrip_write_flush_read() {
        const NW: u8 = 3;
        const NR: u8 = 3;
        let mut a = new_stream(Mock::writer(1, 0));
        let mut w = Writer::new();
        // NW + P polls; the first operation is a poll_write (a poll_flush of a fresh stream does
        // nothing), it cannot be Pending: nothing is sent yet
        w.step::<true, false, false>(&mut a, NW, Kind::Write);
        assert!(w.ops_done == 1);
        unroll!([1, 2, 3], |_s| {
            w.step::<true, true, false>(&mut a, NW, Kind::Any);
        });
        assert!(
            w.ops_done == NW && !w.in_progress,
            "write-half operation still Pending after the transport's Pending budget"
        );
        let (wire, written, write_pendings) = {
            let m: &Mock = &a;
            assert!(
                m.all_frames_complete(),
                "operation completed but the transport holds only part of a frame"
            );
            let (wire, n) = m.wire();
            assert!(n == m.written);
            (wire, n, 1 - m.pend_left)
        };

        let mut b = new_stream(Mock::new(wire, written, true, 0, 0));
        let mut r = Reader::with_cap(RB);
        // NR polls (the reader's transport never answers Pending)
        unroll!([0, 1, 2], |_s| {
            r.step(&mut b, NR);
        });
        assert!(!r.err, "poll_read returned an error on an untampered wire");
        assert!(r.reads_done == NR && !r.in_progress, "poll_read Pending on a closed transport");
        r.assert_prefix_of(&w.acc, w.acc_n);
        if r.eof {
            assert!(
                r.n_at_eof >= w.flushed,
                "EOF reported before all flushed data was delivered"
            );
        }

        let first_delivery = {
            let m: &Mock = &b;
            m.first_delivery
        };
        kani::cover!(
            write_pendings > 0 && written as usize > FRAME,
            "transport answered Pending during the write phase, two frames on the wire"
        );
        kani::cover!(
            written as usize > FRAME && (first_delivery as usize) == FRAME && r.n > PAYLOAD as u8,
            "second frame reaches the reader split over two transport reads"
        );
        kani::cover!(
            r.eof && r.n as usize == ACC && w.flushed as usize == ACC,
            "two full frames delivered, then EOF"
        );
        kani::cover!(r.eof && w.flushed < w.acc_n, "EOF with unflushed data left in the writer");
        std::mem::forget(a);
        std::mem::forget(b);
    }

    /// Decodes the frames the mock recorded by hand (u16 LE length prefix, frame, peer cipher
    /// state). Asserts: every recorded frame was accepted completely, its length field covers
    /// exactly the rest of the frame, it authenticates as the next message and is not empty.
    /// Returns (plaintext, its length, number of frames).
    fn decode_frames(m: &Mock) -> ([u8; ACC], u8, u8) {
        assert!(
            m.all_frames_complete(),
            "operation completed but the transport holds only part of a frame"
        );
        let mut peer = snow::TransportState::new_session();
        let mut dec = [0u8; ACC];
        let mut dec_n = 0u8;
        unroll!([0, 1], |f| {
            if f < m.nframes {
                let fr = &m.frames[f as usize];
                let fl = m.flen[f as usize] as usize;
                let n = u16::from_le_bytes([fr[0], fr[1]]) as usize;
                assert!(2 + n == fl, "length field does not match the frame sent");
                let mut out = [0u8; PAYLOAD];
                let r = peer.read_message(&fr[2..2 + n], &mut out);
                assert!(r.is_ok(), "frame on the wire does not authenticate as the next message");
                let p = r.unwrap_or(0) as u8;
                assert!(p > 0, "empty frame on the wire");
                assert!((dec_n + p) as usize <= ACC);
                unroll4!(|i| {
                    if i < p {
                        dec[(dec_n + i) as usize] = out[i as usize];
                    }
                });
                dec_n += p;
            }
        });
        assert!(m.written == m.flen[0] + m.flen[1]);
        (dec, dec_n, m.nframes)
    }

    /// (b) WRITE SIDE. Bounds: P = 2, Q = 2. Operations: `poll_write`, `poll_write`, `poll_flush`
    /// (buffers of symbolic length 1..=6, symbolic content; one or two frames result); each
    /// operation is polled up to P + 1 = 3 times. After the final successful flush the bytes the
    /// transport accepted (see `Mock` for how they are recorded and checked), decoded by hand with
    /// the peer cipher state, are a sequence of complete frames whose plaintexts concatenate to
    /// exactly the accepted bytes, nothing left over: in particular no part of a frame is sent
    /// twice when the transport accepts part of a frame and then answers Pending. The inner
    /// transport was flushed too.
    /// unwind 4: poll_flush_frame <= Q + 1 = 3 iterations.
    #[kani::proof]
    #[kani::unwind(4)]
    fn flush_delivers_exactly_once_on_wire() {
        const Q: u8 = 2;
        let mut a = new_stream(Mock::writer(2, Q));
        let mut w = Writer::new();
        unroll!([0, 1, 2], |_s| {
            w.step::<true, false, false>(&mut a, 1, Kind::Write);
        });
        unroll!([0, 1, 2], |_s| {
            w.step::<true, false, false>(&mut a, 2, Kind::Write);
        });
        unroll!([0, 1, 2], |_s| {
            w.step::<false, true, false>(&mut a, 3, Kind::Flush);
        });
        assert!(
            w.ops_done == 3 && !w.in_progress,
            "write-half operation still Pending after the transport's Pending budget"
        );
        assert!(w.flushed == w.acc_n);
        let m: &Mock = &a;
        assert!(m.flushes >= 1, "poll_flush succeeded without flushing the inner transport");
        let (dec, dec_n, frames) = decode_frames(m);
        assert!(dec_n == w.acc_n, "wire carries a different number of plaintext bytes than accepted");
        unroll8!(|i| {
            if i < dec_n {
                assert!(
                    dec[i as usize] == w.acc[i as usize],
                    "wire plaintext differs from the accepted plaintext"
                );
            }
        });

        kani::cover!(m.pending_mid_frame, "transport answered Pending in the middle of a frame");
        kani::cover!(m.partial_writes == Q, "both partial accepts used");
        kani::cover!(frames == 2, "two frames on the wire");
        kani::cover!(frames == 2 && m.pending_mid_frame && w.acc_n as usize == ACC);
        kani::cover!(frames == 1 && w.acc_n == 2, "two one-byte writes in one frame");
        std::mem::forget(a);
    }

    /// (b'') Back-pressure on FULL payload buffers (quick-tier companion of `flush_delivers_exactly_once_on_wire`, added after
    /// seed C13_j): two `poll_write`s that each offer exactly PAYLOAD bytes (the second one arrives while the frame of the
    /// first may still be in flight), then `poll_flush`, over a transport that answers Pending up to P = 2 times and accepts
    /// partially up to Q = 2 times. `Poll::Pending` from `poll_write` means NOTHING was accepted (the caller retries with the
    /// same bytes); the wire must carry exactly the accepted bytes, once.
    /// unwind 4: poll_flush_frame <= Q + 1 = 3 iterations.
    #[kani::proof]
    #[kani::unwind(4)]
    fn full_payload_writes_under_backpressure() {
        const Q: u8 = 2;
        let mut a = new_stream(Mock::writer(2, Q));
        let mut w = Writer::new();
        w.fixed_len = PAYLOAD;
        unroll!([0, 1, 2], |_s| {
            w.step::<true, false, false>(&mut a, 1, Kind::Write);
        });
        unroll!([0, 1, 2], |_s| {
            w.step::<true, false, false>(&mut a, 2, Kind::Write);
        });
        unroll!([0, 1, 2], |_s| {
            w.step::<false, true, false>(&mut a, 3, Kind::Flush);
        });
        assert!(
            w.ops_done == 3 && !w.in_progress,
            "write-half operation still Pending after the transport's Pending budget"
        );
        assert!(w.flushed == w.acc_n);
        let m: &Mock = &a;
        let (dec, dec_n, frames) = decode_frames(m);
        assert!(dec_n == w.acc_n, "wire carries a different number of plaintext bytes than accepted (bytes of a write that answered Pending were kept)");
        unroll8!(|i| {
            if i < dec_n {
                assert!(
                    dec[i as usize] == w.acc[i as usize],
                    "wire plaintext differs from the accepted plaintext"
                );
            }
        });
        kani::cover!(frames == 2 && m.pending_mid_frame, "two frames, transport answered Pending in the middle of one");
        kani::cover!(w.acc_n as usize == 2 * PAYLOAD, "both full writes accepted completely");
        std::mem::forget(a);
    }

    /// (b') `poll_shutdown` implies a flush. Bounds: P = 1, Q = 1; `poll_write` (symbolic length
    /// 1..=6, symbolic content) then `poll_shutdown`, each polled up to P + 1 = 2 times. The
    /// transport accepted exactly one frame carrying the accepted bytes (no byte twice: see
    /// `Mock`) and was shut down exactly once.
    /// unwind 3: poll_flush_frame <= Q + 1 = 2 iterations.
    #[kani::proof]
    #[kani::unwind(3)]
    fn shutdown_flushes() {
        let mut a = new_stream(Mock::writer(1, 1));
        let mut w = Writer::new();
        unroll!([0, 1], |_s| {
            w.step::<true, false, false>(&mut a, 1, Kind::Write);
        });
        unroll!([0, 1], |_s| {
            w.step::<false, false, true>(&mut a, 2, Kind::Shutdown);
        });
        assert!(
            w.ops_done == 2 && !w.in_progress,
            "write-half operation still Pending after the transport's Pending budget"
        );
        let m: &Mock = &a;
        assert!(m.shutdowns == 1, "inner transport not shut down exactly once");
        let (dec, dec_n, frames) = decode_frames(m);
        assert!(frames == 1 && dec_n == w.acc_n);
        unroll4!(|i| {
            if i < dec_n {
                assert!(dec[i as usize] == w.acc[i as usize]);
            }
        });
        kani::cover!(m.pending_mid_frame, "transport answered Pending in the middle of a frame");
        kani::cover!(w.acc_n as usize == PAYLOAD && w.len > PAYLOAD, "write longer than the payload buffer");
        std::mem::forget(a);
    }

    /// Appends the frame of `payload` (as the peer's cipher state produces it) to `wire`.
    fn put_frame(
        peer: &mut snow::TransportState,
        wire: &mut [u8; W],
        pos: usize,
        payload: &[u8],
    ) -> usize {
        let r = peer.write_message(payload, &mut wire[pos + 2..]);
        assert!(r.is_ok());
        let n = r.unwrap_or(0);
        let lf = (n as u16).to_le_bytes();
        wire[pos] = lf[0];
        wire[pos + 1] = lf[1];
        pos + 2 + n
    }

    /// Body of (c): two valid frames on the wire, P, Q = budgets of the reader's mock, NR reads
    /// with ReadBufs of capacity RB = 5 (>= MAX_PAYLOAD_LEN: a whole payload per read).
    fn reader_false_eof_body<const P: u8, const Q: u8, const NR: u8>() {
        let content: [u8; ACC] = kani::any();
        let p1 = any_len(PAYLOAD);
        let p2 = any_len(PAYLOAD);
        let mut peer = snow::TransportState::new_session();
        let mut wire = [0u8; W];
        let end1 = put_frame(&mut peer, &mut wire, 0, &content[..p1]);
        let end2 = put_frame(&mut peer, &mut wire, end1, &content[p1..p1 + p2]);
        assert!(end1 == 2 + p1 + 16 && end2 == end1 + 2 + p2 + 16);
        let closed: bool = kani::any();
        let total = (p1 + p2) as u8;

        let mut b = new_stream(Mock::new(wire, end2 as u8, closed, P, Q));
        let mut r = Reader::with_cap(RB);
        // NR + P polls (at most 7)
        unroll!([0, 1, 2, 3, 4, 5, 6], |s| {
            if s < NR + P {
                r.step(&mut b, NR);
            }
        });
        assert!(!r.err, "poll_read returned an error on an untampered wire");
        r.assert_prefix_of(&content, total);
        if r.eof {
            assert!(closed, "EOF reported although the transport is still open");
            assert!(r.n_at_eof == total, "EOF reported before both frames were delivered");
        }
        if r.in_progress {
            assert!(
                !closed && r.n == total,
                "poll_read Pending although undelivered data / EOF is available"
            );
        } else {
            assert!(r.reads_done == NR);
        }

        let m: &Mock = &b;
        let fd = m.first_delivery as usize;
        // (not reachable without short reads)
        kani::cover!(Q == 0 || (fd > 0 && fd < end1 && r.n as usize >= p1),
            "first frame split over several transport reads");
        kani::cover!(fd > end1 && r.n == total,
            "first transport read carries the first frame and part of the second");
        kani::cover!(fd == FRAME && p1 < PAYLOAD && r.eof,
            "frame buffer filled completely by the first read, second frame incomplete");
        kani::cover!(r.eof && r.n as usize == ACC, "two full frames, then EOF");
        kani::cover!((P == 0 || m.read_pendings > 0) && m.short_reads == Q && r.eof);
        kani::cover!(!closed && r.in_progress);
        std::mem::forget(b);
    }

    /// (c) READ SIDE. Bounds: P = 1 Pending, Q = 1 short read. The wire holds TWO valid
    /// back-to-back frames built by hand with the peer cipher state (payload lengths p1, p2
    /// symbolic 1..=4, symbolic content). `closed` is symbolic. NR = 3 `poll_read`s (frame, frame,
    /// EOF) with ReadBufs of capacity 5 (NR + P = 4 polls).
    /// Asserts: never an error; what is received is a prefix of p1 ++ p2; EOF is reported only
    /// after all p1 + p2 bytes (and never if the transport is not closed); no data after EOF; a
    /// read is still Pending at the end only when the transport is open and everything was
    /// delivered.
    /// unwind 4: poll_read_frame <= Q + 2 = 3 iterations.
    #[kani::proof]
    #[kani::unwind(4)]
    fn reader_false_eof() {
        reader_false_eof_body::<1, 1, 3>();
    }

    /// (c, no back-pressure) Same as (c) with P = 0, Q = 0: the transport always delivers
    /// min(room, available), so the first transport read fills the 22-byte frame buffer (first
    /// frame + the beginning of the second). NR = 3 reads. unwind 3: poll_read_frame <= 2
    /// iterations.
    #[kani::proof]
    #[kani::unwind(3)]
    fn reader_two_frames_no_backpressure() {
        reader_false_eof_body::<0, 0, 3>();
    }

    /// (c') Payload handed out in pieces. Bounds: P = 0, Q = 0; ONE valid frame (payload length
    /// symbolic 1..=4, symbolic content) on a closed wire; NR = 5 `poll_read`s, each with a ReadBuf
    /// of its own symbolic capacity 1..=5.
    /// Asserts: never an error, never Pending; the bytes received are exactly the payload, in
    /// order; EOF is reported (within the 5 reads) and only after the whole payload; no data after
    /// EOF.
    /// unwind 3: poll_read_frame <= 2 iterations.
    #[kani::proof]
    #[kani::unwind(3)]
    fn reader_small_reads() {
        const NR: u8 = 5;
        let content: [u8; ACC] = kani::any();
        let p1 = any_len(PAYLOAD);
        let mut peer = snow::TransportState::new_session();
        let mut wire = [0u8; W];
        let end1 = put_frame(&mut peer, &mut wire, 0, &content[..p1]);
        let mut b = new_stream(Mock::new(wire, end1 as u8, true, 0, 0));
        let mut r = Reader::new();
        unroll!([0, 1, 2, 3, 4], |_s| {
            r.step(&mut b, NR);
        });
        assert!(!r.err, "poll_read returned an error on an untampered wire");
        assert!(r.reads_done == NR && !r.in_progress, "poll_read Pending on a closed transport");
        r.assert_prefix_of(&content, p1 as u8);
        // every read delivers at least one byte while there is one: 5 reads always reach EOF
        assert!(r.eof, "EOF not reported although the whole payload was delivered");
        assert!(r.n_at_eof as usize == p1, "EOF reported before the payload was delivered");
        kani::cover!(p1 == PAYLOAD && r.cap == 1, "4 bytes, last read with a 1-byte buffer");
        kani::cover!(p1 == 1);
        std::mem::forget(b);
    }

    /// (d) TAMPERED WIRE. Bounds: P = 1, Q = 1; the wire is `len` <= 24 ARBITRARY bytes, closed;
    /// 2 `poll_read`s with ReadBufs of capacity 5 (2 + P = 3 polls).
    /// Asserts: no panic / out-of-bounds / arithmetic overflow anywhere in stream.rs and bytes.rs
    /// (Kani's automatic checks, debug assertions included); Err and Pending leave the ReadBuf
    /// untouched; and AUTHENTICITY in the ideal-cipher model: if any data is delivered, the wire
    /// starts with a complete frame that carries the tag of nonce 0, and the delivered bytes are
    /// exactly (a prefix of) the un-masked body of that frame (24 bytes cannot hold a second valid
    /// frame). An Err result is fine. (Scaling artefact: a length field > 20 cannot be completed
    /// inside the 22-byte frame buffer and ends in EOF instead of an error; with the real
    /// constant every u16 length fits the buffer.)
    /// unwind 4: poll_read_frame <= Q + 2 = 3 iterations.
    #[kani::proof]
    #[kani::unwind(4)]
    fn reader_tampered_wire_never_panics() {
        const WD: usize = 24;
        let bytes: [u8; WD] = kani::any();
        let len: u8 = kani::any();
        kani::assume(len as usize <= WD);
        let mut wire = [0u8; W];
        wire[..WD].copy_from_slice(&bytes);
        let mut b = new_stream(Mock::new(wire, len, true, 1, 1));
        let mut r = Reader::with_cap(RB);
        unroll!([0, 1, 2], |_s| {
            r.step(&mut b, 2);
        });
        if r.n > 0 {
            let len = len as usize;
            let n = u16::from_le_bytes([wire[0], wire[1]]) as usize;
            assert!(len >= 2 && 2 + n <= len, "data delivered from an incomplete frame");
            assert!(n >= 16 && n - 16 <= PAYLOAD);
            let tag = snow::model_tag(0);
            unroll!([0, 1, 2, 3, 4, 5, 6, 7, 8, 9, 10, 11, 12, 13, 14, 15], |j| {
                assert!(
                    wire[2 + n - 16 + j as usize] == tag,
                    "data delivered from an unauthenticated frame"
                );
            });
            assert!(r.n as usize <= n - 16, "more data delivered than the authenticated frame holds");
            unroll4!(|i| {
                if i < r.n {
                    assert!(
                        r.got[i as usize] == wire[2 + i as usize] ^ snow::MODEL_MASK,
                        "delivered byte differs from the authenticated frame body"
                    );
                }
            });
        }
        kani::cover!(r.err && r.n == 0, "tampered frame rejected with an error");
        kani::cover!(r.n as usize == PAYLOAD, "a valid maximal frame is accepted");
        kani::cover!(r.n > 0 && r.err, "valid frame followed by garbage: data, then error");
        kani::cover!(len == 1 && r.eof && !r.err, "truncated length field: EOF");
        std::mem::forget(b);
    }
}
