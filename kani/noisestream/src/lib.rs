//! C13 -- the encrypted transport `Stream<S>`: the REAL
//! /repo/node/components/network/src/noise/stream.rs (`poll_read`, `poll_write`, `poll_flush`,
//! `poll_shutdown`, `poll_read_frame`, `poll_read_payload`, `poll_flush_frame`,
//! `poll_flush_payload`, `server_handshake`/`handshake` up to its first `return`) together with the
//! REAL /repo/node/components/network/src/noise/bytes.rs, model-checked over a nondeterministic
//! back-pressuring transport.
//!
//! ======================================================================================
//! BOUNDS / MODELLING (part of every claim made with this crate)
//! ======================================================================================
//! 1. SCALED CONSTANT. build.rs copies stream.rs with exactly one textual substitution:
//!    `const MAX_TRANSPORT_MSG_LEN: usize = 65535;` -> `= 20;`. Hence MAX_PAYLOAD_LEN = 4 (real:
//!    65519) and MAX_FRAME_LEN = 22 (real: 65537). Everything else in the file is the real text
//!    (the leading `//!` lines become `//` lines so that the file can be `include!`d in a module).
//!    Artefact of the scaling: the u16 length field can now announce a frame LONGER than the frame
//!    buffer (impossible with 65535 = u16::MAX); only `reader_tampered_wire_never_panics` feeds such
//!    frames and it only claims absence of panics + authenticity of the first delivery.
//! 2. `snow` is replaced by an IDEAL-CIPHER MODEL (shims/snow): per-direction nonce counters, a
//!    message is accepted iff it carries the tag of the receiver's next nonce. The Noise handshake
//!    is NOT modelled (the shim handshake state is finished from the start); `Stream<Mock>` values
//!    are obtained by polling the real `Stream::server_handshake` once.
//! 3. tokio is replaced by shims/zksync_concurrency_io: `AsyncRead`/`AsyncWrite` re-declared with
//!    tokio's signatures, `ReadBuf` re-implemented safely. `zksync_consensus_crypto` is replaced by
//!    a 32-byte `Keccak256` value type + `ByteFmt`. `crate::metrics::MeteredStream` is a dummy
//!    type (only names the default type parameter). `pin-project` and `anyhow` are the real crates.
//! 4. Transport `Mock`: decisions by `kani::any()`, budgeted: at most P = 2 `Pending` per mock
//!    (shared by poll_write/poll_flush/poll_shutdown/poll_read), at most Q = 2 partial transfers
//!    per mock (a partial `poll_write` accepts k bytes, 1 <= k < buf.len(); a short `poll_read`
//!    delivers k bytes, 1 <= k < min(room, available)); after the budget every call transfers
//!    everything it can. `poll_write` never returns Ok(0) for a non-empty buffer; a `poll_read`
//!    into an empty buffer returns Ready(Ok) with nothing filled (as a socket does); EOF (Ready,
//!    nothing filled) only when `closed` and every byte was delivered, otherwise Pending.
//! 5. Callers re-poll an operation that returned Pending with the SAME arguments, at most P + 1
//!    polls per operation (enough for it to complete under the mock's budget -- asserted).
//! 6. Per-harness bounds (numbers of operations, buffer lengths) are stated at each harness.
//!
//! All loops of the harness code have concrete trip counts or are unrolled by macro, so
//! `#[kani::unwind]` only has to cover the loops of the real code (`poll_flush_frame`: <= Q + 1
//! iterations, `poll_read_frame`: <= Q + 2 iterations) and of the cipher model (<= 4 payload
//! bytes). Unwinding assertions are on: a too small bound is reported as inconclusive.
#![allow(dead_code, unused_imports, unused_macros)]

/// `crate::metrics::MeteredStream`: only names the default type parameter of `Stream<S>`.
mod metrics {
    use std::{
        pin::Pin,
        task::{Context, Poll},
    };
    use zksync_concurrency::io;

    pub struct MeteredStream(());

    impl io::AsyncRead for MeteredStream {
        fn poll_read(
            self: Pin<&mut Self>,
            _cx: &mut Context<'_>,
            _buf: &mut io::ReadBuf<'_>,
        ) -> Poll<io::Result<()>> {
            unreachable!("verif: MeteredStream is never instantiated")
        }
    }
    impl io::AsyncWrite for MeteredStream {
        fn poll_write(
            self: Pin<&mut Self>,
            _cx: &mut Context<'_>,
            _buf: &[u8],
        ) -> Poll<io::Result<usize>> {
            unreachable!("verif: MeteredStream is never instantiated")
        }
        fn poll_flush(self: Pin<&mut Self>, _cx: &mut Context<'_>) -> Poll<io::Result<()>> {
            unreachable!("verif: MeteredStream is never instantiated")
        }
        fn poll_shutdown(self: Pin<&mut Self>, _cx: &mut Context<'_>) -> Poll<io::Result<()>> {
            unreachable!("verif: MeteredStream is never instantiated")
        }
    }
}

mod noise {
    #[path = "/repo/node/components/network/src/noise/bytes.rs"]
    pub(crate) mod bytes;

    /// The real noise/stream.rs with MAX_TRANSPORT_MSG_LEN scaled (see build.rs).
    pub(crate) mod stream {
        include!(concat!(env!("OUT_DIR"), "/stream_scaled.rs"));
    }
}

/// `SCALED_MAX_TRANSPORT_MSG_LEN` as written into the scaled file by build.rs.
mod scaled {
    include!(concat!(env!("OUT_DIR"), "/scaled_const.rs"));
}

#[cfg(kani)]
mod proofs {
    use std::{
        future::Future,
        mem::ManuallyDrop,
        pin::Pin,
        task::{Context, Poll, Waker},
    };

    use zksync_concurrency::{
        ctx,
        io::{self, AsyncRead, AsyncWrite, ReadBuf},
    };

    use crate::noise::stream::Stream;

    /// MAX_PAYLOAD_LEN of the scaled file.
    const PAYLOAD: usize = crate::scaled::SCALED_MAX_TRANSPORT_MSG_LEN - 16;
    /// MAX_FRAME_LEN of the scaled file.
    const FRAME: usize = crate::scaled::SCALED_MAX_TRANSPORT_MSG_LEN + 2;
    // the unrolling macros below are written for these values (compile error otherwise)
    const _: [(); 0] = [(); (PAYLOAD != 4 || FRAME != 22) as usize];

    /// Capacity of the mock wire: two maximal frames.
    const W: usize = 2 * FRAME;
    /// Maximal length of a buffer passed to `Stream::poll_write`.
    const L: usize = 6;
    /// Maximal capacity of a `ReadBuf` passed to `Stream::poll_read`.
    const RB: usize = 5;
    /// Maximal number of plaintext bytes a harness tracks (2 frames).
    const ACC: usize = 2 * PAYLOAD;

    /// Straight-line `for v in [..]` (no loop for CBMC to unwind).
    macro_rules! unroll {
        ([$($i:literal),*], |$v:ident| $body:block) => { $( { let $v: u8 = $i; $body } )* };
    }
    macro_rules! unroll4 { (|$v:ident| $body:block) => { unroll!([0,1,2,3], |$v| $body) }; }
    macro_rules! unroll6 { (|$v:ident| $body:block) => { unroll!([0,1,2,3,4,5], |$v| $body) }; }
    macro_rules! unroll8 { (|$v:ident| $body:block) => { unroll!([0,1,2,3,4,5,6,7], |$v| $body) }; }
    macro_rules! unroll22 { (|$v:ident| $body:block) => {
        unroll!([0,1,2,3,4,5,6,7,8,9,10,11,12,13,14,15,16,17,18,19,20,21], |$v| $body) }; }

    /// Nondeterministic transport (see the crate documentation, item 4). Counters are `u8` (all
    /// values are < 256; asserted) -- 8-bit index arithmetic is much cheaper for the solver.
    struct Mock {
        /// the wire: bytes written so far (writer) / pre-loaded bytes (reader)
        data: [u8; W],
        /// number of valid bytes in `data`
        written: u8,
        /// number of bytes already delivered by `poll_read`
        read: u8,
        /// reader: EOF once everything is delivered
        closed: bool,
        /// remaining budget of Pending answers (P)
        pend_left: u8,
        /// remaining budget of partial transfers (Q)
        partial_left: u8,
        // ---- observations for the cover witnesses ----
        /// the last answer of poll_write was a partial accept
        after_partial_write: bool,
        /// poll_write answered Pending right after a partial accept (i.e. in the middle of a frame)
        pending_mid_frame: bool,
        partial_writes: u8,
        short_reads: u8,
        read_pendings: u8,
        /// size of the first delivery of poll_read (0 = none yet)
        first_delivery: u8,
        flushes: u8,
        shutdowns: u8,
    }

    impl Mock {
        fn new(data: [u8; W], written: u8, closed: bool, p: u8, q: u8) -> Self {
            Mock {
                data,
                written,
                read: 0,
                closed,
                pend_left: p,
                partial_left: q,
                after_partial_write: false,
                pending_mid_frame: false,
                partial_writes: 0,
                short_reads: 0,
                read_pendings: 0,
                first_delivery: 0,
                flushes: 0,
                shutdowns: 0,
            }
        }
        fn writer(p: u8, q: u8) -> Self {
            Self::new([0; W], 0, false, p, q)
        }
        fn pending(&mut self) -> bool {
            if self.pend_left > 0 && kani::any() {
                self.pend_left -= 1;
                return true;
            }
            false
        }
    }

    impl AsyncWrite for Mock {
        fn poll_write(
            self: Pin<&mut Self>,
            _cx: &mut Context<'_>,
            buf: &[u8],
        ) -> Poll<io::Result<usize>> {
            let m = self.get_mut();
            if buf.is_empty() {
                return Poll::Ready(Ok(0));
            }
            if m.pending() {
                if m.after_partial_write {
                    m.pending_mid_frame = true;
                }
                return Poll::Pending;
            }
            // The stream never hands more than one frame to the transport at a time.
            assert!(buf.len() <= FRAME, "mock: poll_write with more than MAX_FRAME_LEN bytes");
            let len = buf.len() as u8;
            let mut k = len;
            if m.partial_left > 0 && len > 1 {
                let kk: u8 = kani::any();
                kani::assume(1 <= kk && kk <= len);
                if kk < len {
                    m.partial_left -= 1;
                    m.partial_writes += 1;
                }
                k = kk;
            }
            m.after_partial_write = k < len;
            // The harnesses never produce more than two frames.
            assert!(
                m.written as usize + k as usize <= W,
                "mock: more bytes on the wire than two maximal frames"
            );
            let base = m.written;
            unroll22!(|i| {
                if i < k {
                    m.data[(base + i) as usize] = buf[i as usize];
                }
            });
            m.written = base + k;
            Poll::Ready(Ok(k as usize))
        }

        fn poll_flush(self: Pin<&mut Self>, _cx: &mut Context<'_>) -> Poll<io::Result<()>> {
            let m = self.get_mut();
            if m.pending() {
                return Poll::Pending;
            }
            m.flushes += 1;
            Poll::Ready(Ok(()))
        }

        fn poll_shutdown(self: Pin<&mut Self>, _cx: &mut Context<'_>) -> Poll<io::Result<()>> {
            let m = self.get_mut();
            if m.pending() {
                return Poll::Pending;
            }
            m.shutdowns += 1;
            Poll::Ready(Ok(()))
        }
    }

    impl AsyncRead for Mock {
        fn poll_read(
            self: Pin<&mut Self>,
            _cx: &mut Context<'_>,
            buf: &mut ReadBuf<'_>,
        ) -> Poll<io::Result<()>> {
            let m = self.get_mut();
            if buf.remaining() == 0 {
                // a read into an empty buffer completes immediately with nothing read
                return Poll::Ready(Ok(()));
            }
            // the stream reads into its frame buffer: never more than MAX_FRAME_LEN at once
            assert!(buf.remaining() <= FRAME, "mock: poll_read of more than MAX_FRAME_LEN bytes");
            let room = buf.remaining() as u8;
            assert!(m.read <= m.written && m.written as usize <= W);
            let avail = m.written - m.read;
            if avail == 0 {
                return if m.closed {
                    Poll::Ready(Ok(()))
                } else {
                    Poll::Pending
                };
            }
            if m.pending() {
                m.read_pendings += 1;
                return Poll::Pending;
            }
            let max = if room < avail { room } else { avail };
            let mut k = max;
            if m.partial_left > 0 && max > 1 {
                let kk: u8 = kani::any();
                kani::assume(1 <= kk && kk <= max);
                if kk < max {
                    m.partial_left -= 1;
                    m.short_reads += 1;
                }
                k = kk;
            }
            let base = m.read;
            {
                let dst = buf.initialize_unfilled();
                unroll22!(|i| {
                    if i < k {
                        dst[i as usize] = m.data[(base + i) as usize];
                    }
                });
            }
            buf.advance(k as usize);
            m.read = base + k;
            if m.first_delivery == 0 {
                m.first_delivery = k;
            }
            Poll::Ready(Ok(()))
        }
    }

    /// `Stream`'s fields are private: the value is built by the real `Stream::server_handshake`,
    /// polled once (the shim handshake state is finished, so the future completes without I/O).
    fn new_stream(m: Mock) -> Stream<Mock> {
        let ctx = ctx::root();
        let mut cx = Context::from_waker(Waker::noop());
        // Neither the completed future nor the result wrapper is dropped (their drop glue --
        // anyhow::Error with its backtrace, every suspended state of the handshake -- is dead
        // weight for the solver); the future is never moved after being pinned.
        let mut fut = ManuallyDrop::new(Stream::server_handshake(&ctx, m));
        let pinned = unsafe { Pin::new_unchecked(&mut *fut) };
        let res = ManuallyDrop::new(pinned.poll(&mut cx));
        match &*res {
            Poll::Ready(Ok(s)) => unsafe { std::ptr::read(s) },
            Poll::Ready(Err(_)) => panic!("harness: handshake failed"),
            Poll::Pending => panic!("harness: handshake pending"),
        }
    }

    /// Result of one poll without the `io::Error` payload. The error value is deliberately never
    /// dropped: the drop glue of `io::Error`'s `Box<dyn Error>` drags every `dyn Error`
    /// implementor (anyhow, backtrace symbolisation) into the model.
    #[derive(Clone, Copy, PartialEq, Eq)]
    enum Res {
        Pending,
        Ok(usize),
        Err,
    }

    fn res_usize(p: Poll<io::Result<usize>>) -> Res {
        let p = ManuallyDrop::new(p);
        match &*p {
            Poll::Pending => Res::Pending,
            Poll::Ready(Ok(n)) => Res::Ok(*n),
            Poll::Ready(Err(_)) => Res::Err,
        }
    }

    fn res_unit(p: Poll<io::Result<()>>) -> Res {
        let p = ManuallyDrop::new(p);
        match &*p {
            Poll::Pending => Res::Pending,
            Poll::Ready(Ok(())) => Res::Ok(0),
            Poll::Ready(Err(_)) => Res::Err,
        }
    }

    fn any_len(max: usize) -> usize {
        let n: u8 = kani::any();
        kani::assume(1 <= n && n as usize <= max);
        n as usize
    }

    #[derive(Clone, Copy, PartialEq, Eq)]
    enum Kind {
        Write,
        Flush,
        Shutdown,
        /// `poll_write` or `poll_flush`, chosen nondeterministically
        Any,
    }

    /// The caller of the write half: performs operations one after the other; an operation that
    /// returned Pending is polled again with the SAME arguments at the next step.
    struct Writer {
        /// plaintext accepted so far (`poll_write` returning n accepts the first n bytes)
        acc: [u8; ACC],
        acc_n: u8,
        /// `acc_n` at the moment of the last successful poll_flush / poll_shutdown
        flushed: u8,
        ops_done: u8,
        in_progress: bool,
        kind: Kind,
        content: [u8; L],
        len: usize,
    }

    impl Writer {
        fn new() -> Self {
            Writer {
                acc: [0; ACC],
                acc_n: 0,
                flushed: 0,
                ops_done: 0,
                in_progress: false,
                kind: Kind::Flush,
                content: [0; L],
                len: 1,
            }
        }

        /// ONE poll. Starts operation number `ops_done` (of kind `kind`) if none is in progress.
        /// Asserts: no error; `poll_write` of a non-empty buffer returns 0 < n <= len.
        ///
        /// `allow` = (poll_write, poll_flush, poll_shutdown) may occur at this step: compile-time
        /// constants at every call site, so that the model checker does not have to explore the
        /// call sites of operations the harness never performs there (asserted to be consistent
        /// with `kind`).
        fn step(
            &mut self,
            a: &mut Stream<Mock>,
            max_ops: u8,
            kind: Kind,
            allow: (bool, bool, bool),
        ) {
            if self.ops_done >= max_ops {
                return;
            }
            if !self.in_progress {
                self.kind = match kind {
                    Kind::Any => {
                        if kani::any() {
                            Kind::Write
                        } else {
                            Kind::Flush
                        }
                    }
                    k => k,
                };
                if self.kind == Kind::Write {
                    self.content = kani::any();
                    self.len = any_len(L);
                }
                self.in_progress = true;
            }
            let mut cx = Context::from_waker(Waker::noop());
            let is_write = allow.0 && self.kind == Kind::Write;
            let is_flush = allow.1 && self.kind == Kind::Flush;
            let is_shutdown = allow.2 && self.kind == Kind::Shutdown;
            assert!(
                is_write || is_flush || is_shutdown,
                "harness: operation kind not allowed at this step"
            );
            let res = if is_write {
                {
                    let r = res_usize(
                        Pin::new(&mut *a).poll_write(&mut cx, &self.content[..self.len]),
                    );
                    if let Res::Ok(n) = r {
                        assert!(n > 0, "poll_write returned Ok(0) for a non-empty buffer");
                        assert!(n <= self.len, "poll_write accepted more than it was given");
                        assert!(
                            self.acc_n as usize + n <= ACC,
                            "harness: more plaintext than two payload buffers"
                        );
                        let n = n as u8;
                        let base = self.acc_n;
                        unroll6!(|i| {
                            if i < n {
                                self.acc[(base + i) as usize] = self.content[i as usize];
                            }
                        });
                        self.acc_n = base + n;
                    }
                    r
                }
            } else if is_shutdown {
                {
                    let r = res_unit(Pin::new(&mut *a).poll_shutdown(&mut cx));
                    if let Res::Ok(_) = r {
                        self.flushed = self.acc_n;
                    }
                    r
                }
            } else {
                {
                    let r = res_unit(Pin::new(&mut *a).poll_flush(&mut cx));
                    if let Res::Ok(_) = r {
                        self.flushed = self.acc_n;
                    }
                    r
                }
            };
            match res {
                Res::Ok(_) => {
                    self.in_progress = false;
                    self.ops_done += 1;
                }
                Res::Err => panic!("write-half operation returned an error"),
                Res::Pending => {}
            }
        }
    }

    /// The caller of the read half; same re-polling discipline as `Writer` (a Pending poll_read
    /// must leave the ReadBuf untouched -- asserted -- so re-creating it with the same capacity is
    /// "the same arguments").
    struct Reader {
        got: [u8; ACC],
        n: u8,
        eof: bool,
        /// number of bytes received when the first EOF was reported
        n_at_eof: u8,
        err: bool,
        reads_done: u8,
        in_progress: bool,
        cap: usize,
    }

    impl Reader {
        fn new() -> Self {
            Reader {
                got: [0; ACC],
                n: 0,
                eof: false,
                n_at_eof: 0,
                err: false,
                reads_done: 0,
                in_progress: false,
                cap: 1,
            }
        }

        /// ONE poll of `poll_read` with a ReadBuf of symbolic capacity 1..=RB.
        /// Asserts the AsyncRead contract (Pending / Err leave the ReadBuf untouched; at most
        /// `cap` bytes) and that no data follows an EOF.
        fn step(&mut self, b: &mut Stream<Mock>, max_reads: u8) {
            if self.reads_done >= max_reads {
                return;
            }
            if !self.in_progress {
                self.cap = any_len(RB);
                self.in_progress = true;
            }
            let mut cx = Context::from_waker(Waker::noop());
            let mut storage = [0u8; RB];
            let mut rb = ReadBuf::new(&mut storage[..self.cap]);
            match res_unit(Pin::new(&mut *b).poll_read(&mut cx, &mut rb)) {
                Res::Ok(_) => {
                    let f = rb.filled().len();
                    assert!(f <= self.cap);
                    if f == 0 {
                        if !self.eof {
                            self.eof = true;
                            self.n_at_eof = self.n;
                        }
                    } else {
                        assert!(!self.eof, "data delivered after EOF was reported");
                        assert!(
                            self.n as usize + f <= ACC,
                            "reader delivered more than two payload buffers"
                        );
                        let f = f as u8;
                        let base = self.n;
                        let filled = rb.filled();
                        unroll6!(|i| {
                            if i < f {
                                self.got[(base + i) as usize] = filled[i as usize];
                            }
                        });
                        self.n = base + f;
                    }
                    self.in_progress = false;
                    self.reads_done += 1;
                }
                Res::Err => {
                    assert!(rb.filled().is_empty(), "poll_read filled bytes but returned Err");
                    self.err = true;
                    self.in_progress = false;
                    self.reads_done += 1;
                }
                Res::Pending => {
                    assert!(rb.filled().is_empty(), "poll_read filled bytes but returned Pending");
                }
            }
        }

        /// What was received is a prefix of `acc[..acc_n]`: same bytes, same order, nothing
        /// duplicated, nothing altered.
        fn assert_prefix_of(&self, acc: &[u8; ACC], acc_n: u8) {
            assert!(self.n <= acc_n, "reader received more bytes than the writer accepted");
            unroll8!(|i| {
                if i < self.n {
                    assert!(
                        self.got[i as usize] == acc[i as usize],
                        "reader received a byte that differs from what was written at that position"
                    );
                }
            });
        }
    }

    /// (a) END TO END. Bounds: P = 1 Pending and Q = 1 partial transfer per mock (writer's and
    /// reader's mock each). Writer stream A performs NW = 3 operations, each nondeterministically
    /// `poll_write` (buffer of symbolic length 1..=L = 6, symbolic content) or `poll_flush`
    /// (NW + P = 4 polls). Then reader stream B (peer cipher state) over a mock pre-loaded with
    /// exactly the bytes A's mock received (W = 44), closed, performs up to NR = 6 `poll_read`s with
    /// ReadBufs of symbolic capacity 1..=RB = 5 (NR + P = 7 polls).
    /// Asserts: no operation fails or is still Pending when the budget is used up; poll_write
    /// never returns Ok(0) / more than len; what B receives is a prefix of what A accepted (order,
    /// no duplication, no corruption); B reports EOF only after at least the bytes accepted before
    /// A's last successful flush; no data after EOF.
    /// unwind 4: poll_flush_frame <= Q + 1 = 2 iterations, poll_read_frame <= Q + 2 = 3 iterations.
    #[kani::proof]
    #[kani::unwind(4)]
    #[kani::stub(std::backtrace::Backtrace::capture, std::backtrace::Backtrace::disabled)]
    fn roundtrip_write_flush_read() {
        const P: u8 = 1;
        const Q: u8 = 1;
        const NW: u8 = 3;
        const NR: u8 = 6;
        let mut a = new_stream(Mock::writer(P, Q));
        let mut w = Writer::new();
        // NW + P polls
        unroll!([0, 1, 2, 3], |_s| {
            w.step(&mut a, NW, Kind::Any, (true, true, false));
        });
        assert!(
            w.ops_done == NW && !w.in_progress,
            "write-half operation still Pending after the transport's Pending budget"
        );
        let (wire, written, pending_mid_frame, partial_writes) = {
            let m: &Mock = &a;
            (m.data, m.written, m.pending_mid_frame, m.partial_writes)
        };

        let mut b = new_stream(Mock::new(wire, written, true, P, Q));
        let mut r = Reader::new();
        // NR + P polls
        unroll!([0, 1, 2, 3, 4, 5, 6], |_s| {
            r.step(&mut b, NR);
        });
        assert!(!r.err, "poll_read returned an error on an untampered wire");
        assert!(
            r.reads_done == NR && !r.in_progress,
            "poll_read still Pending after the transport's Pending budget"
        );
        r.assert_prefix_of(&w.acc, w.acc_n);
        if r.eof {
            assert!(
                r.n_at_eof >= w.flushed,
                "EOF reported before all flushed data was delivered"
            );
        }

        let (first_delivery, short_reads) = {
            let m: &Mock = &b;
            (m.first_delivery, m.short_reads)
        };
        let frame1 = 2 + u16::from_le_bytes([wire[0], wire[1]]) as usize;
        kani::cover!(pending_mid_frame, "transport answered Pending in the middle of a frame");
        kani::cover!(partial_writes > 0, "transport accepted part of a frame");
        kani::cover!(written as usize > FRAME, "two frames on the wire");
        kani::cover!(
            written > 0 && first_delivery > 0 && (first_delivery as usize) < frame1 && r.n > 0,
            "reader got its first frame split over several transport reads"
        );
        kani::cover!(
            r.eof && r.n as usize == ACC && w.flushed as usize == ACC,
            "two full frames delivered, then EOF"
        );
        kani::cover!(r.eof && w.flushed < w.acc_n, "EOF with unflushed data left in the writer");
        kani::cover!(short_reads > 0 && r.n == w.acc_n && w.acc_n > 0);
        std::mem::forget(a);
        std::mem::forget(b);
    }

    /// Decodes the wire by hand (u16 LE length prefix, frame, peer cipher state): at most two
    /// frames. Asserts it is a sequence of complete, authentic, non-empty frames with nothing left
    /// over; returns (plaintext, its length, number of frames).
    fn decode_wire(m: &Mock) -> ([u8; ACC], u8, u8) {
        let written = m.written as usize;
        let mut peer = snow::TransportState::new_session();
        let mut dec = [0u8; ACC];
        let mut dec_n = 0u8;
        let mut pos = 0usize;
        let mut frames = 0u8;
        unroll!([0, 1], |_f| {
            if pos < written {
                assert!(written - pos >= 2, "wire ends inside a length field");
                let n = u16::from_le_bytes([m.data[pos], m.data[pos + 1]]) as usize;
                assert!(pos + 2 + n <= written, "wire ends inside a frame");
                let mut out = [0u8; PAYLOAD];
                let r = peer.read_message(&m.data[pos + 2..pos + 2 + n], &mut out);
                assert!(r.is_ok(), "frame on the wire does not authenticate as the next message");
                let p = r.unwrap_or(0) as u8;
                assert!(p > 0, "empty frame on the wire");
                assert!((dec_n + p) as usize <= ACC);
                unroll4!(|i| {
                    if i < p {
                        dec[(dec_n + i) as usize] = out[i as usize];
                    }
                });
                dec_n += p;
                pos += 2 + n;
                frames += 1;
            }
        });
        assert!(pos == written, "bytes left on the wire after two frames");
        (dec, dec_n, frames)
    }

    /// (b) WRITE SIDE. Bounds: P = 2, Q = 2. Operations: `poll_write`, then `poll_write` or
    /// `poll_flush`, then `poll_flush` (buffers of symbolic length 1..=6, symbolic content); 3 + P
    /// = 5 polls. After the final successful flush the wire, decoded by hand with the peer cipher
    /// state, is a sequence of complete frames whose plaintexts concatenate to exactly the accepted
    /// bytes, nothing left over: in particular no part of a frame is sent twice when the transport
    /// accepts part of a frame and then answers Pending. The inner transport was flushed too.
    /// unwind 4: poll_flush_frame <= Q + 1 = 3 iterations.
    #[kani::proof]
    #[kani::unwind(4)]
    #[kani::stub(std::backtrace::Backtrace::capture, std::backtrace::Backtrace::disabled)]
    fn flush_delivers_exactly_once_on_wire() {
        const P: u8 = 2;
        const Q: u8 = 2;
        let mut a = new_stream(Mock::writer(P, Q));
        let mut w = Writer::new();
        unroll!([0, 1, 2, 3, 4], |_s| {
            let kind = match w.ops_done {
                0 => Kind::Write,
                1 => Kind::Any,
                _ => Kind::Flush,
            };
            w.step(&mut a, 3, kind, (true, true, false));
        });
        assert!(
            w.ops_done == 3 && !w.in_progress,
            "write-half operation still Pending after the transport's Pending budget"
        );
        assert!(w.flushed == w.acc_n);
        let m: &Mock = &a;
        assert!(m.flushes >= 1, "poll_flush succeeded without flushing the inner transport");
        let (dec, dec_n, frames) = decode_wire(m);
        assert!(dec_n == w.acc_n, "wire carries a different number of plaintext bytes than accepted");
        unroll8!(|i| {
            if i < dec_n {
                assert!(
                    dec[i as usize] == w.acc[i as usize],
                    "wire plaintext differs from the accepted plaintext"
                );
            }
        });

        kani::cover!(m.pending_mid_frame, "transport answered Pending in the middle of a frame");
        kani::cover!(m.partial_writes == Q, "both partial accepts used");
        kani::cover!(frames == 2, "two frames on the wire");
        kani::cover!(frames == 2 && m.pending_mid_frame && w.acc_n as usize == ACC);
        kani::cover!(frames == 1 && w.acc_n == 1, "one-byte frame");
        std::mem::forget(a);
    }

    /// (b') `poll_shutdown` implies a flush. Bounds: P = 2, Q = 2; `poll_write` (symbolic length
    /// 1..=6) then `poll_shutdown`; 2 + P = 4 polls. The wire holds exactly one frame carrying the
    /// accepted bytes and the inner transport was shut down exactly once.
    /// unwind 4 as in (b).
    #[kani::proof]
    #[kani::unwind(4)]
    #[kani::stub(std::backtrace::Backtrace::capture, std::backtrace::Backtrace::disabled)]
    fn shutdown_flushes() {
        const P: u8 = 2;
        const Q: u8 = 2;
        let mut a = new_stream(Mock::writer(P, Q));
        let mut w = Writer::new();
        unroll!([0, 1, 2, 3], |_s| {
            let kind = match w.ops_done {
                0 => Kind::Write,
                _ => Kind::Shutdown,
            };
            w.step(&mut a, 2, kind, (true, false, true));
        });
        assert!(
            w.ops_done == 2 && !w.in_progress,
            "write-half operation still Pending after the transport's Pending budget"
        );
        let m: &Mock = &a;
        assert!(m.shutdowns == 1, "inner transport not shut down exactly once");
        let (dec, dec_n, frames) = decode_wire(m);
        assert!(frames == 1 && dec_n == w.acc_n);
        unroll4!(|i| {
            if i < dec_n {
                assert!(dec[i as usize] == w.acc[i as usize]);
            }
        });
        kani::cover!(m.pending_mid_frame, "transport answered Pending in the middle of a frame");
        kani::cover!(w.acc_n as usize == PAYLOAD && w.len > PAYLOAD, "write longer than the payload buffer");
        std::mem::forget(a);
    }

    /// Appends the frame of `payload` (as the peer's cipher state produces it) to `wire`.
    fn put_frame(
        peer: &mut snow::TransportState,
        wire: &mut [u8; W],
        pos: usize,
        payload: &[u8],
    ) -> usize {
        let r = peer.write_message(payload, &mut wire[pos + 2..]);
        assert!(r.is_ok());
        let n = r.unwrap_or(0);
        let lf = (n as u16).to_le_bytes();
        wire[pos] = lf[0];
        wire[pos + 1] = lf[1];
        pos + 2 + n
    }

    /// (c) READ SIDE. Bounds: P = 2, Q = 2. The wire holds TWO valid back-to-back frames built by
    /// hand with the peer cipher state (payload lengths p1, p2 symbolic 1..=4, symbolic content).
    /// `closed` is symbolic. Up to NR = 5 `poll_read`s with ReadBufs of symbolic capacity 1..=5
    /// (NR + P = 7 polls).
    /// Asserts: never an error; what is received is a prefix of p1 ++ p2; EOF is reported only
    /// after all p1 + p2 bytes (and never if the transport is not closed); no data after EOF; a
    /// read is still Pending at the end only when the transport is open and everything was
    /// delivered.
    /// unwind 5: poll_read_frame <= Q + 2 = 4 iterations.
    #[kani::proof]
    #[kani::unwind(5)]
    #[kani::stub(std::backtrace::Backtrace::capture, std::backtrace::Backtrace::disabled)]
    fn reader_false_eof() {
        const P: u8 = 2;
        const Q: u8 = 2;
        const NR: u8 = 5;
        let content: [u8; ACC] = kani::any();
        let p1 = any_len(PAYLOAD);
        let p2 = any_len(PAYLOAD);
        let mut peer = snow::TransportState::new_session();
        let mut wire = [0u8; W];
        let end1 = put_frame(&mut peer, &mut wire, 0, &content[..p1]);
        let end2 = put_frame(&mut peer, &mut wire, end1, &content[p1..p1 + p2]);
        assert!(end1 == 2 + p1 + 16 && end2 == end1 + 2 + p2 + 16);
        let closed: bool = kani::any();
        let total = (p1 + p2) as u8;

        let mut b = new_stream(Mock::new(wire, end2 as u8, closed, P, Q));
        let mut r = Reader::new();
        unroll!([0, 1, 2, 3, 4, 5, 6], |_s| {
            r.step(&mut b, NR);
        });
        assert!(!r.err, "poll_read returned an error on an untampered wire");
        r.assert_prefix_of(&content, total);
        if r.eof {
            assert!(closed, "EOF reported although the transport is still open");
            assert!(r.n_at_eof == total, "EOF reported before both frames were delivered");
        }
        if r.in_progress {
            assert!(
                !closed && r.n == total,
                "poll_read Pending although undelivered data / EOF is available"
            );
        } else {
            assert!(r.reads_done == NR);
        }

        let m: &Mock = &b;
        let fd = m.first_delivery as usize;
        kani::cover!(fd > 0 && fd < end1 && r.n as usize >= p1,
            "first frame split over several transport reads");
        kani::cover!(fd > end1 && r.n == total,
            "first transport read carries the first frame and part of the second");
        kani::cover!(fd == FRAME && p1 < PAYLOAD && r.eof,
            "frame buffer filled completely by the first read, second frame incomplete");
        kani::cover!(r.eof && r.n as usize == ACC, "two full frames, then EOF");
        kani::cover!(m.read_pendings > 0 && m.short_reads == Q && r.eof);
        kani::cover!(!closed && r.in_progress);
        std::mem::forget(b);
    }

    /// (d) TAMPERED WIRE. Bounds: P = 2, Q = 2; the wire is `len` <= 24 ARBITRARY bytes, closed; up
    /// to 4 `poll_read`s with ReadBufs of symbolic capacity 1..=5 (4 + P = 6 polls).
    /// Asserts: no panic / out-of-bounds / arithmetic overflow anywhere in stream.rs and bytes.rs
    /// (Kani's automatic checks, debug assertions included); Err and Pending leave the ReadBuf
    /// untouched; and AUTHENTICITY in the ideal-cipher model: if any data is delivered, the wire
    /// starts with a complete frame that carries the tag of nonce 0, and the delivered bytes are
    /// exactly (a prefix of) the un-masked body of that frame (24 bytes cannot hold a second valid
    /// frame). An Err result is fine. (Scaling artefact: a length field > 20 cannot be completed
    /// inside the 22-byte frame buffer and ends in EOF instead of an error; with the real
    /// constant every u16 length fits the buffer.)
    /// unwind 5 as in (c).
    #[kani::proof]
    #[kani::unwind(5)]
    #[kani::stub(std::backtrace::Backtrace::capture, std::backtrace::Backtrace::disabled)]
    fn reader_tampered_wire_never_panics() {
        const P: u8 = 2;
        const Q: u8 = 2;
        const WD: usize = 24;
        let bytes: [u8; WD] = kani::any();
        let len: u8 = kani::any();
        kani::assume(len as usize <= WD);
        let mut wire = [0u8; W];
        wire[..WD].copy_from_slice(&bytes);
        let mut b = new_stream(Mock::new(wire, len, true, P, Q));
        let mut r = Reader::new();
        unroll!([0, 1, 2, 3, 4, 5], |_s| {
            r.step(&mut b, 4);
        });
        if r.n > 0 {
            let len = len as usize;
            let n = u16::from_le_bytes([wire[0], wire[1]]) as usize;
            assert!(len >= 2 && 2 + n <= len, "data delivered from an incomplete frame");
            assert!(n >= 16 && n - 16 <= PAYLOAD);
            let tag = snow::model_tag(0);
            unroll!([0, 1, 2, 3, 4, 5, 6, 7, 8, 9, 10, 11, 12, 13, 14, 15], |j| {
                assert!(
                    wire[2 + n - 16 + j as usize] == tag,
                    "data delivered from an unauthenticated frame"
                );
            });
            assert!(r.n as usize <= n - 16, "more data delivered than the authenticated frame holds");
            unroll4!(|i| {
                if i < r.n {
                    assert!(
                        r.got[i as usize] == wire[2 + i as usize] ^ snow::MODEL_MASK,
                        "delivered byte differs from the authenticated frame body"
                    );
                }
            });
        }
        kani::cover!(r.err && r.n == 0, "tampered frame rejected with an error");
        kani::cover!(r.n as usize == PAYLOAD, "a valid maximal frame is accepted");
        kani::cover!(r.n > 0 && r.err, "valid frame followed by garbage: data, then error");
        kani::cover!(len == 1 && r.eof && !r.err, "truncated length field: EOF");
        std::mem::forget(b);
    }
}
