//! Produces `$OUT_DIR/stream_scaled.rs` from the REAL
//! /repo/node/components/network/src/noise/stream.rs (or from `$VERIF_STREAM_RS`, used to validate
//! the harnesses against known-bad variants of the file) on every build:
//!   (a) the leading `//!` inner-doc lines are replaced by empty `//` comment lines (an `include!`d
//!       file inside `mod stream {}` cannot start with inner docs; line numbers are preserved);
//!   (b) EXACTLY ONE textual substitution: `const MAX_TRANSPORT_MSG_LEN: usize = 65535;` becomes
//!       `const MAX_TRANSPORT_MSG_LEN: usize = <SCALED_MAX_TRANSPORT_MSG_LEN>;`.
//! Every other byte of the file is untouched. The build FAILS (=> the runner reports inconclusive)
//! if the const line is not found exactly once with the value 65535.
//!
//! BOUND OF EVERY CLAIM MADE WITH THIS CRATE: the buffers of the stream are sized
//! MAX_PAYLOAD_LEN = SCALED - 16 and MAX_FRAME_LEN = SCALED + 2 instead of 65519 / 65537.
use std::{env, fs, path::PathBuf};

const DEFAULT_SRC: &str = "/repo/node/components/network/src/noise/stream.rs";
/// The scaled value of MAX_TRANSPORT_MSG_LEN (real: 65535). MAX_PAYLOAD_LEN = 4, MAX_FRAME_LEN = 22.
const SCALED_MAX_TRANSPORT_MSG_LEN: usize = 20;
const CONST_LINE: &str = "const MAX_TRANSPORT_MSG_LEN: usize = 65535;";

fn main() {
    println!("cargo:rerun-if-env-changed=VERIF_STREAM_RS");
    println!("cargo:rerun-if-changed=build.rs");
    let src = env::var("VERIF_STREAM_RS").unwrap_or_else(|_| DEFAULT_SRC.to_string());
    println!("cargo:rerun-if-changed={src}");
    if src != DEFAULT_SRC {
        println!("cargo:warning=noisestream: checking {src} INSTEAD OF the real {DEFAULT_SRC}");
    }
    let text = fs::read_to_string(&src).unwrap_or_else(|e| panic!("cannot read {src}: {e}"));

    let mut out = String::with_capacity(text.len());
    let mut in_header = true;
    let mut replaced = 0usize;
    let mut decls = 0usize;
    for line in text.split_inclusive('\n') {
        let body = line.trim_end_matches(['\n', '\r']);
        if in_header && body.starts_with("//!") {
            // keep the line count (diagnostics point at the right line of the real file)
            out.push_str("//\n");
            continue;
        }
        in_header = false;
        if body.contains("const MAX_TRANSPORT_MSG_LEN") {
            decls += 1;
        }
        if body == CONST_LINE {
            replaced += 1;
            out.push_str(&format!(
                "const MAX_TRANSPORT_MSG_LEN: usize = {SCALED_MAX_TRANSPORT_MSG_LEN};"
            ));
            out.push_str(&line[body.len()..]);
            continue;
        }
        out.push_str(line);
    }
    assert!(
        decls == 1 && replaced == 1,
        "`{CONST_LINE}` must occur exactly once in {src} (declarations of the constant found: \
         {decls}, lines replaced: {replaced}): the scaling is out of date, refusing to continue"
    );
    assert!(
        !out.contains("//!"),
        "{src}: inner doc comment after the header; cannot be include!d"
    );
    // the places where the constant takes effect must still be there
    for needle in [
        "const MAX_PAYLOAD_LEN: usize = MAX_TRANSPORT_MSG_LEN - AUTHDATA_LEN;",
        "const MAX_FRAME_LEN: usize = MAX_TRANSPORT_MSG_LEN + LENGTH_FIELD_LEN;",
        "bytes::Buffer::new(MAX_PAYLOAD_LEN)",
        "bytes::Buffer::new(MAX_FRAME_LEN)",
    ] {
        assert!(text.matches(needle).count() == 1, "`{needle}` not found exactly once in {src}");
    }
    assert!(SCALED_MAX_TRANSPORT_MSG_LEN > 16 && SCALED_MAX_TRANSPORT_MSG_LEN <= 65535);
    let dir = PathBuf::from(env::var("OUT_DIR").unwrap());
    fs::write(dir.join("stream_scaled.rs"), out).unwrap();
    fs::write(
        dir.join("scaled_const.rs"),
        format!("pub const SCALED_MAX_TRANSPORT_MSG_LEN: usize = {SCALED_MAX_TRANSPORT_MSG_LEN};\n"),
    )
    .unwrap();
}
