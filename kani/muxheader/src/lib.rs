//! C10 part 2 -- multiplexer frame header: the REAL
//! /repo/node/components/network/src/mux/header.rs compiled into this crate with `#[path]`
//! (its items are `pub(super)`, so the file is mounted as a child of the `proofs` module).
//! Everything is decided for ALL 65536 raw header values.
//!
//! What is NOT the real code here: `dispatch_like_process_inbound_frames` re-states the two
//! `match` statements of `Mux::process_inbound_frames` (mux/mod.rs:228-232 and 238-273; the same
//! shape is in transient_stream.rs:42-59 and reusable_stream.rs:278-291). mux/mod.rs cannot be
//! path-included (tokio, scope, channels, semaphores). The pattern constants and the decoding
//! functions are the real ones; the engine-M check of C10 executes the real match from MIR.
#![allow(dead_code)]

#[cfg(kani)]
mod proofs {
    #[path = "/repo/node/components/network/src/mux/header.rs"]
    mod header;
    use header::{FrameKind, Header, StreamId, StreamKind};

    /// The two matches of `process_inbound_frames`, arms replaced by their index.
    fn dispatch_like_process_inbound_frames(header: Header) -> (u8, u8) {
        let s = match header.stream_kind() {
            StreamKind::ACCEPT => 0,
            StreamKind::CONNECT => 1,
            _ => unreachable!("bad StreamKind"),
        };
        let f = match header.frame_kind() {
            FrameKind::OPEN | FrameKind::CLOSE => 0,
            FrameKind::DATA => 1,
            _ => unreachable!("bad FrameKind"),
        };
        (s, f)
    }

    /// Decoding never panics and is a lossless split of the 16 bits: 2 (frame kind) + 1 (stream
    /// kind) + 13 (stream id); `Header::new` of the three parts gives the header back; the
    /// byte form is little endian and round-trips.
    #[kani::proof]
    fn header_decode_total() {
        let raw: u16 = kani::any();
        let h = Header::from(raw.to_le_bytes());
        assert!(h.0 == raw);
        let (f, s, id) = (h.frame_kind(), h.stream_kind(), h.stream_id());
        assert!(f.0 == raw & 0b1100_0000_0000_0000);
        assert!(s.0 == raw & 0b0010_0000_0000_0000);
        assert!(id.0 == raw & 0b0001_1111_1111_1111);
        assert!(id.0 <= StreamId::MASK);
        // masks are disjoint and exhaustive
        assert!(FrameKind::MASK ^ StreamKind::MASK ^ StreamId::MASK == u16::MAX);
        assert!(FrameKind::MASK & StreamKind::MASK == 0 && FrameKind::MASK & StreamId::MASK == 0);
        assert!(StreamKind::MASK & StreamId::MASK == 0);
        // the decoded id is always acceptable to the checked constructor
        let id2 = StreamId::new(id.0);
        assert!(id2 == id);
        let h2 = Header::new(f, s, id);
        assert!(h2.0 == raw);
        assert!(Header::from(h2.raw()).0 == raw);
        assert!(h.raw() == raw.to_le_bytes());
        kani::cover!(raw == u16::MAX);
        kani::cover!(f == FrameKind::DATA && s == StreamKind::CONNECT && id.0 == 7);
    }

    /// Constructor -> accessors, for the three assigned frame kinds, both stream kinds and every
    /// id the checked constructor accepts.
    #[kani::proof]
    fn header_new_roundtrip() {
        let f = match kani::any::<u8>() % 3 {
            0 => FrameKind::OPEN,
            1 => FrameKind::DATA,
            _ => FrameKind::CLOSE,
        };
        let s = if kani::any() { StreamKind::ACCEPT } else { StreamKind::CONNECT };
        let id: u16 = kani::any();
        kani::assume(id <= StreamId::MASK);
        let sid = StreamId::new(id);
        assert!(sid.0 == id);
        let h = Header::new(f, s, sid);
        assert!(h.frame_kind() == f);
        assert!(h.stream_kind() == s);
        assert!(h.stream_id() == sid);
        // distinct triples give distinct headers (injective): decoding above is its inverse
        let (s_idx, f_idx) = dispatch_like_process_inbound_frames(h);
        assert!((s_idx == 1) == (s == StreamKind::CONNECT));
        assert!((f_idx == 1) == (f == FrameKind::DATA));
        kani::cover!(f == FrameKind::CLOSE && s == StreamKind::CONNECT && id == StreamId::MASK);
        kani::cover!(f == FrameKind::OPEN && s == StreamKind::ACCEPT && id == 0);
    }

    /// `StreamId::new` panics (assert!) exactly above MASK; its only caller passes
    /// `streams.len() as u16` with len < MAX_STREAM_COUNT = MASK + 1 (Mux::verify).
    #[kani::proof]
    fn stream_id_new_contract() {
        let id: u16 = kani::any();
        kani::assume((id as u32) < (StreamId::MASK as u32 + 1));
        let sid = StreamId::new(id);
        assert!(sid.0 == id);
        kani::cover!(id == StreamId::MASK);
    }

    /// For every header the stream kind is one of the two kinds the dispatcher handles
    /// (`unreachable!("bad StreamKind")` really is unreachable).
    #[kani::proof]
    fn stream_kind_total() {
        let raw: u16 = kani::any();
        let h = Header::from(raw.to_le_bytes());
        let k = h.stream_kind();
        assert!(k == StreamKind::ACCEPT || k == StreamKind::CONNECT);
        kani::cover!(k == StreamKind::ACCEPT);
        kani::cover!(k == StreamKind::CONNECT);
    }

    /// EXPECTED TO FAIL on the current tree (finding F4): for every header the frame kind must be
    /// one of the kinds `process_inbound_frames` handles. Headers with the two top bits 11
    /// decode to FrameKind(0xC000) = OPEN|DATA|CLOSE mask, which no arm matches
    /// => `unreachable!("bad FrameKind")`.
    #[kani::proof]
    fn frame_kind_total() {
        let raw: u16 = kani::any();
        let h = Header::from(raw.to_le_bytes());
        kani::cover!(raw >> 14 == 0b11, "unassigned frame kind bits are a possible input");
        // the match of process_inbound_frames: reaches `unreachable!("bad FrameKind")`
        let _ = dispatch_like_process_inbound_frames(h);
        let k = h.frame_kind();
        assert!(
            k == FrameKind::OPEN || k == FrameKind::DATA || k == FrameKind::CLOSE,
            "frame_kind() is one of OPEN, DATA, CLOSE"
        );
    }

    /// The same dispatcher for the headers outside F4: passes, so F4 is the only hole.
    #[kani::proof]
    fn dispatch_total_outside_f4() {
        let raw: u16 = kani::any();
        kani::assume(raw >> 14 != 0b11);
        let h = Header::from(raw.to_le_bytes());
        let (s, f) = dispatch_like_process_inbound_frames(h);
        assert!(s <= 1 && f <= 1);
        kani::cover!(s == 1 && f == 1);
        kani::cover!(s == 0 && f == 0);
    }
}
