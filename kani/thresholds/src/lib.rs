//! C07 -- threshold arithmetic, decided by Kani over the whole `u64` domain.
//!
//! Functions under test (the real ones, called through the public API of
//! `zksync_consensus_roles`): `validator::max_faulty_weight`, `quorum_threshold`,
//! `subquorum_threshold` (/repo/node/libs/roles/src/validator/messages/schedule.rs).
//!
//! Oracle: the inequalities of the property statement evaluated in `u128`, so the oracle
//! itself cannot overflow.
#![allow(dead_code)]

#[cfg(kani)]
mod proofs {
    use zksync_consensus_roles::validator::{
        max_faulty_weight, quorum_threshold, subquorum_threshold,
    };

    /// All of C07 for every total weight `n >= 1`: no arithmetic panic in the three
    /// functions, and with `f, q, s` the returned values
    ///   5f+1 <= n,  q = n-f,  s = n-3f,  2q-n > f,  2q-n-f >= s,  2f < s.
    #[kani::proof]
    fn thresholds() {
        let n: u64 = kani::any();
        kani::assume(n >= 1);
        let f = max_faulty_weight(n);
        let q = quorum_threshold(n);
        let s = subquorum_threshold(n);
        let (n_, f_, q_, s_) = (n as u128, f as u128, q as u128, s as u128);
        // f = floor((n-1)/5), stated without division.
        assert!(5 * f_ + 1 <= n_);
        assert!(n_ < 5 * (f_ + 1) + 1);
        assert!(q == n - f);
        assert!(s_ + 3 * f_ == n_);
        assert!(s == n - 3 * f);
        // two quorums intersect in more than f
        assert!(2 * q_ >= n_);
        assert!(2 * q_ - n_ > f_);
        // a commit quorum and a timeout quorum share at least s weight of correct replicas
        assert!(2 * q_ - n_ >= f_);
        assert!(2 * q_ - n_ - f_ >= s_);
        // a subquorum cannot consist of faulty replicas twice over
        assert!(2 * f_ < s_);
        assert!(s_ >= 1 && q_ >= 1 && q_ <= n_ && s_ <= q_);
        kani::cover!(f > 0 && n % 5 == 1, "n = 5f+1 with f > 0 is reachable");
        kani::cover!(n == u64::MAX, "largest total weight is reachable");
    }

    /// `max_faulty_weight` never panics for n >= 1 ...
    #[kani::proof]
    fn max_faulty_weight_total_n_ge_1() {
        let n: u64 = kani::any();
        kani::assume(n >= 1);
        let f = max_faulty_weight(n);
        assert!(f <= n / 5);
        kani::cover!(n == 1 && f == 0);
    }
    #[kani::proof]
    fn quorum_threshold_total_n_ge_1() {
        let n: u64 = kani::any();
        kani::assume(n >= 1);
        let q = quorum_threshold(n);
        assert!(q >= 1 && q <= n);
        kani::cover!(q < n);
    }
    #[kani::proof]
    fn subquorum_threshold_total_n_ge_1() {
        let n: u64 = kani::any();
        kani::assume(n >= 1);
        let s = subquorum_threshold(n);
        assert!(s >= 1 && s <= n);
        kani::cover!(s < n);
    }

    /// ... and for EVERY n including 0. On the current tree these three are expected to FAIL:
    /// `(total_weight - 1) / 5` underflows at n = 0 ("attempt to subtract with overflow").
    /// `Schedule::new` rejects an empty / zero-weight committee before calling them, so this is a
    /// robustness note on the public functions, not a reachable defect; see harnesses.json.
    #[kani::proof]
    fn max_faulty_weight_total_all_n() {
        let n: u64 = kani::any();
        kani::cover!(n == 0);
        let _ = max_faulty_weight(n);
    }
    #[kani::proof]
    fn quorum_threshold_total_all_n() {
        let n: u64 = kani::any();
        kani::cover!(n == 0);
        let _ = quorum_threshold(n);
    }
    #[kani::proof]
    fn subquorum_threshold_total_all_n() {
        let n: u64 = kani::any();
        kani::cover!(n == 0);
        let _ = subquorum_threshold(n);
    }
}
