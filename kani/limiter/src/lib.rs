//! C15 -- rate limiter, bounded run (thorough tier cross-check of the engine-M step lemmas).
//! The REAL /repo/node/libs/concurrency/src/limiter/mod.rs is compiled into this crate with
//! `#[path]`; what it imports from `crate::{ctx, sync, time}` is the sequential environment model
//! below (the real modules need tokio).
//!
//! Environment model (trusted, small):
//!  * `time::Instant` = nanoseconds (i128) since an arbitrary origin; `Duration` is the real
//!    `time::Duration`.
//!  * `ctx::Ctx`: a clock cell. `sleep_until_deadline(Finite(t))` returns `Ok` at the instant
//!    max(now, t) + slack (slack >= 0 chosen by the harness), or `Canceled` if the harness says so;
//!    `Infinite` never returns Ok. `canceled()` never completes.
//!  * `sync::Mutex`/`lock`: uncontended. `sync::watch`: a cell. `wait_for`: single task, so if the
//!    predicate does not hold now nobody can make it hold => `Canceled`.
//! If limiter/mod.rs starts using an API the model lacks, this crate stops compiling and the
//! runner reports inconclusive.
#![allow(dead_code, unused)]

#[path = "/repo/node/libs/concurrency/src/limiter/mod.rs"]
pub mod limiter;

pub mod time {
    pub type Duration = ::time::Duration;
    /// Nanoseconds since an arbitrary origin.
    #[derive(Clone, Copy, Debug, PartialEq, Eq, PartialOrd, Ord)]
    pub struct Instant(pub i128);
    impl Instant {
        pub fn checked_add(self, d: Duration) -> Option<Self> {
            let n = self.0.checked_add(d.whole_nanoseconds())?;
            if n > (u64::MAX as i128) * 4 {
                return None; // range of the modelled clock
            }
            Some(Instant(n))
        }
    }
    impl std::ops::Sub for Instant {
        type Output = Duration;
        fn sub(self, b: Self) -> Duration {
            let d = self.0 - b.0;
            Duration::new((d / 1_000_000_000) as i64, (d % 1_000_000_000) as i32)
        }
    }
    #[derive(Clone, Copy, Debug, PartialEq, Eq, PartialOrd, Ord)]
    pub enum Deadline {
        Finite(Instant),
        Infinite,
    }
}

pub mod ctx {
    use super::time;
    use std::cell::Cell;
    #[derive(Debug, PartialEq, Eq)]
    pub struct Canceled;
    pub type OrCanceled<T> = Result<T, Canceled>;
    pub struct Ctx {
        pub clock: Cell<i128>,
        pub cancel_sleep: Cell<bool>,
        pub slack: Cell<i128>,
    }
    impl Ctx {
        pub fn now(&self) -> time::Instant {
            time::Instant(self.clock.get())
        }
        pub async fn canceled(&self) {
            std::future::pending::<()>().await
        }
        pub async fn sleep_until_deadline(&self, d: time::Deadline) -> OrCanceled<()> {
            if self.cancel_sleep.get() {
                return Err(Canceled);
            }
            match d {
                time::Deadline::Infinite => Err(Canceled),
                time::Deadline::Finite(t) => {
                    let now = self.clock.get();
                    let base = if t.0 > now { t.0 } else { now };
                    self.clock.set(base + self.slack.get());
                    Ok(())
                }
            }
        }
    }
}

pub mod sync {
    use super::ctx;
    use std::cell::{Ref, RefCell};
    pub mod watch {
        use std::cell::RefCell;
        use std::rc::Rc;
        /// Address of the value of the most recently created channel (the limiter creates exactly
        /// one: its `State`). Lets the harness observe the private state, see `proofs::Mirror`.
        pub static mut LAST_VALUE: *const u8 = std::ptr::null();
        pub static mut LAST_SIZE: usize = 0;
        pub static mut LAST_ALIGN: usize = 0;
        pub struct Sender<T>(pub Rc<RefCell<T>>);
        pub struct Receiver<T>(pub Rc<RefCell<T>>);
        pub fn channel<T>(v: T) -> (Sender<T>, Receiver<T>) {
            let rc = Rc::new(RefCell::new(v));
            unsafe {
                LAST_VALUE = rc.as_ptr() as *const u8;
                LAST_SIZE = std::mem::size_of::<T>();
                LAST_ALIGN = std::mem::align_of::<T>();
            }
            (Sender(rc.clone()), Receiver(rc))
        }
        impl<T> Sender<T> {
            pub fn send_modify(&self, f: impl FnOnce(&mut T)) {
                f(&mut self.0.borrow_mut())
            }
            pub fn send_if_modified(&self, f: impl FnOnce(&mut T) -> bool) -> bool {
                f(&mut self.0.borrow_mut())
            }
        }
    }
    pub struct Mutex<T>(RefCell<T>);
    impl<T> Mutex<T> {
        pub fn new(v: T) -> Self {
            Self(RefCell::new(v))
        }
    }
    pub struct Guard<'a, T>(std::cell::RefMut<'a, T>);
    impl<'a, T> Guard<'a, T> {
        pub fn into_async(self) -> Self {
            self
        }
    }
    impl<T> std::ops::Deref for Guard<'_, T> {
        type Target = T;
        fn deref(&self) -> &T {
            &self.0
        }
    }
    impl<T> std::ops::DerefMut for Guard<'_, T> {
        fn deref_mut(&mut self) -> &mut T {
            &mut self.0
        }
    }
    pub async fn lock<'a, T>(_ctx: &ctx::Ctx, m: &'a Mutex<T>) -> ctx::OrCanceled<Guard<'a, T>> {
        Ok(Guard(m.0.borrow_mut()))
    }
    pub async fn wait_for<'a, T>(
        _ctx: &ctx::Ctx,
        recv: &'a mut watch::Receiver<T>,
        pred: impl Fn(&T) -> bool,
    ) -> ctx::OrCanceled<Ref<'a, T>> {
        let r = recv.0.borrow();
        if pred(&r) {
            Ok(r)
        } else {
            Err(ctx::Canceled)
        }
    }
}

#[cfg(kani)]
mod proofs {
    use super::*;
    use std::future::Future;
    use std::pin::pin;
    use std::task::{Context, Poll, RawWaker, RawWakerVTable, Waker};

    fn block_on<F: Future>(f: F) -> F::Output {
        fn noop(_: *const ()) {}
        fn clone(_: *const ()) -> RawWaker {
            RawWaker::new(std::ptr::null(), &VT)
        }
        static VT: RawWakerVTable = RawWakerVTable::new(clone, noop, noop, noop);
        let w = unsafe { Waker::from_raw(RawWaker::new(std::ptr::null(), &VT)) };
        let mut cx = Context::from_waker(&w);
        let mut f = pin!(f);
        match f.as_mut().poll(&mut cx) {
            Poll::Ready(v) => v,
            Poll::Pending => {
                kani::assume(false);
                unreachable!()
            }
        }
    }

    /// Field-for-field copy of the private `limiter::State` (same types, same order), used to
    /// READ the limiter's state through the address recorded by the modelled `watch::channel`.
    /// Both are `repr(Rust)`; that the two layouts agree is not assumed but CHECKED in every run:
    /// size and alignment are compared, and `calibrate` asserts the values `Limiter::new` must
    /// have written (permits = burst >= 1, reserved = 0, refresh_ticks = 0) -- a mismatch makes
    /// the harness fail, it cannot make it pass.
    #[derive(Clone, Copy)]
    struct Mirror {
        refresh_ticks: i128,
        permits: usize,
        reserved: usize,
    }

    fn peek() -> Mirror {
        unsafe {
            assert!(sync::watch::LAST_SIZE == std::mem::size_of::<Mirror>());
            assert!(sync::watch::LAST_ALIGN == std::mem::align_of::<Mirror>());
            *(sync::watch::LAST_VALUE as *const Mirror)
        }
    }

    fn invariant(m: &Mirror, burst: usize) -> bool {
        m.reserved <= m.permits && m.permits <= burst && m.refresh_ticks >= 0
    }

    /// burst b in 1..=3, refresh r = 7 ns; 2 x (arbitrary time passes; acquire(1) with arbitrary
    /// wake-up slack; drop). Asserts: the documented state invariant after construction, after
    /// every grant and after every drop; reservation accounting; no grant before its permits are
    /// refreshed (window bound: j grants within span T => j <= b + T/r + 1).
    #[kani::proof]
    #[kani::unwind(3)]
    fn window_bound_2steps() {
        const R: i64 = 7; // refresh period in ns
        let burst: usize = kani::any();
        kani::assume(burst >= 1 && burst <= 3);
        let c = ctx::Ctx {
            clock: std::cell::Cell::new(0),
            cancel_sleep: std::cell::Cell::new(false),
            slack: std::cell::Cell::new(0),
        };
        let start: i128 = kani::any();
        kani::assume(start >= 0 && start < 1000);
        c.clock.set(start);
        let l = limiter::Limiter::new(
            &c,
            limiter::Rate { burst, refresh: time::Duration::new(0, R as i32) },
        );
        // calibration of the mirror + initial state
        let m0 = peek();
        assert!(m0.permits == burst && m0.reserved == 0 && m0.refresh_ticks == 0);
        let mut grants: [i128; 5] = [0; 5];
        let mut n = 0usize;
        let mut i = 0;
        while i < 2 {
            // environment: arbitrary time passes
            let adv: i128 = kani::any();
            kani::assume(adv >= 0 && adv < 50);
            c.clock.set(c.clock.get() + adv);
            let slack: i128 = kani::any();
            kani::assume(slack >= 0 && slack < 20);
            c.slack.set(slack);
            let before = peek();
            match block_on(l.acquire(&c, 1)) {
                Ok(p) => {
                    grants[n] = c.clock.get();
                    n += 1;
                    let m = peek();
                    assert!(invariant(&m, burst));
                    assert!(m.reserved == before.reserved + 1);
                    assert!(m.refresh_ticks >= before.refresh_ticks);
                    drop(p);
                    let m2 = peek();
                    assert!(invariant(&m2, burst));
                    assert!(m2.reserved == before.reserved);
                    assert!(m2.permits + 1 <= burst, "a consumed permit is not fresh");
                }
                Err(_) => {
                    // nothing may have been reserved or consumed
                    let m = peek();
                    assert!(m.reserved == before.reserved && m.permits == before.permits);
                }
            }
            i += 1;
        }
        // window bound: any j grants within span T satisfy j <= burst + T/R + 1
        if n >= 2 {
            let span = grants[n - 1] - grants[0];
            assert!((n as i128) <= burst as i128 + span / (R as i128) + 1);
            kani::cover!(burst == 1 && span == R as i128, "second grant exactly one refresh later");
        }
        kani::cover!(n == 2);
    }
}
