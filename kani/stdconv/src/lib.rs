//! C09 (value-level losslessness) and C10 part 1 (decoder totality) for the hand-written
//! converters of /repo/node/libs/protobuf/src/std_conv.rs, reached through the public
//! `zksync_protobuf::ProtoFmt` trait and executed against the real `time` and `bit-vec` crates.
//!
//! * `*_read_total*`: `ProtoFmt::read` on a proto struct whose scalar fields and `Option`
//!   presence bits are symbolic (bytes fields: concrete length per harness, symbolic content)
//!   reaches no panic.  `utc_read_total`, `duration_read_total` and `rate_read_total` are
//!   EXPECTED TO FAIL on the current tree (finding F3: `time::Duration::new` panics on overflow).
//! * `*_roundtrip*`: `read(build(x)) == x`.
//!
//! Every harness stubs `std::backtrace::Backtrace::capture` (called by `anyhow::Error`
//! construction) with `Backtrace::disabled` -- run with `-Z stubbing`.
#![allow(dead_code)]

#[cfg(kani)]
mod proofs {
    use bit_vec::BitVec;
    use std::net::{IpAddr, Ipv4Addr, Ipv6Addr, SocketAddr};
    use zksync_concurrency::{limiter, time};
    use zksync_protobuf::{proto::std as pstd, ProtoFmt};

    /// Arbitrary `time::Duration` in its normal form (this is every value of the type):
    /// |nanos| < 10^9 and the sign of nanos agrees with the sign of seconds.
    /// `Duration::new` leaves such a pair untouched (asserted below).
    fn any_duration() -> time::Duration {
        let s: i64 = kani::any();
        let n: i32 = kani::any();
        kani::assume(n > -1_000_000_000 && n < 1_000_000_000);
        kani::assume((s >= 0 && n >= 0) || (s <= 0 && n <= 0));
        let d = time::Duration::new(s, n);
        assert!(d.whole_seconds() == s && d.subsec_nanoseconds() == n);
        d
    }

    fn any_bytes<const N: usize>() -> Vec<u8> {
        let a: [u8; N] = kani::any();
        a.to_vec()
    }

    // ------------------------------------------------------------------ totality (C10.1)

    /// EXPECTED TO FAIL (F3): seconds = i64::MAX, nanos >= 10^9 -> `time::Duration::new` panics.
    #[kani::proof]
    #[kani::stub(std::backtrace::Backtrace::capture, std::backtrace::Backtrace::disabled)]
    fn utc_read_total() {
        let t = pstd::Timestamp { seconds: kani::any(), nanos: kani::any() };
        kani::cover!(t.seconds.is_some() && t.nanos.is_some());
        let r = <time::Utc as ProtoFmt>::read(&t);
        std::mem::forget(r);
    }

    /// EXPECTED TO FAIL (F3).
    #[kani::proof]
    #[kani::stub(std::backtrace::Backtrace::capture, std::backtrace::Backtrace::disabled)]
    fn duration_read_total() {
        let t = pstd::Duration { seconds: kani::any(), nanos: kani::any() };
        kani::cover!(t.seconds.is_some() && t.nanos.is_some());
        let r = <time::Duration as ProtoFmt>::read(&t);
        std::mem::forget(r);
    }

    /// The same two decoders restricted to the inputs on which `time::Duration::new` is defined
    /// (no carry out of i64): these must PASS -- the only panic of the decoders is F3.
    #[kani::proof]
    #[kani::stub(std::backtrace::Backtrace::capture, std::backtrace::Backtrace::disabled)]
    fn utc_read_total_outside_f3() {
        let t = pstd::Timestamp { seconds: kani::any(), nanos: kani::any() };
        if let (Some(s), Some(n)) = (t.seconds, t.nanos) {
            // |n| / 10^9 <= 2, so a few seconds of head-room on each side are enough
            kani::assume(s > i64::MIN + 4 && s < i64::MAX - 4);
            kani::cover!(n >= 1_000_000_000);
        }
        let r = <time::Utc as ProtoFmt>::read(&t);
        kani::cover!(r.is_ok());
        kani::cover!(r.is_err());
        std::mem::forget(r);
    }

    #[kani::proof]
    #[kani::stub(std::backtrace::Backtrace::capture, std::backtrace::Backtrace::disabled)]
    fn duration_read_total_outside_f3() {
        let t = pstd::Duration { seconds: kani::any(), nanos: kani::any() };
        if let (Some(s), Some(n)) = (t.seconds, t.nanos) {
            kani::assume(s > i64::MIN + 4 && s < i64::MAX - 4);
            kani::cover!(n <= -1_000_000_000);
        }
        let r = <time::Duration as ProtoFmt>::read(&t);
        kani::cover!(r.is_ok());
        kani::cover!(r.is_err());
        std::mem::forget(r);
    }

    /// EXPECTED TO FAIL (F3, through the nested `Duration`).
    #[kani::proof]
    #[kani::stub(std::backtrace::Backtrace::capture, std::backtrace::Backtrace::disabled)]
    fn rate_read_total() {
        let refresh = if kani::any() {
            Some(pstd::Duration { seconds: kani::any(), nanos: kani::any() })
        } else {
            None
        };
        let t = pstd::RateLimit { burst: kani::any(), refresh };
        kani::cover!(t.burst.is_some() && t.refresh.is_some());
        let r = <limiter::Rate as ProtoFmt>::read(&t);
        std::mem::forget(r);
    }

    #[kani::proof]
    #[kani::stub(std::backtrace::Backtrace::capture, std::backtrace::Backtrace::disabled)]
    fn rate_read_total_outside_f3() {
        let refresh = if kani::any() {
            let d = pstd::Duration { seconds: kani::any(), nanos: kani::any() };
            if let Some(s) = d.seconds {
                kani::assume(s > i64::MIN + 4 && s < i64::MAX - 4);
            }
            Some(d)
        } else {
            None
        };
        let t = pstd::RateLimit { burst: kani::any(), refresh };
        let r = <limiter::Rate as ProtoFmt>::read(&t);
        kani::cover!(r.is_ok());
        kani::cover!(r.is_err());
        std::mem::forget(r);
    }

    /// `SocketAddr::read`, ip field absent or of the concrete length N (content symbolic), port
    /// absent or any u32: never panics; accepted iff N is 4 or 16 and the port fits u16.
    fn socketaddr_read_case<const N: usize>(ok_len: bool) {
        let ip = if kani::any() { Some(any_bytes::<N>()) } else { None };
        let t = pstd::SocketAddr { ip, port: kani::any() };
        let r = <SocketAddr as ProtoFmt>::read(&t);
        if let (Some(_), Some(p)) = (&t.ip, t.port) {
            assert!(r.is_ok() == (ok_len && p <= u16::MAX as u32));
        } else {
            assert!(r.is_err());
        }
        kani::cover!(r.is_ok() == ok_len);
        kani::cover!(r.is_err());
        std::mem::forget(r);
        std::mem::forget(t);
    }

    /// ip lengths 0, 4, 5, 16, 17 one after the other (lengths stay concrete).
    #[kani::proof]
    #[kani::unwind(19)]
    #[kani::stub(std::backtrace::Backtrace::capture, std::backtrace::Backtrace::disabled)]
    fn socketaddr_read_total() {
        socketaddr_read_case::<0>(false);
        socketaddr_read_case::<4>(true);
        socketaddr_read_case::<5>(false);
        socketaddr_read_case::<16>(true);
        socketaddr_read_case::<17>(false);
    }

    /// `BitVec::read`, bytes field of the concrete length N (content symbolic) and, separately,
    /// absent; size absent or any u64: never panics; accepted iff size <= 8 * N, and then the
    /// result has exactly `size` bits, equal to the leading bits of the bytes (big endian within
    /// a byte). Presence of `bytes` is NOT a symbolic choice inside one value: merging `Some(vec)`
    /// with `None` leaves CBMC with a vector of symbolic length (12 GB exhausted, measured).
    fn bitvec_read_case<const N: usize>() {
        let raw: [u8; N] = kani::any();
        let t = pstd::BitVector { size: kani::any(), bytes: Some(raw.to_vec()) };
        let r = <BitVec as ProtoFmt>::read(&t);
        if let Some(size) = t.size {
            assert!(r.is_ok() == (size <= 8 * N as u64));
            if let Ok(v) = &r {
                assert!(v.len() as u64 == size);
                // every bit (one symbolic position instead of a loop over a symbolic length)
                let i: usize = kani::any();
                if i < v.len() {
                    assert!(v.get(i) == Some(raw[i / 8] & (0x80u8 >> (i % 8)) != 0));
                }
            }
        } else {
            assert!(r.is_err());
        }
        kani::cover!(r.is_ok());
        kani::cover!(r.is_err());
        std::mem::forget(r);
        std::mem::forget(t);
        let t = pstd::BitVector { size: kani::any(), bytes: None };
        let r = <BitVec as ProtoFmt>::read(&t);
        assert!(r.is_err());
        std::mem::forget(r);
    }

    /// bytes lengths 0, 1, 2 and 5 (5 bytes = 40 bits cross the u32 storage block boundary of
    /// bit-vec) one after the other. Longest loop: `bit_vec::reverse_bits`, 8 iterations.
    #[kani::proof]
    #[kani::unwind(10)]
    #[kani::stub(std::backtrace::Backtrace::capture, std::backtrace::Backtrace::disabled)]
    fn bitvec_read_total() {
        bitvec_read_case::<0>();
        bitvec_read_case::<1>();
        bitvec_read_case::<2>();
        bitvec_read_case::<5>();
    }

    // ------------------------------------------------------------------ round trips (C09)

    #[kani::proof]
    #[kani::stub(std::backtrace::Backtrace::capture, std::backtrace::Backtrace::disabled)]
    fn duration_roundtrip() {
        let d = any_duration();
        kani::assume(d.whole_seconds() > i64::MIN);
        let p = d.build();
        // canonical form on the wire: 0 <= nanos < 10^9
        assert!(matches!(p.nanos, Some(n) if n >= 0 && n < 1_000_000_000));
        let r = <time::Duration as ProtoFmt>::read(&p);
        assert!(matches!(&r, Ok(d2) if *d2 == d));
        kani::cover!(d.subsec_nanoseconds() < 0, "negative durations are covered");
        kani::cover!(d.whole_seconds() == i64::MAX && d.subsec_nanoseconds() == 999_999_999);
        std::mem::forget(r);
    }

    #[kani::proof]
    #[kani::stub(std::backtrace::Backtrace::capture, std::backtrace::Backtrace::disabled)]
    fn utc_roundtrip() {
        let d = any_duration();
        kani::assume(d.whole_seconds() > i64::MIN);
        // every `Utc` is UNIX_EPOCH + d for exactly one d (the field of `Utc` is crate-private)
        let t: time::Utc = time::UNIX_EPOCH + d;
        assert!(t - time::UNIX_EPOCH == d);
        let p = t.build();
        assert!(matches!(p.nanos, Some(n) if n >= 0 && n < 1_000_000_000));
        let r = <time::Utc as ProtoFmt>::read(&p);
        assert!(matches!(&r, Ok(t2) if *t2 == t));
        kani::cover!(d.subsec_nanoseconds() < 0, "timestamps before the epoch are covered");
        std::mem::forget(r);
    }

    #[kani::proof]
    #[kani::unwind(6)]
    #[kani::stub(std::backtrace::Backtrace::capture, std::backtrace::Backtrace::disabled)]
    fn socketaddr_v4_roundtrip() {
        let o: [u8; 4] = kani::any();
        let port: u16 = kani::any();
        let a = SocketAddr::new(IpAddr::V4(Ipv4Addr::from(o)), port);
        let p = a.build();
        assert!(matches!(&p.ip, Some(v) if v.len() == 4));
        let r = <SocketAddr as ProtoFmt>::read(&p);
        assert!(matches!(&r, Ok(a2) if *a2 == a));
        kani::cover!(port == u16::MAX && o[0] == 255);
        std::mem::forget(r);
        std::mem::forget(p);
    }

    /// v6: flowinfo and scope id are not on the wire, so x is constructed with both = 0
    /// (`SocketAddr::new` does exactly that).
    #[kani::proof]
    #[kani::unwind(18)]
    #[kani::stub(std::backtrace::Backtrace::capture, std::backtrace::Backtrace::disabled)]
    fn socketaddr_v6_roundtrip() {
        let o: [u8; 16] = kani::any();
        let port: u16 = kani::any();
        let a = SocketAddr::new(IpAddr::V6(Ipv6Addr::from(o)), port);
        let p = a.build();
        assert!(matches!(&p.ip, Some(v) if v.len() == 16));
        let r = <SocketAddr as ProtoFmt>::read(&p);
        assert!(matches!(&r, Ok(a2) if *a2 == a));
        // an IPv4-mapped IPv6 address must stay IPv6
        kani::cover!(o[10] == 0xff && o[11] == 0xff && o[0] == 0 && port == 0);
        std::mem::forget(r);
        std::mem::forget(p);
    }

    #[kani::proof]
    #[kani::stub(std::backtrace::Backtrace::capture, std::backtrace::Backtrace::disabled)]
    fn rate_roundtrip() {
        let d = any_duration();
        kani::assume(d.whole_seconds() > i64::MIN);
        let x = limiter::Rate { burst: kani::any(), refresh: d };
        let p = x.build();
        let r = <limiter::Rate as ProtoFmt>::read(&p);
        assert!(matches!(&r, Ok(y) if *y == x));
        kani::cover!(x.burst == usize::MAX && d.subsec_nanoseconds() < 0);
        std::mem::forget(r);
    }

    /// BitVec of the concrete length N with symbolic content.
    fn bitvec_roundtrip_case<const N: usize>() {
        let bits: [bool; N] = kani::any();
        let mut x = BitVec::from_elem(N, false);
        let mut i = 0;
        while i < N {
            x.set(i, bits[i]);
            i += 1;
        }
        let p = x.build();
        assert!(p.size == Some(N as u64));
        assert!(matches!(&p.bytes, Some(b) if b.len() == (N + 7) / 8));
        let r = <BitVec as ProtoFmt>::read(&p);
        match &r {
            Ok(y) => {
                assert!(y.len() == N);
                let mut i = 0;
                while i < N {
                    assert!(y.get(i) == Some(bits[i]));
                    i += 1;
                }
                assert!(*y == x);
            }
            Err(_) => assert!(false, "read(build(x)) failed"),
        }
        kani::cover!(N == 0 || bits[N - 1], "last bit set");
        std::mem::forget(r);
        std::mem::forget(p);
        std::mem::forget(x);
    }

    macro_rules! bitvec_roundtrip {
        ($name:ident, $($len:expr),+) => {
            #[kani::proof]
            #[kani::unwind(20)]
            #[kani::stub(std::backtrace::Backtrace::capture, std::backtrace::Backtrace::disabled)]
            fn $name() {
                $( bitvec_roundtrip_case::<$len>(); )+
            }
        };
    }
    bitvec_roundtrip!(bitvec_roundtrip_len0_5, 0, 1, 2, 3, 4, 5);
    bitvec_roundtrip!(bitvec_roundtrip_len6_11, 6, 7, 8, 9, 10, 11);
    bitvec_roundtrip!(bitvec_roundtrip_len12_14, 12, 13, 14);
    bitvec_roundtrip!(bitvec_roundtrip_len15_17, 15, 16, 17);
}
