//! Produces `$OUT_DIR/block_store_cap2.rs`: the real /repo/node/libs/engine/src/block_store.rs
//! with exactly ONE token changed -- `CACHE_CAPACITY: usize = 100` becomes `= 2` -- so that the
//! eviction loop of `truncate_cache` is reachable with the 3-4 real `Block` values Kani can carry.
//! (The unmodified file is what `mod block_store` in src/lib.rs compiles; the harnesses named
//! `*_cap2_*` use this derived copy and say so in harnesses.json.)
//! The build fails -- hence the check is reported inconclusive, never pass -- if the constant's
//! definition is not found exactly once.
use std::{env, fs, path::PathBuf};

const SRC: &str = "/repo/node/libs/engine/src/block_store.rs";
const FROM: &str = "const CACHE_CAPACITY: usize = 100;";
const TO: &str = "const CACHE_CAPACITY: usize = 2;";

fn main() {
    let src = env::var("VERIF_BLOCK_STORE_SRC").unwrap_or_else(|_| SRC.to_string());
    println!("cargo:rerun-if-changed={src}");
    println!("cargo:rerun-if-env-changed=VERIF_BLOCK_STORE_SRC");
    println!("cargo:rerun-if-changed=build.rs");
    let text = fs::read_to_string(&src).expect("cannot read block_store.rs");
    assert_eq!(
        text.matches(FROM).count(),
        1,
        "expected exactly one `{FROM}` in {src}: the environment model is out of date"
    );
    assert!(
        !text.contains("#![") && !text.lines().any(|l| l.trim_start().starts_with("//!")),
        "inner attributes/doc comments cannot be include!d"
    );
    let out = PathBuf::from(env::var("OUT_DIR").unwrap()).join("block_store_cap2.rs");
    fs::write(out, text.replace(FROM, TO)).unwrap();
}
