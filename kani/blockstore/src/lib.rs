//! C08 -- block store kernel, one inductive step per operation, decided by Kani on the REAL
//! /repo/node/libs/engine/src/block_store.rs (compiled into this crate with `#[path]`; the file is
//! crate-private in `zksync_consensus_engine`). Blocks are real `validator::Block` values
//! (`Block::PreGenesis`, empty justification, a one-byte symbolic payload as identity tag --
//! except in the `update_persisted` harnesses, see `blk`).
//!
//! Representation invariant I of `BlockStore` (queued = [qf, qn), persisted = [pf, pn),
//! cache = VecDeque of blocks, len = cache.len()):
//!   (a) pf <= pn            (b) qf <= qn           (c) pn <= qn          (d) pf <= qf
//!   (e) len <= qn and cache[i].number == qn - len + i     (contiguous, ends at queued.last)
//!   (f) qn - len <= pn      (everything queued but not cached is already persisted; for an
//!                            empty cache this says qn == pn)
//!   (g) queued.last == None  =>  cache is empty   (`last` becomes `Some` on the first push and
//!                            goes back to `None` only together with `cache.clear()`)
//! `last` is `None` only if first == next; `Some(l)` means next == l + 1 (both representations
//! of an empty range, `None` and `Some(first-1)`, are generated: the second one arises in the
//! real code when pruning moves `first` past the queue, see `update_persisted`).
//!
//! Harness names: `<op>_step_len<L>`: from an ARBITRARY store satisfying I with a cache of the
//! concrete length L (contents and all numbers symbolic, < u64::MAX - 4) and arbitrary arguments,
//! the operation's exact post-state is asserted, and I again.
//! `*_cap2_*`: the same against the derived copy with CACHE_CAPACITY = 2 (see build.rs) so that
//! the eviction loop is exercised.
#![allow(dead_code)]

#[path = "/repo/node/libs/engine/src/block_store.rs"]
mod block_store;

/// The real file with `CACHE_CAPACITY = 2` (build.rs).
mod block_store_cap2 {
    include!(concat!(env!("OUT_DIR"), "/block_store_cap2.rs"));
}

#[cfg(kani)]
mod proofs {
    use std::collections::VecDeque;
    use zksync_consensus_roles::validator::{
        Block, BlockNumber, Justification, Payload, PreGenesisBlock,
    };

    const MAX: u64 = u64::MAX - 4;

    /// `tagged`: the payload is one symbolic byte (identity of the block beyond its number);
    /// untagged blocks have an empty payload, i.e. no heap allocation at all -- used by the
    /// `update_persisted` harnesses, where dropping the cache (`cache.clear()`) with heap-owning
    /// blocks costs CBMC > 12 GB already at cache length 1 (measured).
    fn blk(n: u64, tag: u8, tagged: bool) -> Block {
        Block::PreGenesis(PreGenesisBlock {
            number: BlockNumber(n),
            payload: Payload(if tagged { vec![tag] } else { vec![] }),
            justification: Justification(vec![]),
        })
    }

    /// (number, identity tag) of a block built by `blk` (tag 0 if untagged).
    fn sig(b: &Block) -> (u64, u8) {
        match b {
            Block::PreGenesis(b) => (b.number.0, if b.payload.0.is_empty() { 0 } else { b.payload.0[0] }),
            _ => {
                assert!(false, "only pre-genesis blocks are generated");
                (0, 0)
            }
        }
    }

    /// Snapshot of everything observable in a store (`$m` = block_store or block_store_cap2).
    #[derive(Clone, Copy, PartialEq, Eq)]
    struct Snap<const L: usize> {
        qf: u64,
        qn: u64,
        q_some: bool,
        pf: u64,
        pn: u64,
        p_some: bool,
        len: usize,
        cache: [(u64, u8); L],
    }

    macro_rules! harnesses_for {
        ($m:ident, $modname:ident) => {
            pub mod $modname {
                use super::*;
                use crate::$m::{BlockStore, BlockStoreState, Last};

                pub fn last_num(l: &Option<Last>) -> Option<u64> {
                    match l {
                        None => None,
                        Some(Last::PreGenesis(n)) => Some(n.0),
                        Some(_) => {
                            assert!(false, "only Last::PreGenesis is generated");
                            None
                        }
                    }
                }

                /// Arbitrary range [first, next) in either representation.
                pub fn state(first: u64, next: u64, prefer_none: bool) -> BlockStoreState {
                    let last = if next > first || (next == first && next > 0 && !prefer_none) {
                        Some(Last::PreGenesis(BlockNumber(next - 1)))
                    } else {
                        None
                    };
                    BlockStoreState { first: BlockNumber(first), last }
                }

                pub fn any_state() -> BlockStoreState {
                    let first: u64 = kani::any();
                    let next: u64 = kani::any();
                    kani::assume(first <= next && next < MAX);
                    state(first, next, kani::any())
                }

                /// Arbitrary store satisfying I, cache length LEN.
                /// Generated from c0 = number of the first cached block (= qn - LEN): every store
                /// satisfying I with this cache length is of this form, and block numbers stay
                /// syntactically `c0 + constant` (needed by `block_lookup`, see there).
                pub fn any_store<const LEN: usize>(tagged: bool) -> BlockStore {
                    let c0: u64 = kani::any();
                    kani::assume(c0 < MAX - LEN as u64);
                    let qn = c0 + LEN as u64;
                    let (qf, pf, pn): (u64, u64, u64) = (kani::any(), kani::any(), kani::any());
                    kani::assume(pf <= pn && qf <= qn && pn <= qn && pf <= qf && c0 <= pn);
                    // (g): the `None` representation of an empty queue only with an empty cache
                    let queued = state(qf, qn, LEN == 0 && kani::any());
                    let persisted = state(pf, pn, kani::any());
                    let mut cache = VecDeque::new();
                    let mut i = 0;
                    while i < LEN {
                        cache.push_back(blk(c0 + i as u64, kani::any(), tagged));
                        i += 1;
                    }
                    BlockStore { queued, persisted, cache }
                }

                pub fn inv(s: &BlockStore) -> bool {
                    let (qf, qn) = (s.queued.first.0, s.queued.next().0);
                    let (pf, pn) = (s.persisted.first.0, s.persisted.next().0);
                    if !(pf <= pn && qf <= qn && pn <= qn && pf <= qf) {
                        return false;
                    }
                    let n = s.cache.len() as u64;
                    if n > qn {
                        return false;
                    }
                    if n > 0 && last_num(&s.queued.last).is_none() {
                        return false;
                    }
                    let c0 = qn - n;
                    if c0 > pn {
                        return false;
                    }
                    let mut i = 0;
                    while i < s.cache.len() {
                        if sig(&s.cache[i]).0 != c0 + i as u64 {
                            return false;
                        }
                        i += 1;
                    }
                    true
                }

                /// Snapshot with room for L cache entries (unused slots are (0,0)).
                pub fn snap<const L: usize>(s: &BlockStore) -> Snap<L> {
                    let mut cache = [(0u64, 0u8); L];
                    assert!(s.cache.len() <= L);
                    let mut i = 0;
                    while i < s.cache.len() {
                        cache[i] = sig(&s.cache[i]);
                        i += 1;
                    }
                    Snap {
                        qf: s.queued.first.0,
                        qn: s.queued.next().0,
                        q_some: last_num(&s.queued.last).is_some(),
                        pf: s.persisted.first.0,
                        pn: s.persisted.next().0,
                        p_some: last_num(&s.persisted.last).is_some(),
                        len: s.cache.len(),
                        cache,
                    }
                }

                /// try_push: appends iff number == queued.next; otherwise nothing changes at all;
                /// existing entries and `persisted` never change.
                /// `L1` = LEN + 1 (snapshot room). `cap`: CACHE_CAPACITY of the module.
                pub fn try_push_step<const LEN: usize, const L1: usize>(cap: usize) {
                    let mut s = any_store::<LEN>(true);
                    assert!(inv(&s));
                    let old: Snap<L1> = snap(&s);
                    let n: u64 = kani::any();
                    let tag: u8 = kani::any();
                    kani::assume(n < MAX);
                    let pushed = s.try_push(blk(n, tag, true));
                    let new: Snap<L1> = snap(&s);
                    assert!(pushed == (n == old.qn));
                    if !pushed {
                        assert!(new == old);
                    } else {
                        assert!(new.qn == old.qn + 1 && new.q_some && new.qf == old.qf);
                        assert!(new.pf == old.pf && new.pn == old.pn && new.p_some == old.p_some);
                        // number of evictions the documented policy allows: while over capacity
                        // and the front is already persisted
                        let over = if LEN + 1 > cap { (LEN + 1 - cap) as u64 } else { 0 };
                        let c0 = old.qn - LEN as u64;
                        let persisted_in_cache = if old.pn > c0 { old.pn - c0 } else { 0 };
                        let ev = (if over < persisted_in_cache { over } else { persisted_in_cache }) as usize;
                        assert!(new.len == LEN + 1 - ev);
                        // the survivors are the old entries, unchanged and in order, then the new block
                        let mut i = 0;
                        while i + ev < LEN {
                            assert!(new.cache[i] == old.cache[i + ev]);
                            i += 1;
                        }
                        assert!(new.cache[new.len - 1] == (n, tag));
                    }
                    assert!(inv(&s));
                    kani::cover!(pushed);
                    kani::cover!(!pushed && n < old.qn);
                    kani::cover!(!pushed && n > old.qn);
                    std::mem::forget(s);
                }

                /// update_persisted(new) for every `new` with first <= next (what a storage
                /// back end reporting a range can produce; manager.rs passes the value of the
                /// `EngineInterface::persisted()` watch unchecked).
                pub fn update_persisted_step<const LEN: usize>(cap: usize) {
                    let mut s = any_store::<LEN>(false);
                    assert!(inv(&s));
                    let old: Snap<LEN> = snap(&s);
                    let newp = any_state();
                    let (nf, nn, n_some) = (newp.first.0, newp.next().0, last_num(&newp.last).is_some());
                    let r = s.update_persisted(newp);
                    let new: Snap<LEN> = snap(&s);
                    // never shrinks persisted.next: refused, and then nothing changes
                    assert!(r.is_ok() == (nn >= old.pn));
                    if r.is_err() {
                        assert!(new == old);
                    } else {
                        assert!(new.pf == nf && new.pn == nn && new.p_some == n_some);
                        assert!(new.pn >= old.pn);
                        let reset = nn > old.qn;
                        if reset {
                            // persistence overtook the queue: queue := persisted, cache dropped.
                            // (The real code tests `queued.next() < persisted.next()` AFTER advancing
                            // queued.first; for an empty queue represented with last = None and a new
                            // EMPTY persisted range starting above it the clone is skipped and the
                            // same range [nf, nf) is left as (nf, None) instead of (nf, Some(nf-1)):
                            // equal as ranges, so only the range and the cache are compared there.)
                            assert!(new.qf == nf && new.qn == nn);
                            assert!(new.q_some == n_some || (nf == nn && !new.q_some && !old.q_some));
                            assert!(new.len == 0);
                        } else {
                            assert!(new.qn == old.qn && new.q_some == old.q_some);
                            assert!(new.qf == if old.qf < nf { nf } else { old.qf });
                            let over = if LEN > cap { (LEN - cap) as u64 } else { 0 };
                            let c0 = old.qn - LEN as u64;
                            let persisted_in_cache = if nn > c0 { nn - c0 } else { 0 };
                            let ev = (if over < persisted_in_cache { over } else { persisted_in_cache }) as usize;
                            assert!(new.len == LEN - ev);
                            let mut i = 0;
                            while i + ev < LEN {
                                assert!(new.cache[i] == old.cache[i + ev]);
                                i += 1;
                            }
                        }
                    }
                    assert!(inv(&s));
                    kani::cover!(r.is_ok() && nn > old.qn, "reset path");
                    kani::cover!(r.is_ok() && nn == old.qn, "caught up exactly, no reset");
                    kani::cover!(LEN == 0 || r.is_ok() && nn < old.qn && nf > old.qf, "pruning");
                    kani::cover!(LEN > 0 || r.is_ok() && nn > old.qn && new.q_some != n_some, "reset skipped for an empty None queue");
                    kani::cover!(r.is_err());
                    std::mem::forget(r);
                    std::mem::forget(s);
                }

                /// truncate_cache: evicts exactly min(len - CAPACITY, #persisted entries at the
                /// front) entries from the front and touches nothing else.
                pub fn truncate_cache_step<const LEN: usize>(cap: usize) {
                    let mut s = any_store::<LEN>(true);
                    assert!(inv(&s));
                    let old: Snap<LEN> = snap(&s);
                    s.truncate_cache();
                    let new: Snap<LEN> = snap(&s);
                    let over = if LEN > cap { (LEN - cap) as u64 } else { 0 };
                    let c0 = old.qn - LEN as u64;
                    let persisted_in_cache = if old.pn > c0 { old.pn - c0 } else { 0 };
                    let ev = (if over < persisted_in_cache { over } else { persisted_in_cache }) as usize;
                    assert!(new.len == LEN - ev);
                    let mut i = 0;
                    while i + ev < LEN {
                        assert!(new.cache[i] == old.cache[i + ev]);
                        i += 1;
                    }
                    assert!((new.qf, new.qn, new.q_some) == (old.qf, old.qn, old.q_some));
                    assert!((new.pf, new.pn, new.p_some) == (old.pf, old.pn, old.p_some));
                    assert!(inv(&s));
                    kani::cover!(ev == over as usize, "evicted down to capacity (or nothing to evict)");
                    kani::cover!(LEN <= cap || ev < over as usize, "eviction stopped at an un-persisted block");
                    std::mem::forget(s);
                }

                /// block(n) for EVERY n, and the read path of `EngineManager::get_block`
                /// (`queued.contains(n)`, then `block(n)`, else storage).
                /// One call of `block` per harness: each costs CBMC ~3 GB (the returned
                /// `Option<Block>` is a large tagged union moved by value).
                pub fn block_lookup<const LEN: usize>() {
                    let s = any_store::<LEN>(true);
                    assert!(inv(&s));
                    let old: Snap<LEN> = snap(&s);
                    let c0 = old.qn - LEN as u64;
                    let n: u64 = kani::any();
                    let b = s.block(BlockNumber(n));
                    // in the cache iff c0 <= n < qn, and then it is THE cached block with that number
                    match &b {
                        Some(b) => {
                            assert!(c0 <= n && n < old.qn);
                            assert!(sig(b).0 == n);
                            assert!(sig(b) == old.cache[(n - c0) as usize]);
                        }
                        None => assert!(n < c0 || n >= old.qn),
                    }
                    // available => in cache or readable from storage
                    if s.queued.contains(BlockNumber(n)) {
                        assert!(b.is_some() || s.persisted.contains(BlockNumber(n)));
                        assert!(b.is_some() || n < old.pn);
                    }
                    kani::cover!(s.queued.contains(BlockNumber(n)) && b.is_none());
                    kani::cover!(LEN == 0 || s.queued.contains(BlockNumber(n)) && b.is_some());
                    kani::cover!(LEN == 0 || !s.queued.contains(BlockNumber(n)) && b.is_some(),
                        "cached but pruned from the queued range");
                    std::mem::forget(b);
                    std::mem::forget(s);
                }

                /// The persister task's selection `block(max(queue_next, persisted.next))` for every
                /// `queue_next`: it is the block numbered exactly m = max(..) (the successor of the
                /// last handed-out block, or the durable head if persistence jumped ahead), present
                /// iff m < queued.next; never a block below persisted.next.
                pub fn persister_selection<const LEN: usize>() {
                    let s = any_store::<LEN>(true);
                    assert!(inv(&s));
                    let old: Snap<LEN> = snap(&s);
                    let queue_next: u64 = kani::any();
                    let m = if queue_next > old.pn { queue_next } else { old.pn };
                    let nb = s.block(BlockNumber(queue_next).max(s.persisted.next()));
                    match &nb {
                        Some(nb) => assert!(sig(nb).0 == m && m < old.qn && m >= old.pn),
                        None => assert!(m >= old.qn),
                    }
                    kani::cover!(LEN < 2 || nb.is_some() && queue_next > old.pn);
                    kani::cover!(LEN == 0 || nb.is_some() && queue_next < old.pn);
                    kani::cover!(nb.is_none());
                    std::mem::forget(nb);
                    std::mem::forget(s);
                }
            }
        };
    }

    harnesses_for!(block_store, real);
    harnesses_for!(block_store_cap2, cap2);

    const CAP: usize = crate::block_store::BlockStore::CACHE_CAPACITY;
    const CAP2: usize = crate::block_store_cap2::BlockStore::CACHE_CAPACITY;

    /// Unwind bound = cache length + 2: the longest harness loop runs over LEN + 1 snapshot slots.
    /// Kept minimal on purpose: `truncate_cache`'s eviction loop is unwound that many times even
    /// where it cannot execute (CBMC sees a symbolic `cache.len()` after the reset/no-reset paths
    /// of `update_persisted` merge), and each unwinding contains a `pop_front` of a `Block`.
    /// Unwinding assertions stay on, so a too small bound is reported, not ignored.
    macro_rules! h {
        ($name:ident, $unwind:expr, $body:expr) => {
            #[kani::proof]
            #[kani::unwind($unwind)]
            #[kani::stub(std::backtrace::Backtrace::capture, std::backtrace::Backtrace::disabled)]
            fn $name() {
                $body
            }
        };
    }

    // ---- real file, CACHE_CAPACITY = 100 ----
    h!(try_push_step_len0, 2, real::try_push_step::<0, 1>(CAP));
    h!(try_push_step_len1, 3, real::try_push_step::<1, 2>(CAP));
    h!(try_push_step_len2, 4, real::try_push_step::<2, 3>(CAP));
    h!(try_push_step_len3, 5, real::try_push_step::<3, 4>(CAP));
    h!(update_persisted_step_len0, 2, real::update_persisted_step::<0>(CAP));
    h!(update_persisted_step_len1, 3, real::update_persisted_step::<1>(CAP));
    h!(update_persisted_step_len2, 4, real::update_persisted_step::<2>(CAP));
    h!(truncate_cache_step_len0, 2, real::truncate_cache_step::<0>(CAP));
    h!(truncate_cache_step_len1, 3, real::truncate_cache_step::<1>(CAP));
    h!(truncate_cache_step_len2, 4, real::truncate_cache_step::<2>(CAP));
    h!(truncate_cache_step_len3, 5, real::truncate_cache_step::<3>(CAP));
    h!(block_lookup_len0, 2, real::block_lookup::<0>());
    h!(block_lookup_len1, 3, real::block_lookup::<1>());
    h!(block_lookup_len2, 4, real::block_lookup::<2>());
    h!(block_lookup_len3, 5, real::block_lookup::<3>());
    h!(persister_selection_len0, 2, real::persister_selection::<0>());
    h!(persister_selection_len1, 3, real::persister_selection::<1>());
    h!(persister_selection_len2, 4, real::persister_selection::<2>());

    // ---- derived copy, CACHE_CAPACITY = 2: eviction boundary ----
    h!(truncate_cache_cap2_len2, 4, cap2::truncate_cache_step::<2>(CAP2));
    h!(truncate_cache_cap2_len3, 5, cap2::truncate_cache_step::<3>(CAP2));
    h!(truncate_cache_cap2_len4, 6, cap2::truncate_cache_step::<4>(CAP2));
    h!(try_push_cap2_len1, 3, cap2::try_push_step::<1, 2>(CAP2));
    h!(try_push_cap2_len2, 4, cap2::try_push_step::<2, 3>(CAP2));
    h!(try_push_cap2_len3, 5, cap2::try_push_step::<3, 4>(CAP2));
    h!(update_persisted_cap2_len3, 5, cap2::update_persisted_step::<3>(CAP2));

    /// The derived copy differs from the real file in the constant only (checked at build time
    /// textually; here: the values).
    #[kani::proof]
    fn capacity_constants() {
        assert!(CAP == 100);
        assert!(CAP2 == 2);
        kani::cover!(CAP > CAP2);
    }
}
