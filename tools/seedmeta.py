#!/usr/bin/env python3
"""seedmeta.py <id> <property> <caught_by|-> "<needs>" "<what>" — writes /verif/seeded/<id>/meta.json"""
import json, sys, os
sid, prop, caught, needs, what = sys.argv[1:6]
d = f'/verif/seeded/{sid}'
log = open(d + '/verify.log').read() if os.path.exists(d + '/verify.log') else ''
meta = dict(id=sid, property=prop, what=what, needs_to_manifest=needs,
            produced_by='independent sub-agent given only the property text and a scratch worktree',
            confirmed=dict(existing_tests_pass_with_patch='test result: FAILED' not in log.split('### demo with patch')[0] and 'test result: ok' in log,
                           demo_fails_with_patch='FAILED' in log.split('### demo with patch')[-1].split('### demo without patch')[0],
                           demo_passes_without_patch='FAILED' not in log.split('### demo without patch')[-1] and 'ok' in log.split('### demo without patch')[-1],
                           how='tools/verify_seed.sh in a scratch worktree under /tmp (removed afterwards); see verify.log'),
            detected_by=None if caught == '-' else caught)
json.dump(meta, open(d + '/meta.json', 'w'), indent=1)
print(json.dumps(meta['confirmed']))
