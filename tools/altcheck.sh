#!/bin/bash
# altcheck.sh <patch.diff> <prop> [tier] — developer tool: run a check against a scratch worktree of /repo carrying a seeded
# change, WITHOUT touching /repo or /verif/evidence (VERIF_REPO / VERIF_TARGET / VERIF_OUT overrides of lib/framework.py),
# so several seeds can be examined in parallel. Registered commands never use this; final seed verdicts recorded in
# seeded/*/meta.json come from tools/seedcheck.sh (patch applied to /repo itself).
set -u
PATCH=$(readlink -f "$1"); PROP=$2; TIER=${3:-quick}
TAG=$(echo "$PATCH" | tr "/" "_" | sed "s/_tmp_seed3_//; s/_verif_seeded_//; s/_out_/_/; s/_patch.diff//")_$PROP
WT=/tmp/alt/$TAG/wt; VT=/tmp/alt/$TAG/vt
mkdir -p /tmp/alt/$TAG
[ -d "$WT" ] || git -C /repo worktree add -q --detach "$WT" HEAD || exit 3
git -C "$WT" checkout -q -- . && git -C "$WT" apply "$PATCH" || { echo "apply failed"; exit 3; }
# share the compiled MIR front end and start from a copy of the current dump build (incremental re-check)
if [ ! -d "$VT" ]; then mkdir -p "$VT"; cp -r /verif/target/mirdump "$VT/" 2>/dev/null; fi
cd /verif && VERIF_REPO="$WT" VERIF_TARGET="$VT" VERIF_OUT="/tmp/alt/$TAG/out" timeout 3000 ./check "$PROP" --tier "$TIER" 2>&1 | grep -E "^VIOLATION|^INCONCLUSIVE|^KNOWN|^$PROP |^  " | cut -c1-260 | tail -8
RC=${PIPESTATUS[0]}; echo "exit=$RC"
# scratch copies are removed at once (disk): only out/ (evidence, replay files) and the Kani logs stay
mkdir -p /tmp/alt/$TAG/out; cp -r "$VT/logs" /tmp/alt/$TAG/out/ 2>/dev/null
git -C /repo worktree remove --force "$WT" 2>/dev/null; rm -rf "$VT" "$WT"
