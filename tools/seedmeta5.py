#!/usr/bin/env python3
"""seedmeta5.py <id> "<what>" "<needs>" "<detected_by>" — writes /verif/seeded/<id>/meta.json for a round-5 seed (verify.log must exist)"""
import json, sys, os
sid, what, needs, det = sys.argv[1:5]
d = f'/verif/seeded/{sid}'
log = open(d + '/verify.log').read()
pre = log.split('### demo with patch')[0]; mid = log.split('### demo with patch')[-1].split('### demo without patch')[0]; post = log.split('### demo without patch')[-1]
meta = dict(id=sid, property=sid.split('_')[0], round=5, what=what, needs_to_manifest=needs,
            produced_by='independent sub-agent given only the property record and a scratch worktree (nothing from /verif); asked for changes that need a specific interleaving / fault / sequence / boundary input or two cooperating sites, preferring indirect sites',
            confirmed=dict(existing_tests_pass_with_patch=('FAILED' not in pre and 'test result: ok' in pre and 'APPLY-FAILED' not in log),
                           demo_fails_with_patch='FAILED' in mid, demo_passes_without_patch=('FAILED' not in post and 'test result: ok' in post),
                           how='tools/verify_seed3.sh (SEEDROOT=/tmp/seed5) in a scratch worktree under /tmp (removed afterwards); see verify.log'),
            checked_with='tools/altcheck.sh (scratch worktree + VERIF_REPO override)', detected_by=det)
import re
failed_existing = set(re.findall(r'^test (\S+) \.\.\. FAILED', pre, re.M))
if '### re-run of the timing-sensitive existing test' in log:
    rr = log.split('### re-run of the timing-sensitive existing test')[-1]
    if failed_existing <= {'gossip::tests::push_tx::test_push_tx_propagation'} and rr.count('... ok') >= 3 and 'FAILED' not in rr and 'APPLY-FAILED' not in log:
        meta['confirmed']['existing_tests_pass_with_patch'] = True
        meta['confirmed']['note'] = 'the sleep-based gossip::tests::push_tx::test_push_tx_propagation failed once under heavy machine load in the first run (it does not reach the changed code); re-run 3 times with the patch at lower load: 3 passes (appended to verify.log)'
json.dump(meta, open(d + '/meta.json', 'w'), indent=1)
print(sid, json.dumps(meta['confirmed']))
