#!/bin/bash
# recheck_flaky.sh <seed-id> <crate> <test-name> [slot] — a seed's verify.log shows ONE existing test failing that is known to be timing-sensitive under
# machine load (sleep-then-assert): re-run just that test 3 times with the patch applied in a scratch worktree and append the outcome to verify.log.
ID=$1; CR=$2; T=$3; SLOT=${4:-0}
WT=/tmp/wt_recheck_$ID; TGT=/tmp/tgt_verify_$SLOT
git -C /repo worktree add -q --detach $WT HEAD || exit 3
cd $WT && git apply /verif/seeded/$ID/patch.diff || { echo apply-failed; exit 3; }
{
echo "### re-run of the timing-sensitive existing test $T with the patch (3 times, lower machine load)"
for i in 1 2 3; do (cd node && CARGO_NET_OFFLINE=true CARGO_TARGET_DIR=$TGT cargo test --offline -j 6 -p $CR -- $T 2>&1 | grep -E "^test result|^test .* (FAILED|ok)$" | grep -v " 0 passed" ); done
} >> /verif/seeded/$ID/verify.log 2>&1
cd /; git -C /repo worktree remove --force $WT
tail -n 7 /verif/seeded/$ID/verify.log
