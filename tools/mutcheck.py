#!/usr/bin/env python3
"""dev helper: apply a textual mutation to /repo, run a check, restore.  mutcheck.py PROP FILE 'old' 'new' [--tier t]"""
import subprocess, sys
prop, path, old, new = sys.argv[1:5]
tier = sys.argv[6] if len(sys.argv) > 6 else 'quick'
p = '/repo/' + path
s = open(p).read()
if s.count(old) != 1:
    print(f'pattern occurs {s.count(old)} times'); sys.exit(3)
open(p, 'w').write(s.replace(old, new))
try:
    r = subprocess.run(['/verif/check', prop, '--tier', tier], capture_output=True, text=True, timeout=3000)
    lines = [l for l in r.stdout.splitlines() if l.startswith(('VIOLATION', 'INCONCLUSIVE', 'KNOWN', prop, '  '))]
    print('\n'.join(l[:300] for l in lines[-8:])); print('exit', r.returncode)
finally:
    subprocess.run(['git', '-C', '/repo', 'checkout', '--', path])
