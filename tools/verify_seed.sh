#!/bin/bash
# verify_seed.sh <seed dir> <id> "<crates for existing tests>" "<demo test args>"
# confirms in a scratch worktree: patch compiles + existing tests of the named crates pass; demo fails with patch, passes without.
SD=$1; ID=$2; CRATES=$3; DEMO=$4
WT=/tmp/wt_verify_$ID; TGT=/tmp/tgt_verify
OUT=/verif/seeded/$ID; mkdir -p $OUT
cp $SD/patch.diff $OUT/patch.diff; cp $SD/demo.diff $OUT/demo.diff; cp $SD/README.md $OUT/README.agent.md
git -C /repo worktree add -q --detach $WT HEAD || exit 3
cd $WT
{
echo "### existing tests with patch: $CRATES"
git apply $SD/patch.diff || echo "PATCH-APPLY-FAILED"
(cd node && CARGO_NET_OFFLINE=true CARGO_TARGET_DIR=$TGT timeout 3000 cargo test --offline --no-fail-fast $CRATES 2>&1 | grep -E "^test result|FAILED|failed|error(\[|:)" | head -40)
echo "### demo with patch (expected: FAIL)"
git apply $SD/demo.diff || echo "DEMO-APPLY-FAILED"
(cd node && CARGO_NET_OFFLINE=true CARGO_TARGET_DIR=$TGT timeout 3000 cargo test --offline --no-fail-fast $DEMO 2>&1 | grep -E "^test result|^test .*(FAILED|ok)$|panicked at|error(\[|:)" | head -20)
echo "### demo without patch (expected: PASS)"
git apply -R $SD/patch.diff || echo "REVERT-FAILED"
(cd node && CARGO_NET_OFFLINE=true CARGO_TARGET_DIR=$TGT timeout 3000 cargo test --offline --no-fail-fast $DEMO 2>&1 | grep -E "^test result|^test .*(FAILED|ok)$|panicked at|error(\[|:)" | head -20)
} > $OUT/verify.log 2>&1
cd /; git -C /repo worktree remove --force $WT
echo "verified $ID"
