#!/usr/bin/env python3
"""coverage_gap.py — developer report: for every property, the function bodies defined in its anchor files (from the MIR dump) that no
check's evidence lists under functions_encoded. Not a check; it directs where coverage is still missing."""
import json, glob, re, sys, os
V = os.path.dirname(os.path.dirname(os.path.abspath(__file__)))
def norm(n):
    # strip generic argument lists
    out = []; depth = 0
    for ch in n:
        if ch == '<': depth += 1; continue
        if ch == '>': depth -= 1; continue
        if depth == 0: out.append(ch)
    return re.sub(r'::+', '::', ''.join(out)).strip(':')
enc = {}
for f in glob.glob(V + '/evidence/*.json'):
    d = json.load(open(f)); p = d['property_id']
    for n in d['coverage'].get('functions_encoded', []):
        enc.setdefault(n, set()).add(p)
for f in glob.glob(V + '/target/coverage/*.funcs.txt'):
    p = os.path.basename(f).split('.')[0]
    for line in open(f):
        n = line.rstrip('\n').split('\t', 1)[-1]
        enc.setdefault(n, set()).add(p)
encn = set(norm(n) for n in enc)
encn |= set(n[:-len('::{closure#0}')] for n in list(encn) if n.endswith('::{closure#0}'))
enc_last = {}
for n, ps in enc.items():
    enc_last.setdefault(n, set()).update(ps)
bodies = {}   # file -> list of (line, name, kind)
for f in glob.glob(V + '/target/mir/out.*.jsonl'):
    for line in open(f):
        if '"rec":"fn"' not in line: continue
        m = re.search(r'"iname":"((?:[^"\\]|\\.)*)".*?"kind":"(\w+)".*"name":"((?:[^"\\]|\\.)*)","rec":"fn","span":"([^":]+):(\d+)', line)
        if not m: continue
        iname, kind, name, file, ln = m.groups()
        bodies.setdefault(file, []).append((int(ln), name, kind))
want = sys.argv[1:] 
for l in open(V + '/properties.jsonl'):
    d = json.loads(l)
    if want and d['id'] not in want: continue
    print('==', d['id'], d['title'])
    for af in d['anchors']['files']:
        af2 = af.replace('node/', '', 1)
        if af2.endswith('/'): files = [f for f in bodies if f.startswith(af2)]
        else: files = [f for f in bodies if f == af2]
        for file in sorted(files):
            if '/tests' in file or 'testonly' in file: continue
            miss = []
            for ln, name, kind in sorted(set(bodies[file])):
                if kind in ('Const', 'Static'): continue
                hit = norm(name) in encn
                if not hit: miss.append(f'{ln}:{name.split("::",1)[-1]}')
            tot = len([1 for x in set(bodies[file]) if x[2] not in ('Const','Static')])
            print(f'  {file}: {tot - len(miss)}/{tot} executed; missing: ' + '; '.join(miss))
