#!/bin/bash
# verify_seed3.sh <prop> <e|f|...> [slot]  — confirm a round-3 seed produced under /tmp/seed3/<prop>/out/<x>/ in a scratch worktree:
# patch compiles + existing tests of the touched crates (and the crates that depend on them) pass; the demo's new tests fail
# with the patch and pass without it. Writes /verif/seeded/<prop>_<x>/{patch.diff,demo.diff,README.agent.md,verify.log}.
P=$1; X=$2; SLOT=${3:-0}
SD=${SEEDROOT:-/tmp/seed3}/$P/out/$X; ID=${P}_$X
[ -f $SD/patch.diff ] && [ -f $SD/demo.diff ] || { echo "missing diffs for $ID"; exit 3; }
crates_of() {   # crates whose tests must keep passing, from the paths a diff touches
  local c=""
  grep -q "^+++ b/node/libs/concurrency" $1 && c="$c -p zksync_concurrency -p zksync_consensus_network"
  grep -q "^+++ b/node/libs/protobuf" $1 && c="$c -p zksync_protobuf -p zksync_consensus_roles"
  grep -q "^+++ b/node/libs/roles" $1 && c="$c -p zksync_consensus_roles -p zksync_consensus_bft -p zksync_consensus_network"
  grep -q "^+++ b/node/libs/engine" $1 && c="$c -p zksync_consensus_engine -p zksync_consensus_bft"
  grep -q "^+++ b/node/libs/crypto" $1 && c="$c -p zksync_consensus_crypto -p zksync_consensus_roles"
  grep -q "^+++ b/node/components/bft" $1 && c="$c -p zksync_consensus_bft"
  grep -q "^+++ b/node/components/network" $1 && c="$c -p zksync_consensus_network"
  echo $c | tr ' ' '\n' | paste -sd' ' | awk '{n=split($0,a," "); s=""; for(i=1;i<=n;i+=2){k=a[i]" "a[i+1]; if(!(k in seen)){seen[k]=1; s=s" "k}} print s}'
}
demo_crate() {
  grep -E "^\+\+\+ b/node/(libs|components)/" $1 | head -1 | sed -E 's#.*node/(libs|components)/([a-z_]+)/.*#\2#' | sed -E 's/^(roles|engine|crypto|network|bft|utils|executor)$/zksync_consensus_\1/; s/^protobuf$/zksync_protobuf/; s/^concurrency$/zksync_concurrency/'
}
CRATES=$(crates_of $SD/patch.diff)
DC=$(demo_crate $SD/demo.diff)
NAMES=$(awk '/^\+\s*#\[(tokio::)?test/ {t=1; next} t && /^\+.*fn [a-z0-9_]+\(/ {match($0, /fn [a-z0-9_]+/); print substr($0, RSTART+3, RLENGTH-3); t=0}' $SD/demo.diff | sort -u | paste -sd' ')
WT=/tmp/wt_verify_$ID; TGT=/tmp/tgt_verify_$SLOT
OUT=/verif/seeded/$ID; mkdir -p $OUT
cp $SD/patch.diff $OUT/patch.diff; cp $SD/demo.diff $OUT/demo.diff; cp $SD/README.md $OUT/README.agent.md 2>/dev/null
git -C /repo worktree add -q --detach $WT HEAD || exit 3
cd $WT
run() { (cd node && CARGO_NET_OFFLINE=true CARGO_TARGET_DIR=$TGT timeout 3000 cargo test --offline --no-fail-fast -j 6 "$@" 2>&1 | grep -E "^test result|^test .*(FAILED|ok)$|FAILED|panicked at|error(\[|:)" | grep -v "^test .* ok$" | head -30); }
{
echo "### seed $ID; crates with existing tests: $CRATES ; demo crate: $DC ; demo tests: $NAMES"
echo "### existing tests with patch"
git apply $SD/patch.diff || echo "PATCH-APPLY-FAILED"
run $CRATES
echo "### demo with patch (expected: FAIL)"
git apply $SD/demo.diff || echo "DEMO-APPLY-FAILED"
run -p $DC -- $NAMES
echo "### demo without patch (expected: PASS)"
git apply -R $SD/patch.diff || echo "REVERT-FAILED"
run -p $DC -- $NAMES
} > $OUT/verify.log 2>&1
cd /; git -C /repo worktree remove --force $WT
echo "verified $ID"
