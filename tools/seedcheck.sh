#!/bin/bash
# seedcheck.sh <patch> <prop> [tier]  — apply a seeded change to /repo, run the check, undo.
# The evidence file of the property is saved and restored: committed evidence must describe a run on the unchanged tree.
set -u
EV=/verif/evidence/$2.json
[ -f "$EV" ] && cp "$EV" /tmp/.seedcheck_evidence_$2.json
cd /repo && git apply "$1" || { echo "apply failed"; exit 3; }
cd /verif && timeout 3000 ./check "$2" --tier "${3:-quick}" 2>&1 | grep -E "^VIOLATION|^INCONCLUSIVE|^KNOWN|^$2 |^  " | cut -c1-260 | tail -8
git -C /repo checkout -- . && git -C /repo status --short | head -3
[ -f /tmp/.seedcheck_evidence_$2.json ] && mv /tmp/.seedcheck_evidence_$2.json "$EV"
