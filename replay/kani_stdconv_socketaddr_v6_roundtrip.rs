/// Test generated for harness `proofs::socketaddr_v6_roundtrip` 
///
/// Check for `assertion`: "assertion failed: matches!(&r, Ok(a2) if *a2 == a)"
///
/// # Warning
///
/// Concrete playback tests combined with stubs or contracts is highly
/// experimental, and subject to change.
///
/// The original harness has stubs which are not applied to this test.
/// This may cause a mismatch of non-deterministic values if the stub
/// creates any non-deterministic value.
/// The execution path may also differ, which can be used to refine the stub
/// logic.

#[test]
fn kani_concrete_playback_socketaddr_v6_roundtrip_13197527673856428069() {
    let concrete_vals: Vec<Vec<u8>> = vec![
        // 0
        vec![0],
        // 0
        vec![0],
        // 0
        vec![0],
        // 0
        vec![0],
        // 0
        vec![0],
        // 0
        vec![0],
        // 0
        vec![0],
        // 0
        vec![0],
        // 0
        vec![0],
        // 0
        vec![0],
        // 255
        vec![255],
        // 255
        vec![255],
        // 0
        vec![0],
        // 0
        vec![0],
        // 0
        vec![0],
        // 0
        vec![0],
        // 0
        vec![0, 0],
    ];
    kani::concrete_playback_run(concrete_vals, socketaddr_v6_roundtrip);
}

/// Test generated for harness `proofs::socketaddr_v6_roundtrip` 
///
/// Check for `cover`: "cover condition: o[10] == 0xff && o[11] == 0xff && o[0] == 0 && port == 0"
///
/// # Warning
///
/// Concrete playback tests combined with stubs or contracts is highly
/// experimental, and subject to change.
///
/// The original harness has stubs which are not applied to this test.
/// This may cause a mismatch of non-deterministic values if the stub
/// creates any non-deterministic value.
/// The execution path may also differ, which can be used to refine the stub
/// logic.

#[test]
fn kani_concrete_playback_socketaddr_v6_roundtrip_3632276449792064527() {
    let concrete_vals: Vec<Vec<u8>> = vec![
        // 0
        vec![0],
        // 0
        vec![0],
        // 0
        vec![0],
        // 0
        vec![0],
        // 1
        vec![1],
        // 0
        vec![0],
        // 0
        vec![0],
        // 0
        vec![0],
        // 0
        vec![0],
        // 0
        vec![0],
        // 255
        vec![255],
        // 255
        vec![255],
        // 0
        vec![0],
        // 0
        vec![0],
        // 0
        vec![0],
        // 0
        vec![0],
        // 0
        vec![0, 0],
    ];
    kani::concrete_playback_run(concrete_vals, socketaddr_v6_roundtrip);
}