/// Test generated for harness `proofs::frame_kind_total` 
///
/// Check for `assertion`: "internal error: entered unreachable code: bad FrameKind"

#[test]
fn kani_concrete_playback_frame_kind_total_3913742416012512695() {
    let concrete_vals: Vec<Vec<u8>> = vec![
        // 49152
        vec![0, 192],
    ];
    kani::concrete_playback_run(concrete_vals, frame_kind_total);
}