/// Test generated for harness `proofs::utc_read_total` 
///
/// Check for `cover`: "cover condition: t.seconds.is_some() && t.nanos.is_some()"
///
/// # Warning
///
/// Concrete playback tests combined with stubs or contracts is highly
/// experimental, and subject to change.
///
/// The original harness has stubs which are not applied to this test.
/// This may cause a mismatch of non-deterministic values if the stub
/// creates any non-deterministic value.
/// The execution path may also differ, which can be used to refine the stub
/// logic.

#[test]
fn kani_concrete_playback_utc_read_total_10993039893953050975() {
    let concrete_vals: Vec<Vec<u8>> = vec![
        // 1
        vec![1],
        // 0
        vec![0, 0, 0, 0, 0, 0, 0, 0],
        // 1
        vec![1],
        // 0
        vec![0, 0, 0, 0],
    ];
    kani::concrete_playback_run(concrete_vals, utc_read_total);
}

/// Test generated for harness `proofs::utc_read_total` 
///
/// Check for `assertion`: "This is a placeholder message; Kani doesn't support message formatted at runtime"
///
/// # Warning
///
/// Concrete playback tests combined with stubs or contracts is highly
/// experimental, and subject to change.
///
/// The original harness has stubs which are not applied to this test.
/// This may cause a mismatch of non-deterministic values if the stub
/// creates any non-deterministic value.
/// The execution path may also differ, which can be used to refine the stub
/// logic.

#[test]
fn kani_concrete_playback_utc_read_total_926716536313813753() {
    let concrete_vals: Vec<Vec<u8>> = vec![
        // 1
        vec![1],
        // 9223372036854775806
        vec![254, 255, 255, 255, 255, 255, 255, 127],
        // 1
        vec![1],
        // 2073758209
        vec![1, 10, 155, 123],
    ];
    kani::concrete_playback_run(concrete_vals, utc_read_total);
}