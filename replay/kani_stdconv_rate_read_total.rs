/// Test generated for harness `proofs::rate_read_total` 
///
/// Check for `assertion`: "This is a placeholder message; Kani doesn't support message formatted at runtime"
///
/// # Warning
///
/// Concrete playback tests combined with stubs or contracts is highly
/// experimental, and subject to change.
///
/// The original harness has stubs which are not applied to this test.
/// This may cause a mismatch of non-deterministic values if the stub
/// creates any non-deterministic value.
/// The execution path may also differ, which can be used to refine the stub
/// logic.

#[test]
fn kani_concrete_playback_rate_read_total_3474444925201864085() {
    let concrete_vals: Vec<Vec<u8>> = vec![
        // 1
        vec![1],
        // 1
        vec![1],
        // -9223372036854775807
        vec![1, 0, 0, 0, 0, 0, 0, 128],
        // 1
        vec![1],
        // -2018874368
        vec![0, 108, 170, 135],
        // 1
        vec![1],
        // 77124143618719744ul
        vec![0, 0, 0, 0, 0, 0, 18, 1],
    ];
    kani::concrete_playback_run(concrete_vals, rate_read_total);
}

/// Test generated for harness `proofs::rate_read_total` 
///
/// Check for `cover`: "cover condition: t.burst.is_some() && t.refresh.is_some()"
///
/// # Warning
///
/// Concrete playback tests combined with stubs or contracts is highly
/// experimental, and subject to change.
///
/// The original harness has stubs which are not applied to this test.
/// This may cause a mismatch of non-deterministic values if the stub
/// creates any non-deterministic value.
/// The execution path may also differ, which can be used to refine the stub
/// logic.

#[test]
fn kani_concrete_playback_rate_read_total_7612668331558438080() {
    let concrete_vals: Vec<Vec<u8>> = vec![
        // 1
        vec![1],
        // 0
        vec![0],
        // 1
        vec![1],
        // 0
        vec![0, 0, 0, 0],
        // 1
        vec![1],
        // 77124143618719744ul
        vec![0, 0, 0, 0, 0, 0, 18, 1],
    ];
    kani::concrete_playback_run(concrete_vals, rate_read_total);
}