/// Test generated for harness `proofs::duration_read_total` 
///
/// Check for `assertion`: "This is a placeholder message; Kani doesn't support message formatted at runtime"
///
/// # Warning
///
/// Concrete playback tests combined with stubs or contracts is highly
/// experimental, and subject to change.
///
/// The original harness has stubs which are not applied to this test.
/// This may cause a mismatch of non-deterministic values if the stub
/// creates any non-deterministic value.
/// The execution path may also differ, which can be used to refine the stub
/// logic.

#[test]
fn kani_concrete_playback_duration_read_total_7909666696751750400() {
    let concrete_vals: Vec<Vec<u8>> = vec![
        // 1
        vec![1],
        // -9223372036854775807
        vec![1, 0, 0, 0, 0, 0, 0, 128],
        // 1
        vec![1],
        // -2100663296
        vec![0, 108, 202, 130],
    ];
    kani::concrete_playback_run(concrete_vals, duration_read_total);
}

/// Test generated for harness `proofs::duration_read_total` 
///
/// Check for `cover`: "cover condition: t.seconds.is_some() && t.nanos.is_some()"
///
/// # Warning
///
/// Concrete playback tests combined with stubs or contracts is highly
/// experimental, and subject to change.
///
/// The original harness has stubs which are not applied to this test.
/// This may cause a mismatch of non-deterministic values if the stub
/// creates any non-deterministic value.
/// The execution path may also differ, which can be used to refine the stub
/// logic.

#[test]
fn kani_concrete_playback_duration_read_total_11532256937390696618() {
    let concrete_vals: Vec<Vec<u8>> = vec![
        // 1
        vec![1],
        // 0
        vec![0, 0, 0, 0, 0, 0, 0, 0],
        // 1
        vec![1],
        // 0
        vec![0, 0, 0, 0],
    ];
    kani::concrete_playback_run(concrete_vals, duration_read_total);
}