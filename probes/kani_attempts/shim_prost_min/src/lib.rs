//! Minimal stand-in for `prost` (lib name `prost`): only the trait surface that
//! /repo/node/libs/protobuf/src/proto_fmt.rs names in its generic helpers (`canonical`, `decode`).
//! The Kani harness crate /verif/kani/canonical never instantiates those helpers; prost's wire
//! encoder / decoder is OUTSIDE the claim.
#[derive(Debug)]
pub struct DecodeError;
impl std::fmt::Display for DecodeError {
    fn fmt(&self, f: &mut std::fmt::Formatter<'_>) -> std::fmt::Result {
        f.write_str("decode error")
    }
}
impl std::error::Error for DecodeError {}
pub trait Message: Sized {
    fn encode_to_vec(&self) -> Vec<u8>;
    fn decode(buf: &[u8]) -> Result<Self, DecodeError>;
}
