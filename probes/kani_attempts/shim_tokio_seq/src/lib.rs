//! Sequential stand-in for the few `tokio` items used by /repo/node/libs/concurrency/src/{scope/*,signal.rs}
//! (lib name `tokio`), for the Kani harness crate /verif/kani/scope. It is a single-threaded cooperative
//! executor whose scheduling decisions are made by the HARNESS (i.e. by the solver): `task::spawn` only
//! registers the future in a table; nothing runs until the harness calls `verif::poll_task(i)`.
//!
//!  * `sync::Semaphore`: only the "closed" bit (the real code never adds permits): `acquire()` is pending
//!    until `close()`, then `Err` -- tokio's documented behaviour for a semaphore with 0 permits.
//!  * `task::spawn(f)`: registers `f`; the `JoinHandle` resolves to `Ok(output)` when `f` completed, or to
//!    `Err(JoinError)` when the task "panicked".
//!  * Panics: Kani has no unwinding. A task body announces a panic with `verif::request_panic()` and returns
//!    `Pending`; the executor then DROPS the task's future (exactly what unwinding does to the frames of a
//!    panicking poll: the locals of the suspended coroutines are dropped in reverse order, nothing else runs)
//!    and resolves the JoinHandle to `Err(JoinError)` -- tokio's behaviour for a panicked task.
//!  * `task::spawn_blocking(f)`: registered like a task; `f` runs to completion in one scheduling step
//!    (a dedicated thread that is never pre-empted; bodies that block are outside this model).
//! If the real files start using another tokio API the harness crate stops compiling => inconclusive.
#![allow(static_mut_refs)]
use std::{
    future::Future,
    pin::Pin,
    sync::{Arc, Mutex},
    task::{Context, Poll},
};

pub mod sync {
    use super::*;
    use std::sync::atomic::{AtomicBool, Ordering};
    pub struct Semaphore {
        closed: AtomicBool,
    }
    pub struct SemaphorePermit<'a>(std::marker::PhantomData<&'a ()>);
    #[derive(Debug)]
    pub struct AcquireError(());
    impl Semaphore {
        pub fn new(permits: usize) -> Self {
            assert!(permits == 0, "model covers semaphores without permits only");
            Self { closed: AtomicBool::new(false) }
        }
        pub fn close(&self) {
            self.closed.store(true, Ordering::SeqCst);
        }
        pub fn is_closed(&self) -> bool {
            self.closed.load(Ordering::SeqCst)
        }
        pub fn acquire(&self) -> Acquire<'_> {
            Acquire(self)
        }
    }
    pub struct Acquire<'a>(&'a Semaphore);
    impl<'a> Future for Acquire<'a> {
        type Output = Result<SemaphorePermit<'a>, AcquireError>;
        fn poll(self: Pin<&mut Self>, _cx: &mut Context<'_>) -> Poll<Self::Output> {
            if self.0.is_closed() {
                Poll::Ready(Err(AcquireError(())))
            } else {
                Poll::Pending
            }
        }
    }
}

pub mod task {
    use super::*;
    #[derive(Debug)]
    pub struct JoinError(());
    pub struct JoinHandle<T> {
        slot: Arc<Mutex<Option<Result<T, JoinError>>>>,
    }
    impl<T> Unpin for JoinHandle<T> {}
    impl<T> Future for JoinHandle<T> {
        type Output = Result<T, JoinError>;
        fn poll(self: Pin<&mut Self>, _cx: &mut Context<'_>) -> Poll<Self::Output> {
            match self.slot.lock().unwrap().take() {
                Some(r) => Poll::Ready(r),
                None => Poll::Pending,
            }
        }
    }

    pub fn spawn<F>(f: F) -> JoinHandle<F::Output>
    where
        F: Future + Send + 'static,
        F::Output: Send + 'static,
    {
        let slot = Arc::new(Mutex::new(None));
        let slot2 = slot.clone();
        let mut inner: Option<Pin<Box<F>>> = Some(Box::pin(f));
        let wrapper = std::future::poll_fn(move |cx| {
            verif::clear_panic_request();
            let r = inner.as_mut().unwrap().as_mut().poll(cx);
            if verif::panic_requested() {
                // unwinding: the frames of the panicking poll are dropped, the handle reports the panic
                inner = None;
                verif::clear_panic_request();
                *slot2.lock().unwrap() = Some(Err(JoinError(())));
                return Poll::Ready(());
            }
            match r {
                Poll::Ready(v) => {
                    inner = None;
                    *slot2.lock().unwrap() = Some(Ok(v));
                    Poll::Ready(())
                }
                Poll::Pending => Poll::Pending,
            }
        });
        verif::register(Box::pin(wrapper));
        JoinHandle { slot }
    }

    pub fn spawn_blocking<F, R>(f: F) -> JoinHandle<R>
    where
        F: FnOnce() -> R + Send + 'static,
        R: Send + 'static,
    {
        let slot = Arc::new(Mutex::new(None));
        let slot2 = slot.clone();
        let mut f = Some(f);
        let wrapper = std::future::poll_fn(move |_cx| {
            let r = (f.take().unwrap())();
            *slot2.lock().unwrap() = Some(Ok(r));
            Poll::Ready(())
        });
        verif::register(Box::pin(wrapper));
        JoinHandle { slot }
    }
}

/// Executor table and the controls used by the harness.
pub mod verif {
    use super::*;
    use std::task::{RawWaker, RawWakerVTable, Waker};
    pub const MAX_TASKS: usize = 4;
    type Task = Pin<Box<dyn Future<Output = ()>>>;
    static mut TASKS: [Option<Task>; MAX_TASKS] = [None, None, None, None];
    static mut N_SPAWNED: usize = 0;
    static mut PANIC_REQ: bool = false;

    pub fn noop_waker() -> Waker {
        const VT: RawWakerVTable = RawWakerVTable::new(|_| RawWaker::new(std::ptr::null(), &VT), |_| {}, |_| {}, |_| {});
        unsafe { Waker::from_raw(RawWaker::new(std::ptr::null(), &VT)) }
    }
    pub(crate) fn register(t: Task) {
        unsafe {
            assert!(N_SPAWNED < MAX_TASKS, "executor table full: raise MAX_TASKS");
            TASKS[N_SPAWNED] = Some(t);
            N_SPAWNED += 1;
        }
    }
    /// Number of tasks spawned so far.
    pub fn n_spawned() -> usize {
        unsafe { N_SPAWNED }
    }
    /// Task `i` has been spawned and has not completed.
    pub fn is_live(i: usize) -> bool {
        unsafe { i < MAX_TASKS && TASKS[i].is_some() }
    }
    /// One scheduling step of task `i`; returns true iff the task completed (or panicked) in this step.
    pub fn poll_task(i: usize) -> bool {
        unsafe {
            let Some(mut t) = TASKS[i].take() else { return false };
            let w = noop_waker();
            let mut cx = Context::from_waker(&w);
            match t.as_mut().poll(&mut cx) {
                Poll::Ready(()) => {
                    drop(t);
                    true
                }
                Poll::Pending => {
                    TASKS[i] = Some(t);
                    false
                }
            }
        }
    }
    /// Called by a task body that panics now; the body must return `Pending` right after.
    pub fn request_panic() {
        unsafe { PANIC_REQ = true }
    }
    pub(crate) fn panic_requested() -> bool {
        unsafe { PANIC_REQ }
    }
    pub(crate) fn clear_panic_request() {
        unsafe { PANIC_REQ = false }
    }
}
