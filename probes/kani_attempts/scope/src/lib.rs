//! C17 -- task scopes, SEQUENTIAL (cooperative) schedules only.
//!
//! The REAL /repo/node/libs/concurrency/src/scope/{mod,state,task,must_complete,macros}.rs and signal.rs are
//! compiled into this crate (copied by build.rs, one checked substitution: the re-raised panic calls
//! `harness_hooks::scope_panics()`), against
//!   * `tokio`  = /verif/kani/shims/tokio_seq: a single-threaded executor whose every scheduling decision is a
//!     solver variable (the harness picks which task is polled next), panics modelled by dropping the task future;
//!   * `ctx`    = the model below: a context is cancelled iff its own signal or an ancestor's was sent
//!     (the watcher task of the real `Ctx::child`, ctx/mod.rs:131-156, is NOT executed: cascade is immediate here);
//!   * `tracing` = no-op shim.
//! What the harnesses decide is stated on each of them. Outside: pre-emptive thread schedules (two tasks inside
//! `set_err` / guard drops at the same time), blocking tasks that block, deadlines, the real `Ctx`.
#![allow(dead_code, unused, static_mut_refs)]

#[path = "../gen/scope/mod.rs"]
pub mod scope;
#[path = "../gen/signal.rs"]
pub mod signal;

pub mod time {
    #[derive(Clone, Copy, Debug, PartialEq, Eq, PartialOrd, Ord)]
    pub enum Deadline {
        Finite(u64),
        Infinite,
    }
}

pub mod ctx {
    use super::{signal, time};
    use std::{
        future::Future,
        pin::Pin,
        sync::Arc,
        task::{Context, Poll},
    };

    pub struct Ctx(Arc<Inner>);
    struct Inner {
        canceled: Arc<signal::Once>,
        parent: Option<Arc<Inner>>,
    }
    impl Inner {
        fn is_canceled(&self) -> bool {
            self.canceled.try_recv() || self.parent.as_ref().map_or(false, |p| p.is_canceled())
        }
    }
    #[derive(Debug, PartialEq, Eq, thiserror::Error)]
    #[error("canceled")]
    pub struct Canceled;
    pub type OrCanceled<T> = Result<T, Canceled>;

    pub fn root() -> Ctx {
        Ctx(Arc::new(Inner { canceled: Arc::new(signal::Once::new()), parent: None }))
    }

    pub struct CtxAware<F>(pub(crate) F);
    impl<F: Future> Future for CtxAware<F> {
        type Output = F::Output;
        fn poll(self: Pin<&mut Self>, cx: &mut Context<'_>) -> Poll<Self::Output> {
            unsafe { self.map_unchecked_mut(|s| &mut s.0) }.poll(cx)
        }
    }

    /// Pending until the context is cancelled.
    pub struct CanceledFut<'a>(&'a Ctx);
    impl Future for CanceledFut<'_> {
        type Output = ();
        fn poll(self: Pin<&mut Self>, _cx: &mut Context<'_>) -> Poll<()> {
            if self.0 .0.is_canceled() {
                Poll::Ready(())
            } else {
                Poll::Pending
            }
        }
    }

    /// `fut`, or `Canceled` once the context is cancelled (fut is polled first, like the first arm of the real select).
    pub struct WaitFut<'a, F>(&'a Ctx, F);
    impl<F: Future> Future for WaitFut<'_, F> {
        type Output = OrCanceled<F::Output>;
        fn poll(self: Pin<&mut Self>, cx: &mut Context<'_>) -> Poll<Self::Output> {
            let this = unsafe { self.get_unchecked_mut() };
            if let Poll::Ready(v) = unsafe { Pin::new_unchecked(&mut this.1) }.poll(cx) {
                return Poll::Ready(Ok(v));
            }
            if this.0 .0.is_canceled() {
                return Poll::Ready(Err(Canceled));
            }
            Poll::Pending
        }
    }

    impl Ctx {
        pub(crate) fn clone(&self) -> Self {
            Self(self.0.clone())
        }
        pub(crate) fn child(&self, _deadline: time::Deadline) -> Self {
            Self(Arc::new(Inner { canceled: Arc::new(signal::Once::new()), parent: Some(self.0.clone()) }))
        }
        pub(crate) fn cancel(&self) {
            self.0.canceled.send();
        }
        pub fn canceled(&self) -> CtxAware<CanceledFut<'_>> {
            CtxAware(CanceledFut(self))
        }
        pub fn is_active(&self) -> bool {
            !self.0.is_canceled()
        }
        pub fn wait<'a, F: 'a + Future>(&'a self, fut: F) -> CtxAware<WaitFut<'a, F>> {
            CtxAware(WaitFut(self, fut))
        }
        /// Harness only: cancel as the owner of this (root) context would.
        pub fn verif_cancel(&self) {
            self.cancel()
        }
    }

    /// Blocking tasks that block are outside the model.
    pub(crate) fn block_on<F: Future>(f: F) -> F::Output {
        let w = tokio::verif::noop_waker();
        let mut cx = Context::from_waker(&w);
        let mut f = std::pin::pin!(f);
        match f.as_mut().poll(&mut cx) {
            Poll::Ready(v) => v,
            Poll::Pending => panic!("verif model: block_on of a future that is not ready"),
        }
    }
}

/// Ghost state shared by the harness bodies, the hook in scope/mod.rs and the harnesses.
pub mod harness_hooks {
    pub const N: usize = 4;
    pub static mut SPAWNED: [bool; N] = [false; N];
    pub static mut IS_MAIN: [bool; N] = [false; N];
    pub static mut STARTED: [bool; N] = [false; N];
    pub static mut FINISHED: [bool; N] = [false; N];
    /// 0 = did not fail; otherwise the position of the failure in the global order of failures (1 = first).
    pub static mut FAIL_SEQ: [u8; N] = [0; N];
    pub static mut PANICKED: [bool; N] = [false; N];
    pub static mut SEQ: u8 = 0;
    pub static mut SCOPE_PANICKED: bool = false;

    pub fn any_failed() -> bool {
        unsafe { FAIL_SEQ.iter().any(|s| *s != 0) }
    }
    pub fn any_panicked() -> bool {
        unsafe { PANICKED.iter().any(|p| *p) }
    }
    pub fn all_spawned_finished() -> bool {
        unsafe { (0..N).all(|i| !SPAWNED[i] || FINISHED[i]) }
    }
    pub fn all_main_finished() -> bool {
        unsafe { SPAWNED[0] && (0..N).all(|i| !(SPAWNED[i] && IS_MAIN[i]) || FINISHED[i]) }
    }
    pub fn first_failed() -> Option<usize> {
        unsafe { (0..N).find(|i| FAIL_SEQ[*i] == 1) }
    }

    /// Replaces `panic!("one of the tasks panicked, ...")` of scope/mod.rs (build.rs).
    pub fn scope_panics() -> ! {
        unsafe { SCOPE_PANICKED = true };
        // obligations at the instant the scope re-raises a panic:
        assert!(any_panicked(), "C17: scope re-raises a panic although no task panicked");
        assert!(all_spawned_finished(), "C17: panic re-raised before every task has finished");
        #[cfg(kani)]
        {
            kani::cover!(true, "reach: scope re-raises a panic");
            kani::assume(false);
        }
        loop {}
    }
}

#[cfg(kani)]
mod proofs {
    use super::{ctx, harness_hooks::*, scope};
    use std::{
        future::Future,
        pin::Pin,
        task::{Context, Poll},
    };
    use tokio::verif as exec;

    /// What a task body does: `mode` 0 = finish at once, 1 = yield once, 2 = wait for the scope's cancellation;
    /// `out` 0 = Ok, 1 = Err(id), 2 = panic.
    #[derive(Clone, Copy)]
    struct Cfg {
        mode: u8,
        out: u8,
    }
    fn any_cfg(allow_panic: bool) -> Cfg {
        let mode: u8 = kani::any();
        let out: u8 = kani::any();
        kani::assume(mode <= 2);
        kani::assume(out <= if allow_panic { 2 } else { 1 });
        Cfg { mode, out }
    }

    struct Finish(usize);
    impl Drop for Finish {
        fn drop(&mut self) {
            unsafe { FINISHED[self.0] = true }
        }
    }
    struct YieldOnce(bool);
    impl Future for YieldOnce {
        type Output = ();
        fn poll(mut self: Pin<&mut Self>, _cx: &mut Context<'_>) -> Poll<()> {
            if self.0 {
                Poll::Ready(())
            } else {
                self.0 = true;
                Poll::Pending
            }
        }
    }
    struct Never;
    impl Future for Never {
        type Output = ();
        fn poll(self: Pin<&mut Self>, _cx: &mut Context<'_>) -> Poll<()> {
            Poll::Pending
        }
    }

    async fn body(ctx: &ctx::Ctx, id: usize, cfg: Cfg) -> Result<usize, usize> {
        unsafe { STARTED[id] = true };
        let _fin = Finish(id);
        match cfg.mode {
            0 => {}
            1 => YieldOnce(false).await,
            _ => ctx.canceled().await,
        }
        match cfg.out {
            0 => Ok(id),
            1 => {
                unsafe {
                    SEQ += 1;
                    FAIL_SEQ[id] = SEQ;
                }
                Err(id)
            }
            _ => {
                unsafe {
                    SEQ += 1;
                    FAIL_SEQ[id] = SEQ;
                    PANICKED[id] = true;
                }
                exec::request_panic();
                Never.await;
                unreachable!()
            }
        }
    }

    static mut SCOPE_CTX: Option<*const ctx::Ctx> = None;

    fn scope_canceled() -> Option<bool> {
        unsafe { SCOPE_CTX.map(|c| !(*c).is_active()) }
    }

    /// Obligations that must hold between any two scheduling steps.
    fn step_invariants() {
        if let Some(canceled) = scope_canceled() {
            if any_failed() {
                assert!(canceled, "C17: a task failed and the scope's context is not cancelled");
            }
            if all_main_finished() {
                assert!(canceled, "C17: all main tasks completed and the scope's context is not cancelled");
            }
        }
    }

    /// Shape: root (main, id 0) spawns A (main, id 1) and B (background, id 2), each optional; B or A may spawn
    /// C (id 3, through `spawn`, i.e. main -- or background by the documented fall-back when called from a
    /// background task after the main tasks are gone).
    fn run_scenario(allow_panic: bool, children: u8, steps: usize, sweeps: usize) {
        let c0 = any_cfg(allow_panic);
        let c1 = any_cfg(allow_panic);
        let c2 = any_cfg(allow_panic);
        let spawn_a: bool = children & 1 != 0 && kani::any();
        let spawn_b: bool = children & 2 != 0 && kani::any();
        let root_ctx = ctx::root();
        let mut sc = scope::Scope::new(&root_ctx);
        let fut = sc.run(|ctx, s| {
            unsafe { SCOPE_CTX = Some(ctx as *const _) };
            async move {
                if spawn_a {
                    unsafe {
                        SPAWNED[1] = true;
                        IS_MAIN[1] = true;
                    }
                    s.spawn(body(ctx, 1, c1));
                }
                if spawn_b {
                    unsafe { SPAWNED[2] = true };
                    s.spawn_bg(body(ctx, 2, c2));
                }
                body(ctx, 0, c0).await
            }
        });
        unsafe {
            SPAWNED[0] = true;
            IS_MAIN[0] = true;
        }
        let mut fut = std::pin::pin!(fut);
        let w = exec::noop_waker();
        let mut cx = Context::from_waker(&w);
        let mut result: Option<Result<usize, usize>> = None;
        // adversarial prefix: the solver picks who runs
        for _ in 0..steps {
            let pick: usize = kani::any();
            kani::assume(pick <= exec::MAX_TASKS);
            if pick == exec::MAX_TASKS {
                if result.is_none() {
                    if let Poll::Ready(r) = fut.as_mut().poll(&mut cx) {
                        result = Some(r);
                    }
                }
            } else if exec::is_live(pick) {
                exec::poll_task(pick);
            }
            step_invariants();
        }
        // fair suffix: everybody is polled in turn
        for _ in 0..sweeps {
            if result.is_none() {
                if let Poll::Ready(r) = fut.as_mut().poll(&mut cx) {
                    result = Some(r);
                }
            }
            step_invariants();
            for i in 0..exec::MAX_TASKS {
                if exec::is_live(i) {
                    exec::poll_task(i);
                    step_invariants();
                }
            }
        }
        // the scope returns (no deadlock: every body finishes once cancelled)
        assert!(result.is_some(), "C17: scope did not return although every task could finish");
        let r = result.unwrap();
        assert!(all_spawned_finished(), "C17: scope returned before every task has finished");
        assert!(!any_panicked(), "C17: a task panicked and the scope returned normally");
        match r {
            Ok(v) => {
                assert!(!any_failed(), "C17: a task failed and the scope returned Ok");
                assert!(v == 0, "C17: Ok value is not the root task's result");
            }
            Err(e) => {
                assert!(any_failed(), "C17: scope returned an error although no task failed");
                assert!(Some(e) == first_failed(), "C17: returned error is not the first failure");
            }
        }
        kani::cover!(matches!(r, Ok(_)), "reach: scope returns Ok");
        kani::cover!(matches!(r, Err(2)), "reach: background task's error returned");
        kani::cover!(matches!(r, Err(1)) && unsafe { FAIL_SEQ[0] } == 2, "reach: child fails before root fails");
    }

    #[kani::proof]
    #[kani::unwind(8)]
    fn scope_min() {
        run_scenario(false, 0, 0, 2);
    }

    #[kani::proof]
    #[kani::unwind(8)]
    fn scope_run_errors() {
        run_scenario(false, 3, 4, 4);
    }

    #[kani::proof]
    #[kani::unwind(8)]
    fn scope_run_panics() {
        run_scenario(true, 3, 4, 4);
    }
}
