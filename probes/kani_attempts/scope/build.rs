//! Copies the REAL /repo/node/libs/concurrency/src/scope/{mod,state,task,must_complete,macros}.rs and
//! /repo/node/libs/concurrency/src/signal.rs (or the same files under `$VERIF_CONCURRENCY_SRC`, used to validate the
//! harnesses against known-bad variants) into `<crate>/gen/` on every build, with EXACTLY ONE kind of textual
//! substitution, in scope/mod.rs only: the statement
//!     panic!("one of the tasks panicked, look for a stack trace above")
//! (must occur exactly twice: `run` and `run_blocking`) becomes `crate::harness_hooks::scope_panics()`, a diverging
//! function of the harness crate that records the event, checks the obligations that must hold at that instant and
//! ends the path. Kani has no unwinding, so the re-raised panic cannot be observed in any other way. Every other
//! byte is untouched; `#[cfg(test)] mod tests;` stays (never compiled: cfg(test) is off). The build FAILS
//! (=> the runner reports inconclusive) if the statement is not found exactly twice.
use std::{env, fs, path::PathBuf};

const DEFAULT_SRC: &str = "/repo/node/libs/concurrency/src";
const PANIC_STMT: &str = "panic!(\"one of the tasks panicked, look for a stack trace above\")";

fn main() {
    println!("cargo:rerun-if-env-changed=VERIF_CONCURRENCY_SRC");
    println!("cargo:rerun-if-changed=build.rs");
    let src = env::var("VERIF_CONCURRENCY_SRC").unwrap_or_else(|_| DEFAULT_SRC.to_string());
    let gen = PathBuf::from(env::var("CARGO_MANIFEST_DIR").unwrap()).join("gen");
    fs::create_dir_all(gen.join("scope")).unwrap();
    for f in ["scope/mod.rs", "scope/state.rs", "scope/task.rs", "scope/must_complete.rs", "scope/macros.rs", "signal.rs"] {
        let p = format!("{src}/{f}");
        println!("cargo:rerun-if-changed={p}");
        let mut text = fs::read_to_string(&p).unwrap_or_else(|e| panic!("cannot read {p}: {e}"));
        if f == "scope/mod.rs" {
            let n = text.matches(PANIC_STMT).count();
            assert!(n == 2, "`{PANIC_STMT}` must occur exactly twice in {p} (found {n}): substitution out of date, refusing to continue");
            text = text.replace(PANIC_STMT, "crate::harness_hooks::scope_panics()");
        }
        let out = gen.join(f);
        // avoid touching the file when unchanged (keeps incremental builds incremental)
        if fs::read_to_string(&out).map(|old| old != text).unwrap_or(true) {
            fs::write(&out, text).unwrap();
        }
    }
}
