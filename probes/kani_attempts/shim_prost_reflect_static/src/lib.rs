//! Static stand-in for `prost-reflect` (lib name `prost_reflect`) for the Kani harness crate
//! /verif/kani/canonical: message descriptors are indices into a FIXED schema table instead of a
//! descriptor pool decoded at run time (decoding a FileDescriptorSet is far outside CBMC's reach).
//! Only the methods proto_fmt.rs calls exist; their meaning follows prost-reflect 0.12's documentation:
//!   is_list            = `repeated` and not a map
//!   supports_presence  = message-typed, or declared `optional` (proto3), or in a oneof
//!   is_map             = map field
//! The schema (all proto3):
//!   message M0 { optional uint64 a = 1; repeated uint32 b = 2; optional bytes c = 3; optional M1 d = 4;
//!                repeated fixed32 e = 5; repeated M1 f = 6; uint32 implicit = 7; }
//!   message M1 { optional uint64 x = 1; repeated uint64 y = 2; }
//! Field 7 has implicit presence (canonical_raw must refuse it).
#[derive(Clone, Copy, PartialEq, Eq, Debug)]
pub struct MessageDescriptor(pub u8);
#[derive(Clone, Copy, PartialEq, Eq, Debug)]
pub struct FieldDescriptor {
    msg: u8,
    num: u32,
}
#[derive(Clone, Copy, PartialEq, Eq, Debug)]
pub struct FileDescriptor;
#[derive(Clone, Copy, PartialEq, Eq, Debug)]
pub struct EnumDescriptor;
#[derive(Clone, Copy, PartialEq, Eq, Debug)]
pub enum Syntax {
    Proto2,
    Proto3,
}
#[derive(Clone, Copy, PartialEq, Eq, Debug)]
pub enum Kind {
    Double,
    Float,
    Int32,
    Int64,
    Uint32,
    Uint64,
    Sint32,
    Sint64,
    Fixed32,
    Fixed64,
    Sfixed32,
    Sfixed64,
    Bool,
    String,
    Bytes,
    Message(MessageDescriptor),
    Enum(EnumDescriptor),
}
impl FileDescriptor {
    pub fn syntax(&self) -> Syntax {
        Syntax::Proto3
    }
}
impl MessageDescriptor {
    pub fn parent_file(&self) -> FileDescriptor {
        FileDescriptor
    }
    pub fn name(&self) -> &'static str {
        if self.0 == 0 {
            "M0"
        } else {
            "M1"
        }
    }
    pub fn get_field(&self, num: u32) -> Option<FieldDescriptor> {
        let ok = match self.0 {
            0 => (1..=7).contains(&num),
            _ => (1..=2).contains(&num),
        };
        if ok {
            Some(FieldDescriptor { msg: self.0, num })
        } else {
            None
        }
    }
}
impl FieldDescriptor {
    pub fn number(&self) -> u32 {
        self.num
    }
    pub fn name(&self) -> &'static str {
        "field"
    }
    pub fn parent_message(&self) -> MessageDescriptor {
        MessageDescriptor(self.msg)
    }
    pub fn is_map(&self) -> bool {
        false
    }
    pub fn is_list(&self) -> bool {
        match (self.msg, self.num) {
            (0, 2) | (0, 5) | (0, 6) | (1, 2) => true,
            _ => false,
        }
    }
    pub fn supports_presence(&self) -> bool {
        match (self.msg, self.num) {
            (0, 1) | (0, 3) | (0, 4) | (1, 1) => true,
            _ => false,
        }
    }
    pub fn kind(&self) -> Kind {
        match (self.msg, self.num) {
            (0, 1) => Kind::Uint64,
            (0, 2) => Kind::Uint32,
            (0, 3) => Kind::Bytes,
            (0, 4) => Kind::Message(MessageDescriptor(1)),
            (0, 5) => Kind::Fixed32,
            (0, 6) => Kind::Message(MessageDescriptor(1)),
            (0, 7) => Kind::Uint32,
            (_, 1) => Kind::Uint64,
            _ => Kind::Uint64,
        }
    }
}
pub trait ReflectMessage: prost::Message {
    fn descriptor(&self) -> MessageDescriptor;
}
