//! C09 -- byte-level canonical form (`canonical_raw`), bounded.
//!
//! The REAL /repo/node/libs/protobuf/src/proto_fmt.rs is compiled into this crate with `#[path]`, with the REAL
//! `quick-protobuf` reader / writer and `anyhow`. `prost_reflect` is the static schema of
//! /verif/kani/shims/prost_reflect_static (a fixed two-message proto3 schema instead of a run-time descriptor
//! pool), `prost` a trait-only shim (the generic helpers that call prost are never instantiated).
//!
//! Decided (per harness): every alternative serialisation of a logical message that the harness-side serialiser
//! can produce (field order, packed / unpacked / mixed repeated scalars, non-minimal varints, nested messages)
//! normalises to the byte string produced by the harness-side reference encoder, which transcribes the canonical
//! encoding spec of the module documentation (ascending tags; one TLV per scalar field, packed iff more than one
//! value; one TLV per length-delimited value in order; sub-messages canonical); duplicated singular fields,
//! unknown fields, implicit-presence fields and wrong wire types are refused; no byte string up to the bound makes
//! `canonical_raw` panic, and the output is a fixpoint.
//! Outside: prost's own encoder / decoder, descriptors other than the fixed schema, longer inputs.
#![allow(dead_code, unused)]

#[path = "/repo/node/libs/protobuf/src/proto_fmt.rs"]
pub mod proto_fmt;

#[cfg(kani)]
mod proofs {
    use super::proto_fmt::canonical_raw;
    use prost_reflect::MessageDescriptor;

    const VARINT: u8 = 0;
    const LEN: u8 = 2;
    const I32: u8 = 5;

    fn tag(num: u8, wire: u8) -> u8 {
        (num << 3) | wire
    }
    /// a varint value < 128, optionally padded to a non-minimal 2- or 3-byte encoding
    fn put_varint(out: &mut Vec<u8>, v: u8, pad: u8) {
        match pad {
            0 => out.push(v),
            1 => {
                out.push(v | 0x80);
                out.push(0);
            }
            _ => {
                out.push(v | 0x80);
                out.push(0x80);
                out.push(0);
            }
        }
    }
    fn small() -> u8 {
        let v: u8 = kani::any();
        kani::assume(v < 128);
        v
    }
    fn pad() -> u8 {
        let p: u8 = kani::any();
        kani::assume(p <= 2);
        p
    }
    fn vec_eq(a: &[u8], b: &[u8]) -> bool {
        if a.len() != b.len() {
            return false;
        }
        let mut i = 0;
        while i < a.len() {
            if a[i] != b[i] {
                return false;
            }
            i += 1;
        }
        true
    }

    /// No byte string of length L makes canonical_raw panic; an accepted one normalises to a fixpoint.
    /// (The descriptor is M0 or M1.) One harness per concrete length (symbolic lengths explode in CBMC).
    fn total<const L: usize>() {
        let bytes: [u8; L] = kani::any();
        let d: u8 = kani::any();
        kani::assume(d <= 1);
        let desc = MessageDescriptor(d);
        let r = canonical_raw(&bytes, &desc);
        if let Ok(c) = r {
            kani::cover!(c.len() == L, "reach: accepted message of full length");
            let r2 = canonical_raw(&c, &desc);
            assert!(r2.is_ok(), "C09: canonical output is not accepted");
            assert!(vec_eq(&r2.unwrap(), &c), "C09: canonical output is not a fixpoint");
            std::mem::forget(c);
        }
    }
    #[kani::proof]
    #[kani::unwind(7)]
    #[kani::stub(std::backtrace::Backtrace::capture, std::backtrace::Backtrace::disabled)]
    fn canonical_total_len2() {
        total::<2>();
    }
    #[kani::proof]
    #[kani::unwind(7)]
    #[kani::stub(std::backtrace::Backtrace::capture, std::backtrace::Backtrace::disabled)]
    fn canonical_total_len3() {
        total::<3>();
    }
    #[kani::proof]
    #[kani::unwind(7)]
    #[kani::stub(std::backtrace::Backtrace::capture, std::backtrace::Backtrace::disabled)]
    fn canonical_total_len4() {
        total::<4>();
    }

    /// M0 { a = va, c = [vc]?, d = M1 { x = vx } } in every order of the three fields, varints padded or not.
    #[kani::proof]
    #[kani::unwind(12)]
    #[kani::stub(std::backtrace::Backtrace::capture, std::backtrace::Backtrace::disabled)]
    fn canonical_field_order() {
        let (va, vx, vc) = (small(), small(), kani::any::<u8>());
        let (pa, px) = (pad(), pad());
        let has_c_byte: bool = kani::any();
        let perm: u8 = kani::any();
        kani::assume(perm < 6);
        let order: [u8; 3] = match perm {
            0 => [1, 3, 4],
            1 => [1, 4, 3],
            2 => [3, 1, 4],
            3 => [3, 4, 1],
            4 => [4, 1, 3],
            _ => [4, 3, 1],
        };
        let mut ser = Vec::new();
        for f in order {
            match f {
                1 => {
                    ser.push(tag(1, VARINT));
                    put_varint(&mut ser, va, pa);
                }
                3 => {
                    ser.push(tag(3, LEN));
                    if has_c_byte {
                        ser.push(1);
                        ser.push(vc);
                    } else {
                        ser.push(0);
                    }
                }
                _ => {
                    let mut inner = Vec::new();
                    inner.push(tag(1, VARINT));
                    put_varint(&mut inner, vx, px);
                    ser.push(tag(4, LEN));
                    ser.push(inner.len() as u8);
                    ser.extend_from_slice(&inner);
                }
            }
        }
        let mut want = vec![tag(1, VARINT), va, tag(3, LEN)];
        if has_c_byte {
            want.push(1);
            want.push(vc);
        } else {
            want.push(0);
        }
        want.extend_from_slice(&[tag(4, LEN), 2, tag(1, VARINT), vx]);
        let got = canonical_raw(&ser, &MessageDescriptor(0));
        assert!(got.is_ok(), "C09: a valid serialisation is refused");
        let got = got.unwrap();
        assert!(vec_eq(&got, &want), "C09: alternative serialisation does not normalise to the canonical bytes");
        kani::cover!(perm == 5 && pa == 2, "reach: reversed order with padded varint");
        std::mem::forget((got, want, ser));
    }

    /// M0 { a = va?, b = [v0, v1] } with b packed / unpacked / mixed and a before, between or after; and b = [v0]
    /// packed or unpacked; and b = [] given as an empty packed chunk.
    #[kani::proof]
    #[kani::unwind(12)]
    #[kani::stub(std::backtrace::Backtrace::capture, std::backtrace::Backtrace::disabled)]
    fn canonical_packed_varint() {
        let (va, v0, v1) = (small(), small(), small());
        let (p0, p1) = (pad(), pad());
        let nb: u8 = kani::any();
        kani::assume(nb <= 2);
        let has_a: bool = kani::any();
        let a_pos: u8 = kani::any();
        kani::assume(a_pos <= 2);
        // how b is split into chunks: 0 = all unpacked, 1 = one packed chunk, 2 = packed [v0] then unpacked v1,
        // 3 = unpacked v0 then packed [v1]
        let split: u8 = kani::any();
        kani::assume(split <= 3);
        let mut ser = Vec::new();
        let put_a = |ser: &mut Vec<u8>| {
            ser.push(tag(1, VARINT));
            ser.push(va);
        };
        let packed = |ser: &mut Vec<u8>, vals: &[(u8, u8)]| {
            let mut inner = Vec::new();
            for (v, p) in vals {
                put_varint(&mut inner, *v, *p);
            }
            ser.push(tag(2, LEN));
            ser.push(inner.len() as u8);
            ser.extend_from_slice(&inner);
        };
        let unpacked = |ser: &mut Vec<u8>, v: u8, p: u8| {
            ser.push(tag(2, VARINT));
            put_varint(ser, v, p);
        };
        if has_a && a_pos == 0 {
            put_a(&mut ser);
        }
        match nb {
            0 => {
                if split == 1 {
                    packed(&mut ser, &[]);
                }
                if has_a && a_pos == 1 {
                    put_a(&mut ser);
                }
            }
            1 => {
                if split == 1 {
                    packed(&mut ser, &[(v0, p0)]);
                } else {
                    unpacked(&mut ser, v0, p0);
                }
                if has_a && a_pos == 1 {
                    put_a(&mut ser);
                }
            }
            _ => {
                if split == 1 {
                    packed(&mut ser, &[(v0, p0), (v1, p1)]);
                    if has_a && a_pos == 1 {
                        put_a(&mut ser);
                    }
                } else {
                    if split == 2 {
                        packed(&mut ser, &[(v0, p0)]);
                    } else {
                        unpacked(&mut ser, v0, p0);
                    }
                    if has_a && a_pos == 1 {
                        put_a(&mut ser);
                    }
                    if split == 3 {
                        packed(&mut ser, &[(v1, p1)]);
                    } else {
                        unpacked(&mut ser, v1, p1);
                    }
                }
            }
        }
        if has_a && a_pos == 2 {
            put_a(&mut ser);
        }
        let mut want = Vec::new();
        if has_a {
            want.push(tag(1, VARINT));
            want.push(va);
        }
        match nb {
            0 => {}
            1 => {
                want.push(tag(2, VARINT));
                want.push(v0);
            }
            _ => want.extend_from_slice(&[tag(2, LEN), 2, v0, v1]),
        }
        let got = canonical_raw(&ser, &MessageDescriptor(0));
        assert!(got.is_ok(), "C09: a valid serialisation is refused");
        let got = got.unwrap();
        assert!(vec_eq(&got, &want), "C09: alternative serialisation does not normalise to the canonical bytes");
        kani::cover!(nb == 2 && split == 3 && has_a && a_pos == 1, "reach: mixed packing interleaved with another field");
        std::mem::forget((got, want, ser));
    }

    /// Refusals: a singular field given twice (scalar, bytes, sub-message), an unknown field, the implicit-presence
    /// field, a scalar with the wrong wire type.
    #[kani::proof]
    #[kani::unwind(12)]
    #[kani::stub(std::backtrace::Backtrace::capture, std::backtrace::Backtrace::disabled)]
    fn canonical_refusals() {
        let (v0, v1) = (small(), small());
        let case: u8 = kani::any();
        kani::assume(case <= 6);
        let mut ser = Vec::new();
        match case {
            0 => ser.extend_from_slice(&[tag(1, VARINT), v0, tag(1, VARINT), v1]),
            1 => ser.extend_from_slice(&[tag(3, LEN), 1, v0, tag(3, LEN), 1, v1]),
            2 => ser.extend_from_slice(&[tag(4, LEN), 2, tag(1, VARINT), v0, tag(4, LEN), 2, tag(1, VARINT), v1]),
            3 => {
                let n: u8 = kani::any();
                kani::assume((8..=15).contains(&n));
                ser.extend_from_slice(&[tag(n, VARINT), v0]);
            }
            4 => ser.extend_from_slice(&[tag(7, VARINT), v0]),
            5 => ser.extend_from_slice(&[tag(1, I32), v0, v1, 0, 0]),
            // duplicated singular field inside a sub-message
            _ => ser.extend_from_slice(&[tag(4, LEN), 4, tag(1, VARINT), v0, tag(1, VARINT), v1]),
        }
        let got = canonical_raw(&ser, &MessageDescriptor(0));
        assert!(got.is_err(), "C09: a non-canonicalisable / ambiguous serialisation is accepted");
        kani::cover!(case == 6, "reach: nested duplicate");
        std::mem::forget((got, ser));
    }
}
