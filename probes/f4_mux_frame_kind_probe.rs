}

/// PROBE (not part of the repo): peer sends a frame header with the unassigned frame kind 0b11.
#[tokio::test]
#[should_panic(expected = "bad FrameKind")]
async fn probe_unassigned_frame_kind() {
    use zksync_concurrency::io;
    let ctx = &ctx::test_root(&ctx::RealClock);
    let cap: mux::CapabilityId = 0;
    let cfg = Arc::new(mux::Config {
        read_buffer_size: 1000,
        read_frame_size: 100,
        read_frame_count: 10,
        write_frame_size: 100,
    });
    scope::run!(ctx, |ctx, s| async {
        let (s1, mut s2) = noise::testonly::pipe(ctx).await;
        let mut m = mux::Mux { cfg: cfg.clone(), accept: BTreeMap::default(), connect: BTreeMap::default() };
        let q = mux::StreamQueue::new(ctx, 1, limiter::Rate::INF);
        m.accept.insert(cap, q.clone());
        s.spawn_bg(async { let _ = m.run(ctx, s1).await; Ok(()) });
        // attacker: a well-formed mux handshake announcing one connect stream for the capability ...
        let h = mux::Handshake {
            accept_max_streams: [].into(),
            connect_max_streams: [(cap, 1)].into(),
        };
        frame::send_proto(ctx, &mut s2, &h).await?;
        let _: mux::Handshake = frame::recv_proto(ctx, &mut s2, 10000).await?;
        // ... followed by a header whose frame-kind bits are 0b11 (stream kind CONNECT, id 0).
        let raw: u16 = 0b1110_0000_0000_0000;
        io::write_all(ctx, &mut s2, &raw.to_le_bytes()).await??;
        io::flush(ctx, &mut s2).await??;
        ctx.sleep(zksync_concurrency::time::Duration::seconds(2)).await?;
        anyhow::Ok(())
    })
    .await
    .unwrap();
}
