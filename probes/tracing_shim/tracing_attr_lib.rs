use proc_macro::TokenStream;
/// No-op replacement for `tracing::instrument`: logging is not the subject of the check.
#[proc_macro_attribute]
pub fn instrument(_attr: TokenStream, item: TokenStream) -> TokenStream { item }
