#![allow(dead_code, unused)]
// Real source under test.
#[path = "/repo/node/libs/concurrency/src/limiter/mod.rs"]
pub mod limiter;

// ---- environment model (shims for crate::{ctx, sync, time}) ----
pub mod time {
    pub type Duration = ::time::Duration;
    #[derive(Clone, Copy, Debug, PartialEq, Eq, PartialOrd, Ord)]
    pub struct Instant(pub i128); // nanoseconds since an arbitrary origin
    impl Instant {
        pub fn checked_add(self, d: Duration) -> Option<Self> {
            let n = self.0.checked_add(d.whole_nanoseconds())?;
            if n > (u64::MAX as i128) * 4 { return None; } // clock range model
            Some(Instant(n))
        }
    }
    impl std::ops::Sub for Instant {
        type Output = Duration;
        fn sub(self, b: Self) -> Duration {
            let d = self.0 - b.0;
            Duration::new((d / 1_000_000_000) as i64, (d % 1_000_000_000) as i32)
        }
    }
    #[derive(Clone, Copy, Debug, PartialEq, Eq, PartialOrd, Ord)]
    pub enum Deadline { Finite(Instant), Infinite }
}

pub mod ctx {
    use super::time;
    use std::cell::Cell;
    #[derive(Debug, PartialEq, Eq)]
    pub struct Canceled;
    pub type OrCanceled<T> = Result<T, Canceled>;
    pub struct Ctx { pub clock: Cell<i128>, pub cancel_sleep: Cell<bool>, pub slack: Cell<i128> }
    impl Ctx {
        pub fn now(&self) -> time::Instant { time::Instant(self.clock.get()) }
        pub async fn canceled(&self) { std::future::pending::<()>().await }
        /// Model: either the wait is cancelled (clock may have advanced arbitrarily),
        /// or it returns at an arbitrary instant >= max(now, deadline).
        pub async fn sleep_until_deadline(&self, d: time::Deadline) -> OrCanceled<()> {
            if self.cancel_sleep.get() { return Err(Canceled); }
            match d {
                time::Deadline::Infinite => Err(Canceled),
                time::Deadline::Finite(t) => {
                    let now = self.clock.get();
                    let base = if t.0 > now { t.0 } else { now };
                    self.clock.set(base + self.slack.get());
                    Ok(())
                }
            }
        }
    }
}

pub mod sync {
    use super::ctx;
    use std::cell::{RefCell, Ref};
    use std::rc::Rc;
    pub mod watch {
        use std::cell::{RefCell, Ref};
        use std::rc::Rc;
        pub struct Sender<T>(pub Rc<RefCell<T>>);
        pub struct Receiver<T>(pub Rc<RefCell<T>>);
        pub fn channel<T>(v: T) -> (Sender<T>, Receiver<T>) {
            let rc = Rc::new(RefCell::new(v));
            (Sender(rc.clone()), Receiver(rc))
        }
        impl<T> Sender<T> {
            pub fn send_modify(&self, f: impl FnOnce(&mut T)) { f(&mut self.0.borrow_mut()) }
            pub fn send_if_modified(&self, f: impl FnOnce(&mut T) -> bool) -> bool { f(&mut self.0.borrow_mut()) }
        }
    }
    pub struct Mutex<T>(RefCell<T>);
    impl<T> Mutex<T> { pub fn new(v: T) -> Self { Self(RefCell::new(v)) } }
    pub struct Guard<'a, T>(std::cell::RefMut<'a, T>);
    impl<'a, T> Guard<'a, T> { pub fn into_async(self) -> Self { self } }
    impl<T> std::ops::Deref for Guard<'_, T> { type Target = T; fn deref(&self) -> &T { &self.0 } }
    impl<T> std::ops::DerefMut for Guard<'_, T> { fn deref_mut(&mut self) -> &mut T { &mut self.0 } }
    pub async fn lock<'a, T>(_ctx: &ctx::Ctx, m: &'a Mutex<T>) -> ctx::OrCanceled<Guard<'a, T>> {
        Ok(Guard(m.0.borrow_mut()))
    }
    /// Sequential model: if the predicate does not hold now nobody can make it hold, so the wait is cancelled.
    pub async fn wait_for<'a, T>(_ctx: &ctx::Ctx, recv: &'a mut watch::Receiver<T>, pred: impl Fn(&T) -> bool) -> ctx::OrCanceled<Ref<'a, T>> {
        let r = recv.0.borrow();
        if pred(&r) { Ok(r) } else { Err(ctx::Canceled) }
    }
}

#[cfg(kani)]
mod proofs {
    use super::*;
    use std::future::Future;
    use std::pin::pin;
    use std::task::{Context, Poll, RawWaker, RawWakerVTable, Waker};
    fn block_on<F: Future>(f: F) -> F::Output {
        fn noop(_: *const ()) {}
        fn clone(_: *const ()) -> RawWaker { RawWaker::new(std::ptr::null(), &VT) }
        static VT: RawWakerVTable = RawWakerVTable::new(clone, noop, noop, noop);
        let w = unsafe { Waker::from_raw(RawWaker::new(std::ptr::null(), &VT)) };
        let mut cx = Context::from_waker(&w);
        let mut f = pin!(f);
        match f.as_mut().poll(&mut cx) { Poll::Ready(v) => v, Poll::Pending => { kani::assume(false); unreachable!() } }
    }

    // burst b, refresh r: k acquires of 1 permit each, each dropped immediately; count grants inside [t0, t0+T].
    #[kani::proof]
    #[kani::unwind(3)]
    fn window_bound() {
        const R: i64 = 7; // refresh period in ns
        let burst: usize = kani::any();
        kani::assume(burst >= 1 && burst <= 3);
        let c = ctx::Ctx { clock: std::cell::Cell::new(0), cancel_sleep: std::cell::Cell::new(false), slack: std::cell::Cell::new(0) };
        let start: i128 = kani::any(); kani::assume(start >= 0 && start < 1000);
        c.clock.set(start);
        let l = limiter::Limiter::new(&c, limiter::Rate { burst, refresh: time::Duration::new(0, R as i32) });
        let mut grants: [i128; 5] = [0; 5];
        let mut n = 0usize;
        let mut i = 0;
        while i < 2 {
            // environment: arbitrary time passes
            let adv: i128 = kani::any(); kani::assume(adv >= 0 && adv < 50);
            c.clock.set(c.clock.get() + adv);
            let slack: i128 = kani::any(); kani::assume(slack >= 0 && slack < 20);
            c.slack.set(slack);
            match block_on(l.acquire(&c, 1)) {
                Ok(p) => { grants[n] = c.clock.get(); n += 1; drop(p); }
                Err(_) => {}
            }
            i += 1;
        }
        // window bound: any j grants within span T satisfy j <= burst + T/R + 1
        if n >= 2 {
            let span = grants[n-1] - grants[0];
            assert!((n as i128) <= burst as i128 + span / (R as i128) + 1);
        }
    }
}
