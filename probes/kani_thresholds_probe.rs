// Cargo.toml: zksync_consensus_roles = { path = "/repo/node/libs/roles" }, empty [workspace], copy of /repo/node/Cargo.lock
// CARGO_NET_OFFLINE=true cargo kani --harness thresholds   -> build 45 s, verification 84 s, 16/16 checks
#[cfg(kani)]
mod proofs {
    use zksync_consensus_roles::validator::{max_faulty_weight, quorum_threshold, subquorum_threshold};

    #[kani::proof]
    fn thresholds() {
        let n: u64 = kani::any();
        kani::assume(n >= 1);
        let f = max_faulty_weight(n);
        let q = quorum_threshold(n);
        let s = subquorum_threshold(n);
        assert!(5 * (f as u128) + 1 <= n as u128);
        assert!(q == n - f);
        assert!(s == n - 3 * f);
        assert!(2 * (f as u128) < s as u128);
    }
}
