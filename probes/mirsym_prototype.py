#!/usr/bin/env python3
"""Prototype: symbolic executor for rustc MIR text dumps (feasibility probe)."""
import re, sys, itertools
import z3

# ---------------------------------------------------------------- parsing
class Fn:
    def __init__(self, name, sig):
        self.name = name; self.sig = sig
        self.nargs = 0
        self.arg_types = []
        self.local_types = {}
        self.blocks = {}

def split_top(s, sep=','):
    """split on sep at nesting depth 0 of ()[]{}<> (ignoring -> and => arrows)."""
    out = []; depth = 0; cur = []
    i = 0
    while i < len(s):
        c = s[i]
        if c in '([{': depth += 1
        elif c in ')]}': depth -= 1
        elif c == '<': depth += 1
        elif c == '>':
            if i > 0 and s[i-1] in '-=': pass
            else: depth -= 1
        elif c == '"':
            j = i + 1
            while s[j] != '"' or s[j-1] == '\\': j += 1
            cur.append(s[i:j+1]); i = j + 1; continue
        if c == sep and depth == 0:
            out.append(''.join(cur).strip()); cur = []
        else:
            cur.append(c)
        i += 1
    t = ''.join(cur).strip()
    if t: out.append(t)
    return out

def parse_mir(text):
    fns = {}
    cur = None; bb = None
    for line in text.split('\n'):
        if line.startswith('fn '):
            m = re.match(r'fn (.*?)\((.*)\) -> (.*) \{$', line)
            if not m:
                cur = None; continue
            name = m.group(1)
            cur = Fn(name, line)
            args = split_top(m.group(2))
            cur.nargs = len(args)
            cur.arg_types = [a.split(': ', 1)[1] for a in args]
            cur.ret_type = m.group(3)
            fns.setdefault(name, []).append(cur)
            bb = None
            continue
        if cur is None: continue
        if line == '}':
            cur = None; continue
        s = line.strip()
        m = re.match(r'let (mut )?(_\d+): (.*);$', s)
        if m and bb is None:
            cur.local_types[m.group(2)] = m.group(3); continue
        m = re.match(r'(bb\d+)( \(cleanup\))?: \{$', s)
        if m:
            bb = m.group(1); cur.blocks[bb] = []; continue
        if s == '}' :
            if bb is not None and line.startswith('    }'): bb = None
            continue
        if bb is not None and s:
            cur.blocks[bb].append(s)
    return fns

# ---------------------------------------------------------------- values
class Panic(Exception):
    def __init__(self, msg): self.msg = msg
class Unmodelled(Exception): pass
class Infeasible(Exception): pass

class Cell:
    """mutable storage location"""
    def __init__(self, v=None): self.v = v

class Ref:
    def __init__(self, cell, path=()): self.cell = cell; self.path = tuple(path)
    def get(self):
        v = self.cell.v
        for p in self.path: v = proj_get(v, p)
        return v
    def set(self, nv):
        if not self.path: self.cell.v = nv; return
        self.cell.v = proj_set(self.cell.v, self.path, nv)

class Struct:
    def __init__(self, ty, fields): self.ty = ty; self.fields = list(fields)
    def __repr__(self): return f'{self.ty}{self.fields}'
class Enum:
    def __init__(self, ty, variant, fields=()): self.ty = ty; self.variant = variant; self.fields = list(fields)
    def __repr__(self): return f'{self.ty}::{self.variant}{self.fields}'
class VecV:
    def __init__(self, items): self.items = list(items)
class SliceIter:
    def __init__(self, items): self.items = items; self.pos = 0
class Opaque:
    def __init__(self, tag): self.tag = tag
    def __repr__(self): return f'Opaque({self.tag})'
class Uninit: pass

def proj_get(v, p):
    kind, arg = p
    if kind == 'field':
        if isinstance(v, (Struct, Enum)): return v.fields[arg]
        if isinstance(v, tuple): return v[arg]
        raise Unmodelled(f'field {arg} of {v!r}')
    if kind == 'downcast':
        assert isinstance(v, Enum) and v.variant == arg, (v, arg)
        return v
    if kind == 'deref':
        assert isinstance(v, Ref), v
        return v.get()
    raise Unmodelled(p)

def proj_set(v, path, nv):
    if not path: return nv
    (kind, arg), rest = path[0], path[1:]
    if kind == 'deref':
        assert isinstance(v, Ref)
        if rest: v.set(proj_set(v.get(), rest, nv))
        else: v.set(nv)
        return v
    if kind == 'field':
        if isinstance(v, tuple):
            l = list(v); l[arg] = proj_set(l[arg], rest, nv); return tuple(l)
        if isinstance(v, Uninit): raise Unmodelled('field of uninit')
        v.fields[arg] = proj_set(v.fields[arg], rest, nv); return v
    if kind == 'downcast':
        return proj_set(v, rest, nv)
    raise Unmodelled(path)

INT_TYPES = {'u8':(8,False),'u16':(16,False),'u32':(32,False),'u64':(64,False),'u128':(128,False),'usize':(64,False),
             'i8':(8,True),'i16':(16,True),'i32':(32,True),'i64':(64,True),'i128':(128,True),'isize':(64,True)}

class BV:
    def __init__(self, e, signed=False): self.e = e; self.signed = signed
    @property
    def width(self): return self.e.size()
    def __repr__(self): return f'BV({z3.simplify(self.e)})'

# ---------------------------------------------------------------- executor
class Exec:
    def __init__(self, fns, models):
        self.fns = fns; self.models = models
        self.solver = z3.Solver()
        self.decisions = []; self.dpos = 0
        self.pc = []
        self.pending = []
        self.unroll = 0
        self.stats = dict(paths=0, queries=0)

    # branch on symbolic bool; returns python bool; schedules the alternative
    def branch(self, cond):
        cond = z3.simplify(cond)
        if z3.is_true(cond): return True
        if z3.is_false(cond): return False
        if self.dpos < len(self.decisions):
            d = self.decisions[self.dpos]; self.dpos += 1
            self.pc.append(cond if d else z3.Not(cond)); return d
        can_t = self.check(cond); can_f = self.check(z3.Not(cond))
        if can_t and can_f:
            self.pending.append(self.decisions[:self.dpos] + [False])
            d = True
        elif can_t: d = True
        elif can_f: d = False
        else: raise Infeasible()
        self.decisions.append(d); self.dpos += 1
        self.pc.append(cond if d else z3.Not(cond))
        return d

    def check(self, extra):
        self.stats['queries'] += 1
        self.solver.push(); self.solver.add(*self.pc); self.solver.add(extra)
        r = self.solver.check(); self.solver.pop()
        if r == z3.unknown: raise Unmodelled('solver unknown')
        return r == z3.sat

    def find_fn(self, name):
        c = self.fns.get(name)
        if c and len(c) == 1: return c[0]
        # inherent method: mod::Type::method  ->  mod::<impl at ..>::method
        parts = re.sub(r'::<[^>]*>', '', name).split('::')
        if len(parts) >= 2:
            method, ty = parts[-1], parts[-2]
            mod = '::'.join(parts[:-2])
            cands = []
            for n, fl in self.fns.items():
                m = re.fullmatch(re.escape(mod + '::' if mod else '') + r'<impl at [^>]*>::' + re.escape(method), n)
                if m:
                    for f in fl:
                        if f.arg_types and re.search(r'\b' + re.escape(ty) + r'\b', f.arg_types[0]): cands.append(f)
            if len(cands) == 1: return cands[0]
        return None

    def call(self, name, args, depth=0):
        if name in self.models:
            return self.models[name](self, args)
        for pat, f in self.models.get('__regex__', []):
            if re.fullmatch(pat, name): return f(self, name, args)
        fn = self.find_fn(name)
        if fn is None: raise Unmodelled(f'call {name}')
        return self.run(fn, args, depth+1)

    def run(self, fn, args, depth=0):
        loc = {}
        for i, a in enumerate(args): loc[f'_{i+1}'] = Cell(a)
        def cell(n):
            if n not in loc: loc[n] = Cell(Uninit())
            return loc[n]
        def place(s):
            s = s.strip()
            if re.fullmatch(r'_\d+', s): return Ref(cell(s))
            assert s[0] == '(' and s[-1] == ')', s
            inner = s[1:-1]
            if inner.startswith('*'):
                r = place(inner[1:])
                v = r.get()
                assert isinstance(v, Ref), (s, v)
                return v
            # P.I: TYPE   or  P as Variant
            # find the base place: either _N or balanced (...)
            if inner[0] == '(':
                d = 0
                for i, c in enumerate(inner):
                    if c == '(': d += 1
                    elif c == ')':
                        d -= 1
                        if d == 0: break
                base, rest = inner[:i+1], inner[i+1:]
            else:
                m = re.match(r'_\d+', inner); base, rest = m.group(0), inner[m.end():]
            r = place(base)
            if rest.startswith(' as '):
                return Ref(r.cell, r.path + (('downcast', rest[4:].strip()),))
            m = re.match(r'\.(\d+): ', rest)
            assert m, s
            return Ref(r.cell, r.path + (('field', int(m.group(1))),))
        def operand(s):
            s = s.strip()
            if s.startswith('no_retag '): s = s[9:]
            if s.startswith('copy ') : return place(s[5:]).get()
            if s.startswith('move '): return place(s[5:]).get()
            if s.startswith('const '): return const(s[6:])
            raise Unmodelled(f'operand {s}')
        def const(s):
            m = re.fullmatch(r'(-?\d+)_(\w+)', s)
            if m and m.group(2) in INT_TYPES:
                w, sg = INT_TYPES[m.group(2)]
                return BV(z3.BitVecVal(int(m.group(1)), w), sg)
            if s == 'true': return z3.BoolVal(True)
            if s == 'false': return z3.BoolVal(False)
            if s.startswith('"'): return Opaque(s)
            if s.startswith('ZeroSized: '): return Opaque(s)
            raise Unmodelled(f'const {s}')
        def binop(op, a, b):
            if isinstance(a, BV):
                x, y, sg = a.e, b.e, a.signed
                if op in ('Add','Sub','Mul'):
                    return BV({'Add':x+y,'Sub':x-y,'Mul':x*y}[op], sg)
                if op.endswith('WithOverflow'):
                    o = op[:3]
                    w = x.size()
                    if sg: raise Unmodelled('signed overflow op')
                    xe, ye = z3.ZeroExt(w, x), z3.ZeroExt(w, y)
                    full = {'Add':xe+ye,'Sub':xe-ye,'Mul':xe*ye}[o]
                    res = z3.Extract(w-1, 0, full)
                    ovf = z3.Extract(2*w-1, w, full) != 0
                    return (BV(res, sg), ovf)
                if op == 'Div': return BV(z3.UDiv(x,y) if not sg else x/y, sg)
                if op == 'Rem': return BV(z3.URem(x,y) if not sg else z3.SRem(x,y), sg)
                if op == 'Eq': return x == y
                if op == 'Ne': return x != y
                if op == 'Lt': return z3.ULT(x,y) if not sg else x < y
                if op == 'Le': return z3.ULE(x,y) if not sg else x <= y
                if op == 'Gt': return z3.UGT(x,y) if not sg else x > y
                if op == 'Ge': return z3.UGE(x,y) if not sg else x >= y
                if op == 'BitAnd': return BV(x & y, sg)
                if op == 'BitOr': return BV(x | y, sg)
            if z3.is_bool(a):
                if op == 'Eq': return a == b
                if op == 'Ne': return a != b
                if op == 'BitAnd': return z3.And(a,b)
                if op == 'BitOr': return z3.Or(a,b)
            raise Unmodelled(f'binop {op} {a} {b}')
        def rvalue(s, dest_ty=None):
            s = s.strip()
            if s.startswith(('copy ','move ','const ','no_retag ')) and not re.search(r' as .* \((IntToInt|PointerCoercion.*)\)$', s): return operand(s)
            if s.startswith('&mut '): return place(s[5:])
            if s.startswith('&'): return place(s[1:])
            m = re.fullmatch(r'discriminant\((.*)\)', s)
            if m:
                v = place(m.group(1)).get()
                assert isinstance(v, Enum), v
                return ('discr', v)
            m = re.fullmatch(r'(\w+)\((.*)\)', s)
            if m and m.group(1) in ('Add','Sub','Mul','Div','Rem','Eq','Ne','Lt','Le','Gt','Ge','BitAnd','BitOr','AddWithOverflow','SubWithOverflow','MulWithOverflow'):
                a, b = split_top(m.group(2))
                return binop(m.group(1), operand(a), operand(b))
            if m and m.group(1) == 'Not':
                v = operand(m.group(2))
                return z3.Not(v) if z3.is_bool(v) else BV(~v.e, v.signed)
            m = re.fullmatch(r'(.*) as (\w+) \(IntToInt\)', s)
            if m:
                v = operand(m.group(1)); w, sg = INT_TYPES[m.group(2)]
                if v.width == w: return BV(v.e, sg)
                if v.width > w: return BV(z3.Extract(w-1,0,v.e), sg)
                return BV(z3.SignExt(w-v.width, v.e) if v.signed else z3.ZeroExt(w-v.width, v.e), sg)
            m = re.fullmatch(r'(.*) as (.*) \(PointerCoercion\(Unsize, \w+\)\)', s)
            if m: return operand(m.group(1))
            # enum variant / struct aggregates
            m = re.fullmatch(r'([\w:<>, &\'\[\]\(\)]+?)::(\w+)(\((.*)\))?', s)
            if m and '{' not in s:
                ty, var = m.group(1), m.group(2)
                fields = [operand(x) for x in split_top(m.group(4))] if m.group(4) else []
                return Enum(re.sub(r'::<.*>$', '', ty), var, fields)
            raise Unmodelled(f'rvalue {s}')

        bb = 'bb0'; steps = 0
        while True:
            steps += 1
            if steps > 2000: raise Unmodelled('step budget (unwinding bound) exceeded')
            stmts = fn.blocks[bb]
            nxt = None
            for st in stmts:
                st = st.rstrip(';')
                if st == 'return':
                    return cell('_0').v
                if st == 'unreachable': raise Unmodelled('reached MIR unreachable')
                m = re.fullmatch(r'goto -> (bb\d+)', st)
                if m: nxt = m.group(1); break
                m = re.fullmatch(r'switchInt\((.*)\) -> \[(.*)\]', st)
                if m:
                    v = operand(m.group(1))
                    arms = [a.split(': ') for a in split_top(m.group(2))]
                    if isinstance(v, tuple) and v[0] == 'discr':
                        en = v[1]
                        idx = variant_index(en)
                        tgt = dict(arms).get(str(idx), dict(arms).get('otherwise'))
                        nxt = tgt; break
                    if z3.is_bool(v):
                        d = self.branch(v)
                        tgt = dict(arms)
                        nxt = tgt.get('1' if d else '0', tgt.get('otherwise')); break
                    # integer switch
                    for val, t in arms:
                        if val == 'otherwise': nxt = t; break
                        if self.branch(v.e == int(val)): nxt = t; break
                    break
                m = re.fullmatch(r'assert\((!?)(.*?), (".*?")(, .*)?\) -> \[success: (bb\d+), unwind .*\]', st)
                if m:
                    c = operand(m.group(2))
                    if m.group(1): c = z3.Not(c)
                    if not self.branch(c): raise Panic(m.group(3))
                    nxt = m.group(5); break
                m = re.fullmatch(r'drop\((.*)\) -> \[return: (bb\d+), unwind .*\]', st)
                if m: nxt = m.group(2); break
                m = re.fullmatch(r'(.*?) = (.*)\((.*)\) -> \[return: (bb\d+), unwind .*\]', st)
                if m and not m.group(2).startswith(('copy','move','const')):
                    dest, callee, argstr, ret = m.groups()
                    args2 = [operand(a) for a in split_top(argstr)]
                    r = self.call(callee.strip(), args2, depth)
                    place(dest).set(r); nxt = ret; break
                m = re.fullmatch(r'(.*?) = (.*)\((.*)\) -> unwind .*', st)
                if m:  # diverging call
                    callee = m.group(2)
                    if callee == 'panic': raise Panic(m.group(3))
                    raise Unmodelled(st)
                m = re.fullmatch(r'(\S.*?) = (.*)', st)
                if m:
                    place(m.group(1)).set(rvalue(m.group(2))); continue
                raise Unmodelled(f'stmt {st}')
            assert nxt, (bb, stmts)
            bb = nxt

VARIANTS = {'Option': ['None','Some'], 'Result': ['Ok','Err'], 'std::option::Option': ['None','Some'],
            'schedule::LeaderSelectionMode': ['RoundRobin','Weighted'], 'LeaderSelectionMode': ['RoundRobin','Weighted']}
def variant_index(en):
    ty = re.sub(r'<.*', '', en.ty).rstrip(':')
    for k, v in VARIANTS.items():
        if ty.endswith(k): return v.index(en.variant)
    raise Unmodelled(f'variants of {en.ty}')

# ---------------------------------------------------------------- std models
def some(v): return Enum('Option', 'Some', [v])
NONE = lambda: Enum('Option', 'None', [])

def m_vec_len(ex, a): return BV(z3.BitVecVal(len(a[0].get().items), 64))
def m_vec_index(ex, a):
    items = a[0].get().items; i = a[1]
    if not ex.branch(z3.ULT(i.e, len(items))): raise Panic('index out of bounds')
    for k in range(len(items)):
        if ex.branch(i.e == k): return Ref(Cell(items[k]))
    raise Infeasible()
def m_deref_vec(ex, a): return a[0]
def m_slice_get(ex, a):
    items = a[0].get().items; i = a[1]
    if not ex.branch(z3.ULT(i.e, len(items))): return NONE()
    for k in range(len(items)):
        if ex.branch(i.e == k): return some(Ref(Cell(items[k])))
    raise Infeasible()
def m_slice_iter(ex, a): return SliceIter(a[0].get().items)
def m_identity(ex, a): return a[0]
def m_iter_next(ex, a):
    it = a[0].get()
    if it.pos >= len(it.items): return NONE()
    v = it.items[it.pos]; it.pos += 1
    return some(Ref(Cell(v)))
def m_unwrap(ex, a):
    if a[0].variant == 'None': raise Panic('unwrap on None')
    return a[0].fields[0]
def m_clone(ex, a): return a[0].get()

def m_weighted_elig(ex, a):
    # model: keccak = uninterpreted bv64 -> bv256 ; BigUint rem ; to_u64_digits()[0] panics when result == 0
    turn, w = a
    # keccak is abstracted as an arbitrary 256-bit value, hence (hash mod w) is an arbitrary value in [0,w)
    # that is a function of (turn, w): uninterpreted R with the axiom R(turn,w) < w. No division needed.
    if not ex.branch(w.e != 0): raise Panic('BigUint rem: divide by zero')
    R = z3.Function('keccak_mod', z3.BitVecSort(64), z3.BitVecSort(64), z3.BitVecSort(64))
    r = R(turn.e, w.e)
    ex.pc.append(z3.ULT(r, w.e))
    if not ex.branch(r != 0): raise Panic('index out of bounds: to_u64_digits() of zero is empty')
    return BV(r)

MODELS = {
    'Vec::<usize>::len': m_vec_len,
    '<Vec<usize> as Index<usize>>::index': m_vec_index,
    '<Vec<schedule::ValidatorInfo> as Deref>::deref': m_deref_vec,
    '<Vec<usize> as Deref>::deref': m_deref_vec,
    'core::slice::<impl [schedule::ValidatorInfo]>::get::<usize>': m_slice_get,
    'core::slice::<impl [usize]>::iter': m_slice_iter,
    "<std::slice::Iter<'_, usize> as IntoIterator>::into_iter": m_identity,
    "<std::slice::Iter<'_, usize> as Iterator>::next": m_iter_next,
    'Option::<&schedule::ValidatorInfo>::unwrap': m_unwrap,
    '<public_key::PublicKey as Clone>::clone': m_clone,
}

# ---------------------------------------------------------------- harness: C11 view_leader
def explore(fns, models, body):
    ex = Exec(fns, models)
    work = [[]]; results = []
    while work:
        ex.decisions = work.pop(); ex.dpos = 0; ex.pc = []; ex.pending = []
        try:
            out = ('ok', body(ex))
        except Panic as p: out = ('panic', p.msg)
        except Infeasible: out = None
        work.extend(ex.pending)
        if out is not None:
            ex.stats['paths'] += 1
            results.append((out, list(ex.pc)))
    return ex, results

def main():
    fns = parse_mir(open(sys.argv[1]).read())
    VL = [n for n in fns if n.endswith('::view_leader')][0]
    PFX = VL[:-len('view_leader')]
    N = int(sys.argv[2]) if len(sys.argv) > 2 else 3
    import time; t0 = time.time()
    total = dict(paths=0, queries=0, panics=[])
    for mode in ('RoundRobin', 'Weighted'):
        local_models = dict(MODELS)
        local_models[PFX.replace('23:1: 23:14', '235:1: 235:21') + 'leader_weighted_eligibility'] = None
        for name in fns:
            if name.endswith('::leader_weighted_eligibility'): local_models[name] = m_weighted_elig
        local_models = {k: v for k, v in local_models.items() if v}
        local_models['schedule::LeaderSelection::leader_weighted_eligibility'] = m_weighted_elig
        for flags in itertools.product([False, True], repeat=N):
            if not any(flags): continue
            def body(ex, flags=flags, mode=mode):
                ws = [z3.BitVec(f'w{i}', 64) for i in range(N)]
                for w in ws: ex.pc.append(w != 0)
                # no overflow of total weight (established by Schedule::new)
                tot = sum((z3.ZeroExt(64, w) for w in ws), z3.BitVecVal(0, 128))
                ex.pc.append(z3.ULT(tot, z3.BitVecVal(1 << 64, 128)))
                vec = VecV([Struct('ValidatorInfo', [Opaque(f'key{i}'), BV(ws[i]), z3.BoolVal(flags[i])]) for i in range(N)])
                leaders = VecV([BV(z3.BitVecVal(i, 64)) for i in range(N) if flags[i]])
                lw = sum((ws[i] for i in range(N) if flags[i]), z3.BitVecVal(0, 64))
                freq = z3.BitVec('freq', 64)
                sel = Struct('LeaderSelection', [BV(freq), Enum('schedule::LeaderSelectionMode', mode)])
                sched = Struct('Schedule', [vec, Opaque('indexes'), BV(z3.Extract(63, 0, tot)), leaders, sel, BV(lw)])
                view = Struct('ViewNumber', [BV(z3.BitVec('view', 64))])
                r = ex.call(VL, [Ref(Cell(sched)), view])
                assert isinstance(r, Opaque)
                idx = int(r.tag[3:])
                return ('leader', idx, flags[idx])
            ex, results = explore(fns, local_models, body)
            total['paths'] += ex.stats['paths']; total['queries'] += ex.stats['queries']
            for (kind, val), pc in results:
                if kind == 'panic':
                    s = z3.Solver(); s.add(*pc); assert s.check() == z3.sat
                    mdl = s.model()
                    total['panics'].append((mode, flags, val, {str(d): mdl[d] for d in mdl.decls() if d.arity() == 0}))
                else:
                    assert val[2], ('non-eligible leader', mode, flags, val)
    print('paths', total['paths'], 'queries', total['queries'], 'time %.1fs' % (time.time() - t0))
    seen = set()
    for p in total['panics']:
        k = (p[0], p[2])
        if k in seen: continue
        seen.add(k); print('PANIC', p)

if __name__ == '__main__':
    main()
