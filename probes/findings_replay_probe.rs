use zksync_consensus_roles::validator::{self, v2, LeaderSelection, LeaderSelectionMode, Schedule, ValidatorInfo, ViewNumber};
use zksync_protobuf::ProtoFmt;

fn sched(freq: u64, mode: LeaderSelectionMode, w: u64) -> Schedule {
    let k = validator::SecretKey::generate().public();
    Schedule::new([ValidatorInfo { key: k, weight: w, leader: true }], LeaderSelection { frequency: freq, mode }).unwrap()
}

#[test]
#[should_panic(expected = "divide by zero")]
fn f1_frequency_zero() { sched(0, LeaderSelectionMode::RoundRobin, 7).view_leader(ViewNumber(3)); }

#[test]
#[should_panic(expected = "index out of bounds")]
fn f2_weighted_weight_one() { sched(1, LeaderSelectionMode::Weighted, 1).view_leader(ViewNumber(0)); }

#[test]
#[should_panic]
fn f3_timestamp_overflow() {
    let t = zksync_protobuf::proto::std::Timestamp { seconds: Some(i64::MAX), nanos: Some(1_000_000_000) };
    let _ = <zksync_concurrency::time::Utc as ProtoFmt>::read(&t);
}

#[test]
#[should_panic(expected = "unreachable")]
fn f5a_genesis_unknown_version() {
    let g = validator::GenesisRaw { chain_id: validator::ChainId(1), fork_number: validator::ForkNumber(0), protocol_version: validator::ProtocolVersion(2), first_block: validator::BlockNumber(0), validators_schedule: None };
    let mut p = g.build();
    p.protocol_version = Some(3);
    let _ = validator::GenesisRaw::read(&p);
}

#[test]
#[should_panic(expected = "overflow")]
fn f5b_view_overflow() {
    let view = v2::View { genesis: Default::default(), epoch: validator::EpochNumber(0), number: ViewNumber(u64::MAX) };
    let j = v2::ProposalJustification::Timeout(v2::TimeoutQC::new(view));
    let _ = j.view();
}
