#[cfg(kani)]
mod proofs {
    use zksync_protobuf::{ProtoFmt, proto::std as pstd};
    use zksync_concurrency::time;

    #[kani::proof]
    #[kani::stub(std::backtrace::Backtrace::capture, std::backtrace::Backtrace::disabled)]
    fn utc_read_total() {
        let t = pstd::Timestamp { seconds: Some(kani::any()), nanos: Some(kani::any()) };
        let r = <time::Utc as ProtoFmt>::read(&t);
        std::mem::forget(r);
    }

    #[kani::proof]
    #[kani::stub(std::backtrace::Backtrace::capture, std::backtrace::Backtrace::disabled)]
    fn duration_roundtrip() {
        let s: i64 = kani::any();
        let n: i32 = kani::any();
        kani::assume(n > -1_000_000_000 && n < 1_000_000_000);
        kani::assume((s >= 0 && n >= 0) || (s <= 0 && n <= 0));
        let d = time::Duration::new(s, n);
        let p = d.build();
        let d2 = <time::Duration as ProtoFmt>::read(&p).unwrap();
        assert!(d == d2);
    }
}
