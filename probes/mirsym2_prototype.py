#!/usr/bin/env python3
"""Feasibility prototype #2: symbolic executor over mirdump JSON (rustc_public MIR).

Design-phase probe only. Exercises: JSON front end, ADT/closure/coroutine aggregates, native container
models (Vec, slice iter + adaptors, BTreeMap, HashMap, BitVec), and coroutine (async fn) execution.
Usage: python3-vt mirsym2_prototype.py /tmp/mirdump/out <experiment>
"""
import json, sys, re, itertools, time, glob
import z3

# ------------------------------------------------------------------ program database
class DB:
    def __init__(self, prefix):
        self.fns = {}; self.tys = {}; self.crate_of = {}
        for path in glob.glob(prefix + '.zksync_*.jsonl'):
            crate = path.split('.')[-2]
            # NOTE: Ty ids are per-compilation-session, hence per crate: key them by crate.
            for line in open(path):
                d = json.loads(line)
                if d['rec'] == 'fn':
                    d['crate'] = crate
                    self.fns.setdefault(d['name'], []).append(d)
                elif d['rec'] == 'ty':
                    self.tys[(crate, d['ty']['id'])] = d['ty']
    def ty(self, crate, tid): return self.tys.get((crate, tid))
    def find(self, name, pred=None):
        c = self.fns.get(name, [])
        if not c and '::' in name:
            # probe-only fallback for re-exported paths: unique match on the last two path segments
            tail = '::'.join(re.sub(r'::<.*?>', '', name).split('::')[-2:])
            if not hasattr(self, '_tails'):
                self._tails = {}
                for n, l in self.fns.items():
                    self._tails.setdefault('::'.join(re.sub(r'::<.*?>', '', n).split('::')[-2:]), []).append(n)
            m = self._tails.get(tail, [])
            if len(m) == 1: c = self.fns[m[0]]
        if pred: c = [f for f in c if pred(f)]
        return c[0] if len(c) >= 1 else None

# ------------------------------------------------------------------ values
class Panic(Exception): pass
class Unmodelled(Exception): pass
class Infeasible(Exception): pass

class Cell:
    __slots__ = ('v',)
    def __init__(self, v=None): self.v = v
class Uninit:
    def __repr__(self): return 'Uninit'
class BV:
    __slots__ = ('e', 'signed')
    def __init__(self, e, signed=False): self.e = e; self.signed = signed
    def __repr__(self): return f'BV({z3.simplify(self.e)})'
def bvv(v, bits=64, signed=False): return BV(z3.BitVecVal(v, bits), signed)
class Agg:            # struct / tuple / enum variant / closure env / coroutine state
    def __init__(self, kind, name, variant, fields):
        self.kind = kind; self.name = name; self.variant = variant; self.fields = list(fields); self.vfields = {}
    def __repr__(self): return f'{self.name}#{self.variant}{self.fields}'
class Ref:
    def __init__(self, cell, path=()): self.cell = cell; self.path = tuple(path)
    def get(self):
        v = self.cell.v
        for p in self.path: v = proj_get(v, p)
        return v
    def set(self, nv): self.cell.v = proj_set(self.cell.v, self.path, nv)
class Opaque:
    def __init__(self, tag): self.tag = tag
    def __repr__(self): return f'Opaque({self.tag})'
class FnVal:
    def __init__(self, name, info): self.name = name; self.info = info
UNIT = Agg('tuple', '()', 0, [])

def proj_get(v, p):
    k, a = p
    if k == 'field':
        if isinstance(v, Agg):
            if v.kind == 'coroutine' and getattr(v, 'cur_variant', None) is not None:
                return v.vfields.get((v.cur_variant, a), Uninit())
            return v.fields[a]
        raise Unmodelled(f'field {a} of {v!r}')
    if k == 'downcast':
        if isinstance(v, Agg) and v.kind == 'coroutine':
            w = Agg('coroutine', v.name, v.variant, v.fields); w.vfields = v.vfields; w.cur_variant = a; w.state = v.state
            return w
        if not (isinstance(v, Agg) and v.variant == a): raise Unmodelled(f'downcast {a} of {v!r}')
        return v
    if k == 'deref':
        if isinstance(v, Ref): return v.get()
        raise Unmodelled(f'deref of {v!r}')
    raise Unmodelled(str(p))

def proj_set(v, path, nv):
    if not path: return nv
    (k, a), rest = path[0], path[1:]
    if k == 'deref':
        v.set(proj_set(v.get(), rest, nv) if rest else nv); return v
    if k == 'field':
        if isinstance(v, Agg) and v.kind == 'coroutine' and getattr(v, 'cur_variant', None) is not None:
            key = (v.cur_variant, a); v.vfields[key] = proj_set(v.vfields.get(key, Uninit()), rest, nv); return v
        if isinstance(v, Uninit): raise Unmodelled('field assignment into uninit aggregate')
        v.fields[a] = proj_set(v.fields[a], rest, nv); return v
    if k == 'downcast':
        if isinstance(v, Agg) and v.kind == 'coroutine':
            w = proj_get(v, (k, a)); proj_set(w, rest, nv); return v
        return proj_set(v, rest, nv)
    raise Unmodelled(str(path))

# native container values
class VecV:
    def __init__(self, items): self.items = list(items)
class IterV:                      # lazy iterator: python generator factory over (guardless) items
    def __init__(self, gen): self.gen = gen
class MapV:                       # association list; ordered=True for BTreeMap (kept sorted by harness-provided key order)
    def __init__(self, entries, ordered): self.entries = list(entries); self.ordered = ordered
class BitVecV:
    def __init__(self, bits): self.bits = list(bits)   # z3 Bools

# ------------------------------------------------------------------ executor
LAZY = True     # fork without feasibility queries; one satisfiability query per completed path

class Exec:
    def __init__(self, db, models):
        self.db = db; self.models = models
        self.solver = z3.Solver(); self.decisions = []; self.dpos = 0; self.pc = []; self.pending = []
        self.stats = dict(paths=0, queries=0, calls=0)
        self.trace = []
    def check(self, extra):
        self.stats['queries'] += 1
        r = self.solver.check(extra)          # incremental: path constraints are already asserted
        if r == z3.unknown: raise Unmodelled('solver unknown')
        return r == z3.sat
    def add_pc(self, c):
        self.pc.append(c); self.solver.add(c)
    def branch(self, cond):
        if isinstance(cond, bool): return cond
        cond = z3.simplify(cond)
        if z3.is_true(cond): return True
        if z3.is_false(cond): return False
        if self.dpos < len(self.decisions):
            d = self.decisions[self.dpos]; self.dpos += 1; self.add_pc(cond if d else z3.Not(cond)); return d
        if LAZY: t = f = True
        else: t = self.check(cond); f = self.check(z3.Not(cond))
        if t and f: self.pending.append(self.decisions[:self.dpos] + [False]); d = True
        elif t: d = True
        elif f: d = False
        else: raise Infeasible()
        self.decisions.append(d); self.dpos += 1; self.add_pc(cond if d else z3.Not(cond)); return d
    def assume(self, c): self.add_pc(c)

    # ---- calls
    def call_named(self, name, args, info=None):
        self.stats['calls'] += 1
        m = self.lookup_model(name)
        if m: return m(self, name, args)
        f = self.db.find(name)
        if f is None: raise Unmodelled(f'call {name}')
        return self.run(f, args)
    def lookup_model(self, name):
        if name in self.models: return self.models[name]
        for pat, fn in self.models.get('__re__', []):
            if re.fullmatch(pat, name): return fn
        return None

    def run(self, fn, args):
        crate = fn['crate']; body = fn['body']; db = self.db
        loc = [Cell(Uninit()) for _ in body['locals']]
        for i, a in enumerate(args): loc[i + 1].v = a
        def place(p):
            r = Ref(loc[p['local']])
            for e in p['projection']:
                if e == 'Deref':
                    v = r.get()
                    if not isinstance(v, Ref): raise Unmodelled(f'deref of non-ref {v!r} in {fn["name"]}')
                    r = v
                elif 'Field' in e: r = Ref(r.cell, r.path + (('field', e['Field'][0]),))
                elif 'Downcast' in e: r = Ref(r.cell, r.path + (('downcast', e['Downcast']),))
                else: raise Unmodelled(f'projection {e}')
            return r
        def const(c):
            k = c['const_']['kind']; t = db.ty(crate, c['const_']['ty'])
            info = t['info'] if t else {}
            if k == 'ZeroSized':
                if info.get('k') == 'fndef':
                    res = info.get('resolved') or {}
                    return FnVal(res.get('name') or info['name'], info)
                if info.get('k') == 'closure': return Agg('closure', f'{crate}:closure{info["def"]}', 0, [])
                return Opaque(('zst', t['display'] if t else '?'))
            if isinstance(k, dict) and 'Allocated' in k:
                by = k['Allocated']['bytes']
                if info.get('k') == 'int':
                    v = int.from_bytes(bytes(b for b in by), 'little'); return BV(z3.BitVecVal(v, info['bits']), info['signed'])
                if info.get('k') == 'bool': return z3.BoolVal(by[0] != 0)
                return Opaque(('const', t['display'] if t else '?', tuple(by)))
            if isinstance(k, dict) and 'Unevaluated' in k: return Ref(Cell(Opaque(('promoted', k['Unevaluated'].get('promoted')))))
            raise Unmodelled(f'const {k}')
        def operand(o):
            if 'Copy' in o: return place(o['Copy']).get()
            if 'Move' in o: return place(o['Move']).get()
            return const(o['Constant'])
        def binop(op, a, b):
            if isinstance(a, BV) and isinstance(b, BV):
                x, y, sg = a.e, b.e, a.signed
                cmp_ = {'Eq': lambda: x == y, 'Ne': lambda: x != y,
                        'Lt': lambda: (x < y) if sg else z3.ULT(x, y), 'Le': lambda: (x <= y) if sg else z3.ULE(x, y),
                        'Gt': lambda: (x > y) if sg else z3.UGT(x, y), 'Ge': lambda: (x >= y) if sg else z3.UGE(x, y)}
                if op in cmp_: return cmp_[op]()
                ar = {'Add': lambda: x + y, 'Sub': lambda: x - y, 'Mul': lambda: x * y, 'BitAnd': lambda: x & y, 'BitOr': lambda: x | y, 'BitXor': lambda: x ^ y,
                      'Div': lambda: (x / y) if sg else z3.UDiv(x, y), 'Rem': lambda: z3.SRem(x, y) if sg else z3.URem(x, y)}
                if op in ar: return BV(ar[op](), sg)
            if z3.is_bool(a) or isinstance(a, bool):
                if op == 'Eq': return a == b
                if op == 'Ne': return a != b
                if op == 'BitAnd': return z3.And(a, b)
                if op == 'BitOr': return z3.Or(a, b)
            raise Unmodelled(f'binop {op} {a!r} {b!r}')
        def checked(op, a, b):
            w = a.e.size(); x, y = a.e, b.e
            if a.signed:
                xe, ye = z3.SignExt(w, x), z3.SignExt(w, y)
                full = {'Add': xe + ye, 'Sub': xe - ye, 'Mul': xe * ye}[op]
                res = z3.Extract(w - 1, 0, full); ovf = z3.SignExt(w, res) != full
            else:
                xe, ye = z3.ZeroExt(w, x), z3.ZeroExt(w, y)
                full = {'Add': xe + ye, 'Sub': xe - ye, 'Mul': xe * ye}[op]
                res = z3.Extract(w - 1, 0, full); ovf = z3.Extract(2 * w - 1, w, full) != 0
            return Agg('tuple', '(int,bool)', 0, [BV(res, a.signed), ovf])
        def rvalue(r):
            if 'Use' in r: return operand(r['Use'][0] if isinstance(r['Use'], list) else r['Use'])
            if 'Ref' in r: return place(r['Ref'][2])
            if 'AddressOf' in r: return place(r['AddressOf'][1])
            if 'CopyForDeref' in r: return place(r['CopyForDeref']).get()
            if 'BinaryOp' in r: return binop(r['BinaryOp'][0], operand(r['BinaryOp'][1]), operand(r['BinaryOp'][2]))
            if 'CheckedBinaryOp' in r: return checked(r['CheckedBinaryOp'][0], operand(r['CheckedBinaryOp'][1]), operand(r['CheckedBinaryOp'][2]))
            if 'UnaryOp' in r:
                v = operand(r['UnaryOp'][1])
                if r['UnaryOp'][0] == 'Not': return z3.Not(v) if not isinstance(v, BV) else BV(~v.e, v.signed)
                if r['UnaryOp'][0] == 'Neg': return BV(-v.e, v.signed)
                raise Unmodelled(str(r))
            if 'Discriminant' in r:
                v = place(r['Discriminant']).get()
                if isinstance(v, Agg) and v.kind == 'coroutine': return bvv(v.state, 32)
                if not isinstance(v, Agg): raise Unmodelled(f'discriminant of {v!r}')
                return bvv(v.variant, 64, True)
            if 'Cast' in r:
                kind, op, tid = r['Cast']; v = operand(op)
                if kind == 'IntToInt':
                    info = db.ty(crate, tid)['info']; w = info['bits']
                    if v.e.size() == w: return BV(v.e, info['signed'])
                    if v.e.size() > w: return BV(z3.Extract(w - 1, 0, v.e), info['signed'])
                    return BV((z3.SignExt if v.signed else z3.ZeroExt)(w - v.e.size(), v.e), info['signed'])
                return v   # pointer coercions / transmute of refs: transparent in this model
            if 'Aggregate' in r:
                kind, ops = r['Aggregate']; vals = [operand(o) for o in ops]
                if kind == 'Tuple': return Agg('tuple', 'tuple', 0, vals)
                if 'Adt' in kind: return Agg('adt', f'adt{kind["Adt"][0]}', kind['Adt'][1], vals)
                if 'Closure' in kind: return Agg('closure', f'{crate}:closure{kind["Closure"][0]}', 0, vals)
                if 'Coroutine' in kind:
                    a = Agg('coroutine', f'{crate}:coroutine{kind["Coroutine"][0]}', 0, vals); a.state = 0; return a
                if 'Array' in kind: return VecV(vals)
            raise Unmodelled(f'rvalue {list(r.keys())}')
        bb = 0; steps = 0
        while True:
            steps += 1
            if steps > 5000: raise Unmodelled('unwinding bound exceeded')
            blk = body['blocks'][bb]
            for st in blk['statements']:
                k = st['kind']
                if isinstance(k, str): continue
                if 'Assign' in k:
                    pl, rv = k['Assign']; place(pl).set(rvalue(rv))
                elif 'SetDiscriminant' in k:
                    r = place(k['SetDiscriminant']['place']); v = r.get()
                    if isinstance(v, Agg) and v.kind == 'coroutine': v.state = k['SetDiscriminant']['variant_index']
                    else: raise Unmodelled('SetDiscriminant on non-coroutine')
                elif 'StorageLive' in k or 'StorageDead' in k or 'Nop' in k or 'ConstEvalCounter' in k: pass
                else: raise Unmodelled(f'stmt {list(k.keys())}')
            t = blk['terminator']['kind']
            if t == 'Return': return loc[0].v
            if t == 'Unreachable': raise Unmodelled(f'reached Unreachable in {fn["name"]}')
            if t == 'Resume': raise Unmodelled('Resume')
            if 'Goto' in t: bb = t['Goto']['target']; continue
            if 'Drop' in t: bb = t['Drop']['target']; continue
            if 'SwitchInt' in t:
                v = operand(t['SwitchInt']['discr']); tg = t['SwitchInt']['targets']
                if z3.is_bool(v) or isinstance(v, bool):
                    d = self.branch(v); m = dict((a, b) for a, b in tg['branches'])
                    bb = m.get(1 if d else 0, tg['otherwise']); continue
                nxt = tg['otherwise']
                for val, target in tg['branches']:
                    if self.branch(v.e == z3.BitVecVal(val, v.e.size())): nxt = target; break
                bb = nxt; continue
            if 'Assert' in t:
                a = t['Assert']; c = operand(a['cond'])
                ok = c if a['expected'] else z3.Not(c)
                if not self.branch(ok): raise Panic(f'assert {list(a["msg"].keys()) if isinstance(a["msg"], dict) else a["msg"]} in {fn["name"]}')
                bb = a['target']; continue
            if 'Call' in t:
                c = t['Call']; f = operand(c['func']); args2 = [operand(a) for a in c['args']]
                if not isinstance(f, FnVal): raise Unmodelled(f'indirect call {f!r}')
                try: r = self.call_named(f.name, args2, f.info)
                except Unmodelled as u:
                    if 'in fn' not in str(u): raise Unmodelled(f'{u} in fn {fn["name"]} bb{bb} args={[type(x).__name__ for x in args2]}')
                    raise
                if c['target'] is None: raise Unmodelled(f'diverging call {f.name} returned')
                place(c['destination']).set(r); bb = c['target']; continue
            raise Unmodelled(f'terminator {t if isinstance(t, str) else list(t.keys())}')

def explore(db, models, body):
    ex = Exec(db, models); work = [[]]; results = []
    while work:
        ex.decisions = work.pop(); ex.dpos = 0; ex.pc = []; ex.pending = []; ex.solver = z3.Solver()
        try: out = ('ok', body(ex))
        except Panic as p: out = ('panic', str(p))
        except Infeasible: out = None
        work.extend(ex.pending)
        if out is not None and LAZY:
            ex.stats['queries'] += 1
            if ex.solver.check() != z3.sat: out = None; ex.stats['infeasible'] = ex.stats.get('infeasible', 0) + 1
        if out is not None:
            ex.stats['paths'] += 1; results.append((out, list(ex.pc)))
    return ex, results

# ------------------------------------------------------------------ std models (native)
def some(v): return Agg('adt', 'Option', 1, [v])
def none(): return Agg('adt', 'Option', 0, [])
def m_identity(ex, n, a): return a[0]
def m_vec_len(ex, n, a): return bvv(len(a[0].get().items))
def index_items(ex, items, i, oob_panics):
    if not ex.branch(z3.ULT(i.e, len(items))):
        if oob_panics: raise Panic('index out of bounds')
        return None
    for k in range(len(items)):
        if ex.branch(i.e == k): return k
    raise Infeasible()
def m_vec_index(ex, n, a):
    v = a[0].get(); k = index_items(ex, v.items, a[1], True); c = Cell(v); return Ref(c, (('vecidx', k),)) if False else Ref(Cell(v.items[k]))
def m_slice_get(ex, n, a):
    v = a[0].get(); k = index_items(ex, v.items, a[1], False)
    return none() if k is None else some(Ref(Cell(v.items[k])))
def m_slice_iter(ex, n, a):
    items = a[0].get().items
    return IterV(iter([Ref(Cell(x)) for x in items]))
def m_iter_next(ex, n, a):
    it = a[0].get()
    try: return some(next(it.gen))
    except StopIteration: return none()
def m_unwrap(ex, n, a):
    if a[0].variant == 0: raise Panic(f'{n}: unwrap on None/Err')
    return a[0].fields[0]
def m_clone(ex, n, a): return a[0].get()
def m_is_some(ex, n, a): return a[0].get().variant == 1
def m_is_none(ex, n, a): return a[0].get().variant == 0
def m_as_ref(ex, n, a):
    o = a[0].get()
    return none() if o.variant == 0 else some(Ref(a[0].cell, a[0].path + (('field', 0),)))
def call_closure(ex, clo, args):
    # find closure body by def id recorded in the aggregate name
    cval = clo.get() if isinstance(clo, Ref) else clo
    name = cval.name
    for fname, lst in ex.db.fns.items():
        for f in lst:
            if f.get('closure_key') == name: return ex.run(f, [clo if (isinstance(clo, Ref) or not f['body']['locals'][1:2]) else clo] + args)
    raise Unmodelled(f'closure body for {name}')

def adaptor(kind):
    def m(ex, n, a):
        src = a[0].gen if isinstance(a[0], IterV) else a[0]
        if kind == 'enumerate':
            def g():
                for i, x in enumerate(src): yield Agg('tuple', 'tuple', 0, [bvv(i), x])
            return IterV(g())
        clo = a[1]
        if kind == 'filter':
            def g():
                for x in src:
                    keep = call_closure(ex, Ref(Cell(clo)), [Ref(Cell(x))])
                    if ex.branch(keep): yield x
            return IterV(g())
        if kind == 'map':
            def g():
                for x in src: yield call_closure(ex, Ref(Cell(clo)), [x])
            return IterV(g())
        if kind == 'filter_map':
            def g():
                for x in src:
                    r = call_closure(ex, Ref(Cell(clo)), [x])
                    if r.variant == 1: yield r.fields[0]
            return IterV(g())
        raise Unmodelled(kind)
    return m
def m_sum(ex, n, a):
    acc = None
    for x in a[0].gen:
        if acc is None: acc = x; continue
        w = x.e.size(); full = z3.ZeroExt(w, acc.e) + z3.ZeroExt(w, x.e)
        if not ex.branch(z3.Extract(2 * w - 1, w, full) == 0): raise Panic('attempt to add with overflow (Iterator::sum)')
        acc = BV(z3.Extract(w - 1, 0, full))
    return acc if acc is not None else bvv(0)
def m_max_by_key(ex, n, a):
    best = None; bk = None
    for x in a[0].gen:
        k = call_closure(ex, Ref(Cell(a[1])), [Ref(Cell(x))])
        kk = k.fields[0] if isinstance(k, Agg) else k      # newtype(u64)
        if best is None or ex.branch(z3.UGE(kk.e, bk.e)): best, bk = x, kk   # std: last maximum wins
    return none() if best is None else some(best)
def m_collect_vec(ex, n, a): return VecV(list(a[0].gen))
def m_vec_pop(ex, n, a):
    v = a[0].get()
    return some(v.items.pop()) if v.items else none()
def m_option_map(ex, n, a):
    if a[0].variant == 0: return none()
    return some(call_closure(ex, a[1], [a[0].fields[0]]))

# BTreeMap / HashMap
def m_map_iter(ex, n, a):
    m = a[0].get() if isinstance(a[0], Ref) else a[0]
    if m.ordered: order = [list(m.entries)]
    else: order = list(itertools.permutations(m.entries))
    # explore permutations as nondeterministic choice
    idx = 0
    for i in range(len(order) - 1):
        if ex.branch(z3.Bool(f'perm_{id(m)}_{i}')): idx = i; break
        idx = i + 1
    ents = order[idx]
    return IterV(iter([Agg('tuple', 'tuple', 0, [Ref(Cell(k)), Ref(Cell(v))]) for k, v in ents]))
def m_map_into_iter_owned(ex, n, a):
    m = a[0]
    order = list(itertools.permutations(m.entries)) if not m.ordered else [m.entries]
    idx = 0
    for i in range(len(order) - 1):
        if ex.branch(z3.Bool(f'perm_{len(order)}_{i}')): idx = i; break
        idx = i + 1
    return IterV(iter([Agg('tuple', 'tuple', 0, [k, v.v if isinstance(v, Cell) else v]) for k, v in order[idx]]))
def m_map_keys(ex, n, a):
    m = a[0].get()
    return IterV(iter([Ref(Cell(k)) for k, _ in m.entries]))
def m_hashmap_new(ex, n, a): return MapV([], False)
def values_equal(ex, x, y):
    if isinstance(x, BV): return x.e == y.e
    if isinstance(x, Opaque): return z3.BoolVal(x.tag == y.tag) if not isinstance(x.tag, z3.ExprRef) else x.tag == y.tag
    if isinstance(x, Agg):
        if x.variant != y.variant: return z3.BoolVal(False)
        return z3.And([values_equal(ex, p, q) for p, q in zip(x.fields, y.fields)] + [z3.BoolVal(True)])
    if z3.is_expr(x): return x == y
    raise Unmodelled(f'eq of {x!r}')
def m_hashmap_entry(ex, n, a):
    m = a[0].get(); key = a[1]
    for k, cell in m.entries:
        if ex.branch(values_equal(ex, k, key)): return ('occupied', cell)
    c = Cell(None); return ('vacant', m, key, c)
def m_entry_or_default(ex, n, a):
    e = a[0]
    if e[0] == 'occupied': return Ref(e[1])
    _, m, key, c = e; c.v = bvv(0); m.entries.append((key, c)); return Ref(c)

def m_bitvec_index(ex, n, a):
    bits = a[0].get().bits; k = index_items(ex, bits, a[1], True)
    return Ref(Cell(bits[k]))


def lex_cmp(x, y):
    """returns (lt, eq) z3 Bools for derived lexicographic PartialOrd over modelled values."""
    if isinstance(x, Ref): x = x.get()
    if isinstance(y, Ref): y = y.get()
    if isinstance(x, BV): return (z3.ULT(x.e, y.e) if not x.signed else x.e < y.e, x.e == y.e)
    if isinstance(x, Opaque):
        if x.tag == y.tag: return (z3.BoolVal(False), z3.BoolVal(True))
        raise Unmodelled('ordering of distinct opaque values')
    if isinstance(x, Agg):
        if x.variant != y.variant: return (z3.BoolVal(x.variant < y.variant), z3.BoolVal(False))
        lt = z3.BoolVal(False); eq = z3.BoolVal(True)
        for p, q in zip(x.fields, y.fields):
            l, e = lex_cmp(p, q); lt = z3.Or(lt, z3.And(eq, l)); eq = z3.And(eq, e)
        return (lt, eq)
    raise Unmodelled(f'ordering of {x!r}')
def m_ge(ex, n, a):
    lt, eq = lex_cmp(a[0], a[1]); return z3.Not(lt)

STD_MODELS = {'__re__': [
    (r'core::panicking::panic(_fmt)?|core::panicking::assert_failed.*', lambda ex, n, a: (_ for _ in ()).throw(Panic(f'{n}({a[0]!r})'))),
    (r'<.* as std::cmp::PartialOrd>::ge', m_ge),
    (r'std::vec::Vec::<.*>::len', m_vec_len),
    (r'<std::vec::Vec<.*> as std::ops::Index<usize>>::index', m_vec_index),
    (r'<std::vec::Vec<.*> as std::ops::Deref>::deref', m_identity),
    (r'core::slice::<impl \[.*\]>::get::<usize>', m_slice_get),
    (r'core::slice::<impl \[.*\]>::iter', m_slice_iter),
    (r'<.* as std::iter::IntoIterator>::into_iter', lambda ex, n, a: a[0] if isinstance(a[0], IterV) else (m_map_into_iter_owned(ex, n, a) if isinstance(a[0], MapV) else m_map_iter(ex, n, a))),
    (r'<std::slice::Iter<.*> as std::iter::Iterator>::next', m_iter_next),
    (r'<std::collections::btree_map::Iter<.*> as std::iter::Iterator>::next', m_iter_next),
    (r'std::option::Option::<.*>::unwrap', m_unwrap),
    (r'std::option::Option::<.*>::is_some', m_is_some),
    (r'std::option::Option::<.*>::is_none', m_is_none),
    (r'std::option::Option::<.*>::as_ref', m_as_ref),
    (r'std::option::Option::<.*>::map(::<.*>)?', m_option_map),
    (r'<.* as std::clone::Clone>::clone', m_clone),
    (r'<.* as std::iter::Iterator>::enumerate', adaptor('enumerate')),
    (r'<.* as std::iter::Iterator>::filter::<.*>', adaptor('filter')),
    (r'<.* as std::iter::Iterator>::map::<.*>', adaptor('map')),
    (r'<.* as std::iter::Iterator>::filter_map::<.*>', adaptor('filter_map')),
    (r'<.* as std::iter::Iterator>::sum::<u64>', m_sum),
    (r'<.* as std::iter::Iterator>::max_by_key::<.*>', m_max_by_key),
    (r'<.* as std::iter::Iterator>::collect::<std::vec::Vec<.*>>', m_collect_vec),
    (r'std::vec::Vec::<.*>::pop', m_vec_pop),
    (r'std::collections::HashMap::<.*>::new', m_hashmap_new),
    (r'std::collections::HashMap::<.*>::entry', m_hashmap_entry),
    (r'std::collections::hash_map::Entry::<.*>::or_default', m_entry_or_default),
    (r'std::collections::BTreeMap::<.*>::keys', m_map_keys),
    (r'std::iter::Iterator::enumerate', adaptor('enumerate')),
    (r'std::iter::Iterator::filter', adaptor('filter')),
    (r'std::iter::Iterator::map', adaptor('map')),
    (r'std::iter::Iterator::filter_map', adaptor('filter_map')),
    (r'std::iter::Iterator::sum', m_sum),
    (r'std::iter::Iterator::max_by_key', m_max_by_key),
    (r'std::iter::Iterator::collect', m_collect_vec),
    (r'std::iter::Iterator::next', m_iter_next),
    (r'std::iter::IntoIterator::into_iter', lambda ex, n, a: a[0] if isinstance(a[0], IterV) else (m_map_into_iter_owned(ex, n, a) if isinstance(a[0], MapV) else m_map_iter(ex, n, a))),
    (r'<bit_vec::BitVec as std::ops::Index<usize>>::index', m_bitvec_index),
    (r'bit_vec::BitVec::len', lambda ex, n, a: bvv(len(a[0].get().bits))),
    (r'<.*BlockNumber as std::cmp::PartialOrd>::gt', lambda ex, n, a: z3.UGT(a[0].get().fields[0].e, a[1].get().fields[0].e)),
]}

def index_closures(db):
    """closure aggregates are named closure<def id>; bodies are found through the type table (def id -> name)."""
    for (crate, tid), t in db.tys.items():
        info = t['info']
        if info.get('k') in ('closure', 'coroutine'):
            for f in db.fns.get(info['name'], []):
                if f['crate'] == crate: f['closure_key'] = f'{crate}:{info["k"]}{info["def"]}'

# ------------------------------------------------------------------ experiments
def exp_implied_block(db, N=4):
    """C02 Lemma A on the real get_implied_block / high_vote / high_qc / Signers::weight."""
    GIB = 'zksync_consensus_roles::validator::messages::v2::leader_proposal::ProposalJustification::get_implied_block'
    t0 = time.time(); tot = dict(paths=0, queries=0); bad = []
    def body(ex):
        ws = [z3.BitVec(f'w{i}', 64) for i in range(N)]
        for w in ws: ex.assume(z3.And(w != 0, z3.ULT(w, 1 << 40)))
        n = sum(ws[1:], ws[0]); f = z3.BitVec('f', 64)
        ex.assume(z3.And(z3.ULE(5 * f, n - 1), z3.ULT(n - 1, 5 * f + 5), z3.ULT(f, 1 << 42)))   # f = (n-1)/5 without a divider
        vec = VecV([Agg('adt', 'ValidatorInfo', 0, [Opaque(f'key{i}'), BV(ws[i]), z3.BoolVal(True)]) for i in range(N)])
        sched = Agg('adt', 'Schedule', 0, [vec, Opaque('indexes'), BV(n), VecV([bvv(i) for i in range(N)]), Opaque('sel'), BV(n)])
        inQ = [z3.Bool(f'inQ{i}') for i in range(N)]; inF = [z3.Bool(f'inF{i}') for i in range(N)]; inS = [z3.Bool(f'inS{i}') for i in range(N)]
        wsum = lambda flags: sum((z3.If(fl, w, z3.BitVecVal(0, 64)) for fl, w in zip(flags, ws)), z3.BitVecVal(0, 64))
        ex.assume(z3.UGE(wsum(inQ), n - f)); ex.assume(z3.ULE(wsum(inF), f)); ex.assume(z3.UGE(wsum(inS), n - f))
        b = z3.BitVec('b', 64); h = z3.BitVec('h', 8)
        ex.assume(z3.ULT(b, (1 << 64) - 2))
        # one timeout vote group per validator (worst case: all different); signer i signs group i iff inS[i]
        entries = []
        for i in range(N):
            hv_some = z3.Bool(f'hv_some{i}'); hv_num = z3.BitVec(f'hv_num{i}', 64); hv_hash = z3.BitVec(f'hv_hash{i}', 8)
            qc_some = z3.Bool(f'qc_some{i}'); qc_num = z3.BitVec(f'qc_num{i}', 64); qc_view = z3.BitVec(f'qc_view{i}', 64)
            locked = z3.And(inS[i], inQ[i], z3.Not(inF[i]))
            ex.assume(z3.Implies(locked, z3.And(hv_some, hv_num == b, hv_hash == h)))
            ex.assume(z3.Implies(qc_some, z3.ULT(qc_num, b)))      # case A: nothing at or above b certified yet
            if not ex.branch(inS[i]): continue
            header = lambda num, hs: Agg('adt', 'BlockHeader', 0, [Agg('adt', 'BlockNumber', 0, [BV(num)]), Opaque(hs)])
            hv = some(Agg('adt', 'ReplicaCommit', 0, [Opaque('view'), header(hv_num, hv_hash)])) if ex.branch(hv_some) else none()
            view = Agg('adt', 'View', 0, [Opaque('genesis'), Opaque('epoch'), Agg('adt', 'ViewNumber', 0, [BV(qc_view)])])
            qc = some(Agg('adt', 'CommitQC', 0, [Agg('adt', 'ReplicaCommit', 0, [view, header(qc_num, z3.BitVec(f'qc_hash{i}', 8))]), Opaque('signers'), Opaque('sig')])) if ex.branch(qc_some) else none()
            msg = Agg('adt', 'ReplicaTimeout', 0, [Opaque('view'), hv, qc])
            signers = Agg('adt', 'Signers', 0, [BitVecV([z3.BoolVal(j == i) for j in range(N)])])
            entries.append((msg, signers))
        tqc = Agg('adt', 'TimeoutQC', 0, [Opaque('view'), MapV(entries, True), Opaque('sig')])
        just = Agg('adt', 'ProposalJustification', 1, [tqc])
        r = ex.call_named(GIB, [Ref(Cell(just)), Ref(Cell(sched)), Agg('adt', 'BlockNumber', 0, [bvv(0)])])
        num = r.fields[0].fields[0]; opt = r.fields[1]
        ok = z3.And(num.e == b, z3.BoolVal(opt.variant == 1), (opt.fields[0].tag == h) if opt.variant == 1 else z3.BoolVal(False))
        return ok
    models = dict(STD_MODELS); models['__re__'] = list(STD_MODELS['__re__'])
    models['zksync_consensus_roles::validator::messages::block::BlockNumber::next'] = lambda ex, n, a: Agg('adt', 'BlockNumber', 0, [BV(a[0].fields[0].e + 1)])
    # contract summary (proved separately in C07): max_faulty_weight(n) = the f with 5f <= n-1 < 5f+5
    def mfw(ex, n, a):
        f = z3.BitVec('f', 64)     # same symbol as in the harness: one total weight per run
        return BV(f)
    models['zksync_consensus_roles::validator::messages::schedule::max_faulty_weight'] = mfw
    ex, results = explore(db, models, body)
    for (kind, val), pc in results:
        if kind == 'panic': bad.append(('panic', val)); continue
        s = z3.Solver(); s.add(*pc); s.add(z3.Not(val))
        if s.check() != z3.unsat: bad.append(('lemma A violated', s.model()))
    print(f'C02 lemma A, N={N}: paths={ex.stats["paths"]} queries={ex.stats["queries"]} calls={ex.stats["calls"]} infeasible={ex.stats.get("infeasible", 0)} time={time.time() - t0:.1f}s violations={len(bad)}')
    for x in bad[:3]: print('  ', x)


# ------------------------------------------------------------------ experiment: async fn (coroutine) execution — Limiter::acquire
def ok(v): return Agg('adt', 'Result', 0, [v])
def err(v): return Agg('adt', 'Result', 1, [v])
def ready(v): return Agg('adt', 'Poll', 0, [v])
CANCELED = Agg('adt', 'Canceled', 0, [])
class EnvFuture:
    def __init__(self, kind, args): self.kind = kind; self.args = args

def exp_limiter(db):
    """One call of Limiter::acquire from an arbitrary state satisfying the documented invariant.
    Clock/ticks abstract; awaited futures answered by contract (see DESIGN C15)."""
    W = 64
    t0 = time.time()
    ACQ = 'zksync_concurrency::limiter::Limiter::acquire'
    BODY = 'zksync_concurrency::limiter::Limiter::acquire::{closure#0}'
    def body(ex):
        I = lambda name, bits, signed=False: BV(z3.BitVec(name, bits), signed)
        ticks, permits, reserved, burst, refresh, p = I('ticks', 128, True), I('permits', W), I('reserved', W), I('burst', W), I('refresh', 128, True), I('p', W)
        ex.assume(z3.And(z3.ULE(reserved.e, permits.e), z3.ULE(permits.e, burst.e), ticks.e >= 0, ticks.e < (1 << 100), z3.ULT(burst.e, 1 << 40), refresh.e < (1 << 62)))
        state = Agg('adt', 'State', 0, [ticks, permits, reserved])
        state_cell = Cell(state)
        pre = (ticks.e, permits.e, reserved.e)
        lim = Agg('adt', 'Limiter', 0, [Opaque('start'), refresh, burst, Opaque(('std_mutex_sender', state_cell)), Opaque(('tokio_mutex_receiver', state_cell))])
        ctx = Opaque('ctx')
        log = []
        need_holder = {}
        def m_poll(ex_, n, a):
            fut = a[0].fields[0].get() if isinstance(a[0], Agg) else a[0].get()
            if isinstance(fut, Agg) and fut.kind == 'coroutine':
                raise Unmodelled('nested coroutine poll ' + fut.name)
            k = fut.kind
            if k == 'canceled': log.append('await canceled'); return ready(UNIT)
            if k == 'lock':
                if ex_.branch(z3.Bool('lock_canceled')): return ready(err(CANCELED))
                return ready(ok(Agg('adt', 'LocalMutexGuard', 0, [Opaque(('guard', state_cell))])))
            if k == 'wait_for':
                pred = fut.args[2]
                holds = call_closure(ex_, Ref(Cell(pred)), [Ref(state_cell)])
                if ex_.branch(holds): return ready(ok(Opaque(('watch_ref', state_cell))))
                log.append('wait_for canceled'); return ready(err(CANCELED))
            if k == 'sleep':
                if ex_.branch(z3.Bool('sleep_canceled')): log.append('sleep canceled'); return ready(err(CANCELED))
                log.append('slept'); return ready(ok(UNIT))
            raise Unmodelled('poll of ' + k)
        models = dict(STD_MODELS); R = list(STD_MODELS['__re__']); models['__re__'] = R
        R += [
            (r'zksync_concurrency::ctx::Ctx::canceled', lambda e, n, a: EnvFuture('canceled', a)),
            (r'zksync_concurrency::sync::lock::<.*>', lambda e, n, a: EnvFuture('lock', a)),
            (r'zksync_concurrency::sync::wait_for(::<.*>)?', lambda e, n, a: EnvFuture('wait_for', a)),
            (r'zksync_concurrency::ctx::Ctx::sleep_until_deadline', lambda e, n, a: EnvFuture('sleep', a)),
            (r'.*IntoFuture>::into_future|std::future::IntoFuture::into_future', m_identity),
            (r'std::pin::Pin::<.*>::new_unchecked', lambda e, n, a: Agg('adt', 'Pin', 0, [a[0]])),
            (r'.* as std::future::Future>::poll|std::future::Future::poll', m_poll),
            (r'zksync_concurrency::sync::(lock|wait_for)(::<.*>)?::\{closure#0\}', m_poll),
            (r'<std::result::Result<.*> as std::ops::Try>::branch', lambda e, n, a: Agg('adt', 'ControlFlow', 0, [a[0].fields[0]]) if a[0].variant == 0 else Agg('adt', 'ControlFlow', 1, [err(a[0].fields[0])])),
            (r'<std::result::Result<.*> as std::ops::FromResidual<.*>>::from_residual', lambda e, n, a: err(a[0].fields[0])),
            (r'zksync_concurrency::sync::LocalMutexGuard::<.*>::into_async', lambda e, n, a: a[0].fields[0]),
            (r'<tokio::sync::MutexGuard<.*> as std::ops::DerefMut>::deref_mut', lambda e, n, a: Ref(Cell(Opaque(('receiver', state_cell))))),
            (r'<tokio::sync::watch::Ref<.*> as std::ops::Deref>::deref', lambda e, n, a: Ref(state_cell)),
            (r'core::num::<impl usize>::saturating_sub', lambda e, n, a: BV(z3.If(z3.UGE(a[0].e, a[1].e), a[0].e - a[1].e, z3.BitVecVal(0, W)))),
            (r'core::num::<impl usize>::saturating_add', lambda e, n, a: BV(z3.If(z3.ULT(a[0].e + a[1].e, a[0].e), z3.BitVecVal(2**W - 1, W), a[0].e + a[1].e))),
            (r'core::num::<impl i128>::saturating_mul', lambda e, n, a: Opaque(('nanos', a[0], a[1]))),
            (r'zksync_concurrency::limiter::duration_or_max', lambda e, n, a: Opaque(('duration', a[0]))),
            (r'time::Instant::checked_add', lambda e, n, a: some(Opaque(('deadline', a[1]))) if e.branch(z3.Bool('deadline_finite')) else none()),
            (r'std::sync::Mutex::<.*>::lock', lambda e, n, a: ok(Opaque(('std_guard', state_cell)))),
            (r'std::result::Result::<.*>::unwrap', lambda e, n, a: a[0].fields[0] if a[0].variant == 0 else (_ for _ in ()).throw(Panic('unwrap on Err'))),
            (r'<std::sync::MutexGuard<.*> as std::ops::Deref>::deref', lambda e, n, a: Ref(Cell(Opaque(('sender', state_cell))))),
            (r'tokio::sync::watch::Sender::<.*>::send_if_modified', lambda e, n, a: call_closure(e, a[1], [Ref(state_cell)])),
            (r'std::cmp::min::<usize>', lambda e, n, a: BV(z3.If(z3.ULE(a[0].e, a[1].e), a[0].e, a[1].e))),
            (r'zksync_concurrency::limiter::usize_or_max', lambda e, n, a: BV(z3.If(a[0].e > (2**W - 1), z3.BitVecVal(2**W - 1, W), z3.Extract(W - 1, 0, a[0].e)))),
        ]
        ex.models = models
        co = ex.call_named(ACQ, [Ref(Cell(lim)), Ref(Cell(ctx)), p])
        cocell = Cell(co)
        r = ex.call_named(BODY, [Agg('adt', 'Pin', 0, [Ref(cocell)]), Opaque('cx')])
        if r.variant != 0: raise Unmodelled('Pending returned')
        res = r.fields[0]
        st = state_cell.v
        post = (st.fields[0].e, st.fields[1].e, st.fields[2].e)
        granted = res.variant == 0
        inv = z3.And(z3.ULE(post[2], post[1]), z3.ULE(post[1], burst.e))
        if granted:
            perm = res.fields[0]
            unl = z3.simplify(perm.fields[0].e == 0)
            prop = z3.And(inv, z3.Or(perm.fields[0].e == 0, z3.And(perm.fields[0].e == p.e, post[2] == pre[2] + p.e, z3.UGE(post[1], post[2]))))
        else:
            prop = z3.And(post[0] == pre[0], post[1] == pre[1], post[2] == pre[2])       # L3: cancel consumes nothing
        return (granted, tuple(log), prop)
    ex, results = explore(db, dict(STD_MODELS), body)
    bad = []
    kinds = {}
    for (kind, val), pc in results:
        if kind == 'panic': bad.append(('panic', val)); continue
        granted, log, prop = val
        kinds[(granted, log)] = kinds.get((granted, log), 0) + 1
        s = z3.Solver(); s.add(*pc); s.add(z3.Not(prop))
        if s.check() != z3.unsat: bad.append(('violated', granted, log, s.model()))
    print(f'C15 acquire one-step: paths={ex.stats["paths"]} queries={ex.stats["queries"]} time={time.time() - t0:.1f}s violations={len(bad)}')
    for k, v in kinds.items(): print('   outcome', k, v)
    for x in bad[:3]: print('  ', x)


# ------------------------------------------------------------------ experiment: replica handler start_timeout (C03c persist-before-send)
def exp_timeout(db):
    t0 = time.time()
    ST = 'zksync_consensus_bft::v2_chonky_bft::timeout::<impl zksync_consensus_bft::v2_chonky_bft::StateMachine>::start_timeout'
    def body(ex):
        log = []
        view = BV(z3.BitVec('view', 64)); phase = Agg('adt', 'Phase', [0, 1, 2][0], [])
        ph = None
        for i in (0, 1):
            if ex.branch(z3.Bool(f'phase_is_{i}')): ph = i; break
        if ph is None: ph = 2
        phase = Agg('adt', 'Phase', ph, [])
        has_cqc = ex.branch(z3.Bool('has_commit_qc')); has_tqc = ex.branch(z3.Bool('has_timeout_qc'))
        cqc_view = BV(z3.BitVec('cqc_view', 64)); tqc_view = BV(z3.BitVec('tqc_view', 64))
        if not (has_cqc or has_tqc): ex.assume(view.e == 0)      # reachable-state invariant: a view > 0 is justified by some certificate
        mkview = lambda v: Agg('adt', 'View', 0, [Opaque('genesis'), Agg('adt', 'EpochNumber', 0, [bvv(0)]), Agg('adt', 'ViewNumber', 0, [v])])
        cqc = some(Agg('adt', 'CommitQC', 0, [Agg('adt', 'ReplicaCommit', 0, [mkview(cqc_view), Opaque('hdr')]), Opaque('signers'), Opaque('sig')])) if has_cqc else none()
        tqc = some(Agg('adt', 'TimeoutQC', 0, [mkview(tqc_view), Opaque('map'), Opaque('sig')])) if has_tqc else none()
        hv = some(Opaque('high_vote')) if ex.branch(z3.Bool('has_high_vote')) else none()
        cfg = Agg('adt', 'Config', 0, [Opaque('engine_manager'), Opaque('secret_key'), bvv(1000), Opaque('view_timeout'), Agg('adt', 'EpochNumber', 0, [bvv(0)]), Opaque('first_block'), Opaque('validators')])
        sm = Agg('adt', 'StateMachine', 0, [Ref(Cell(cfg)), Opaque('outbound'), Opaque('inbound'), Opaque('proposer_sender'),
                 Agg('adt', 'ViewNumber', 0, [view]), phase, hv, cqc, tqc] + [Opaque(f'cache{i}') for i in range(5)] + [Opaque('view_timeout0'), Opaque('view_start')])
        smc = Cell(sm)
        snapshot = lambda: (smc.v.fields[4].fields[0].e, smc.v.fields[5].variant, smc.v.fields[6], smc.v.fields[7], smc.v.fields[8])
        def m_poll(e, n, a):
            fut = a[0].fields[0].get() if isinstance(a[0], Agg) else a[0].get()
            if isinstance(fut, EnvFuture) and fut.kind == 'backup_state':
                if e.branch(z3.Bool('backup_fails')): log.append(('persist_failed',)); return ready(err(Opaque('ctx::Error')))
                log.append(('persist', snapshot())); return ready(ok(UNIT))
            raise Unmodelled(f'poll {fut!r}')
        models = dict(STD_MODELS); R = list(STD_MODELS['__re__']); models['__re__'] = R
        R += [
            (r'<tracing::Level as std::cmp::PartialOrd<tracing::level_filters::LevelFilter>>::le', lambda e, n, a: False),   # logging disabled
            (r'.*StateMachine>::backup_state', lambda e, n, a: EnvFuture('backup_state', a)),
            (r'.*StateMachine>::backup_state::\{closure#0\}', m_poll),
            (r'.*IntoFuture>::into_future|std::future::IntoFuture::into_future', m_identity),
            (r'std::pin::Pin::<.*>::new_unchecked', lambda e, n, a: Agg('adt', 'Pin', 0, [a[0]])),
            (r'<std::result::Result<.*> as zksync_concurrency::error::Wrap>::wrap::<.*>', m_identity),
            (r'<std::result::Result<.*> as std::ops::Try>::branch', lambda e, n, a: Agg('adt', 'ControlFlow', 0, [a[0].fields[0]]) if a[0].variant == 0 else Agg('adt', 'ControlFlow', 1, [err(a[0].fields[0])])),
            (r'<std::result::Result<.*> as std::ops::FromResidual<.*>>::from_residual', lambda e, n, a: err(a[0].fields[0])),
            (r'<std::sync::Arc<.*> as std::ops::Deref>::deref', lambda e, n, a: a[0].get()),
            (r'zksync_concurrency::ctx::Ctx::now', lambda e, n, a: Opaque('now')),
            (r'<time::instant::Instant as std::ops::Add<time::duration::Duration>>::add', lambda e, n, a: Opaque('now+timeout')),
            (r'<zksync_consensus_roles::validator::ViewNumber as std::cmp::PartialEq>::ne', lambda e, n, a: a[0].get().fields[0].e != (a[1].get().fields[0].e if isinstance(a[1].get(), Agg) else z3.BitVecVal(0, 64))),   # promoted &ViewNumber(0)
            (r'zksync_consensus_bft::config::Config::genesis_hash', lambda e, n, a: Opaque('genesis')),
            (r'zksync_consensus_roles::validator::SecretKey::sign_msg::<.*>', lambda e, n, a: Agg('adt', 'Signed', 0, [a[1], Opaque('mykey'), Opaque('sig')])),
            (r'zksync_concurrency::ctx::channel::UnboundedSender::<.*>::send', lambda e, n, a: (log.append(('send', a[1], snapshot())), UNIT)[1]),
            (r'<std::option::Option<.*> as std::cmp::PartialOrd>::ge', None),
        ]
        R[:] = [x for x in R if x[1] is not None]
        ex.models = models
        co = ex.call_named(ST, [Ref(smc), Ref(Cell(Opaque('ctx')))])
        r = ex.call_named(ST + '::{closure#0}', [Agg('adt', 'Pin', 0, [Ref(Cell(co))]), Opaque('cx')])
        if r.variant != 0: raise Unmodelled('Pending')
        return (r.fields[0].variant, log, snapshot())
    ex, results = explore(db, dict(STD_MODELS), body)
    bad = []; outcomes = {}
    for (kind, val), pc in results:
        if kind == 'panic': outcomes[('panic', val[:60])] = outcomes.get(('panic', val[:60]), 0) + 1; continue
        res, log, final = val
        sends = [x for x in log if x[0] == 'send']; persists = [x for x in log if x[0] == 'persist']
        outcomes[(res, tuple(x[0] for x in log))] = outcomes.get((res, tuple(x[0] for x in log)), 0) + 1
        # persist-before-send: every send is preceded by a successful persist of the very state it was derived from
        for i, ev in enumerate(log):
            if ev[0] != 'send': continue
            prior = [p for p in log[:i] if p[0] == 'persist']
            if not prior: bad.append(('send without prior persist', log)); continue
            pv, pp = prior[-1][1][0], prior[-1][1][1]; sv, sp = ev[2][0], ev[2][1]
            s = z3.Solver(); s.add(*pc); s.add(z3.Not(z3.And(pv == sv, z3.BoolVal(pp == sp), z3.BoolVal(sp == 2))))
            if s.check() != z3.unsat: bad.append(('send not covered by persisted state', log))
    print(f'C03(c) start_timeout: paths={ex.stats["paths"]} queries={ex.stats["queries"]} time={time.time() - t0:.1f}s violations={len(bad)}')
    for k, v in outcomes.items(): print('   outcome', k, v)
    for x in bad[:3]: print('  ', str(x)[:300])

def main():
    prefix = sys.argv[1]; exp = sys.argv[2] if len(sys.argv) > 2 else 'implied'
    t0 = time.time(); db = DB(prefix); index_closures(db)
    print(f'loaded {sum(len(v) for v in db.fns.values())} bodies, {len(db.tys)} types in {time.time() - t0:.1f}s')
    if exp == 'implied': exp_implied_block(db, int(sys.argv[3]) if len(sys.argv) > 3 else 3)
    if exp == 'limiter': exp_limiter(db)
    if exp == 'timeout': exp_timeout(db)

if __name__ == '__main__':
    main()
