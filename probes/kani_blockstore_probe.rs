#![allow(dead_code)]
#[path = "/repo/node/libs/engine/src/block_store.rs"]
mod block_store;
pub use block_store::{BlockStoreState, Last};

#[cfg(kani)]
mod proofs {
    use super::block_store::*;
    use zksync_consensus_roles::validator::{self, Block, BlockNumber, PreGenesisBlock, Payload, Justification};
    use std::collections::VecDeque;

    fn blk(n: u64) -> Block {
        Block::PreGenesis(PreGenesisBlock { number: BlockNumber(n), payload: Payload(vec![]), justification: Justification(vec![]) })
    }

    /// Arbitrary store satisfying the representation invariant, cache length <= 2.
    fn any_store() -> BlockStore {
        let first: u64 = kani::any();
        let clen: usize = 2;
        let qn: u64 = kani::any(); // queued.next
        let pn: u64 = kani::any(); // persisted.next
        kani::assume(first <= pn && pn <= qn && qn < u64::MAX - 4);
        kani::assume(qn - first >= clen as u64);
        // cache = last clen blocks of queued, and must start at or before persisted.next
        let c0 = qn - clen as u64;
        kani::assume(c0 <= pn);
        let mut cache = VecDeque::new();
        for i in 0..clen { cache.push_back(blk(c0 + i as u64)); }
        let last = |next: u64| if next > first { Some(Last::PreGenesis(BlockNumber(next - 1))) } else { None };
        BlockStore {
            queued: BlockStoreState { first: BlockNumber(first), last: last(qn) },
            persisted: BlockStoreState { first: BlockNumber(first), last: last(pn) },
            cache,
        }
    }

    fn inv(s: &BlockStore) -> bool {
        let qn = s.queued.next().0;
        let pn = s.persisted.next().0;
        if !(pn <= qn) { return false; }
        let n = s.cache.len() as u64;
        if n > qn { return false; }
        let c0 = qn - n;
        if c0 > pn { return false; }
        let mut i = 0;
        while i < s.cache.len() {
            if s.cache[i].number().0 != c0 + i as u64 { return false; }
            i += 1;
        }
        true
    }

    #[kani::proof]
    #[kani::unwind(5)]
    #[kani::stub(std::backtrace::Backtrace::capture, std::backtrace::Backtrace::disabled)]
    fn update_persisted_step() {
        let mut s = any_store();
        assert!(inv(&s));
        let first = s.persisted.first.0;
        let nf: u64 = kani::any();
        let nn: u64 = kani::any();
        kani::assume(nf >= first && nf <= nn && nn < u64::MAX - 4);
        let newp = BlockStoreState { first: BlockNumber(nf), last: if nn > nf { Some(Last::PreGenesis(BlockNumber(nn - 1))) } else { None } };
        let old_pn = s.persisted.next().0;
        let old_qn = s.queued.next().0;
        let r = s.update_persisted(newp);
        if nn < old_pn { assert!(r.is_err()); assert!(s.persisted.next().0 == old_pn); }
        else {
            assert!(r.is_ok());
            assert!(s.persisted.next().0 == nn);
            assert!(s.queued.next().0 == if nn > old_qn { nn } else { old_qn });
            assert!(inv(&s));
        }
        kani::cover!(r.is_ok() && nn > old_qn);
        std::mem::forget(r); std::mem::forget(s);
    }

    #[kani::proof]
    #[kani::unwind(5)]
    fn try_push_step() {
        let mut s = any_store();
        assert!(inv(&s));
        let n: u64 = kani::any();
        let before = s.queued.next();
        let pushed = s.try_push(blk(n));
        assert!(pushed == (n == before.0));
        if pushed { assert!(s.queued.next().0 == before.0 + 1); } else { assert!(s.queued.next() == before); }
        assert!(inv(&s));
        std::mem::forget(s);
    }
}
