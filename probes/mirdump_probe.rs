#![feature(rustc_private)]
extern crate rustc_driver;
extern crate rustc_interface;
extern crate rustc_middle;
#[macro_use]
extern crate rustc_public;
extern crate serde_json;

use std::collections::{HashMap as BTreeMap, HashSet as BTreeSet};
use std::io::Write;
use std::ops::ControlFlow;
use rustc_public::mir::{visit::Location, Body, MirVisitor};
use rustc_public::mir::mono::Instance;
use rustc_public::ty::{GenericArgKind, GenericArgs, RigidTy, Ty, TyKind};
use rustc_public::CrateDef;
use serde_json::{json, Value};

struct Collect(BTreeSet<Ty>);
impl MirVisitor for Collect {
    fn visit_ty(&mut self, ty: &Ty, _: Location) { self.0.insert(*ty); }
}

fn ty_id(ty: &Ty) -> Value { serde_json::to_value(ty).unwrap() }

fn args_json(args: &GenericArgs, work: &mut Vec<Ty>) -> Value {
    Value::Array(args.0.iter().map(|a| match a {
        GenericArgKind::Type(t) => { work.push(*t); json!({"ty": ty_id(t)}) }
        GenericArgKind::Lifetime(_) => json!("lt"),
        GenericArgKind::Const(c) => json!({"const": format!("{:?}", c.kind())}),
    }).collect())
}

fn safe_kind(ty: &Ty) -> Option<TyKind> {
    let t = *ty;
    std::panic::catch_unwind(std::panic::AssertUnwindSafe(move || t.kind())).ok()
}

fn has_param(ty: &Ty, depth: usize) -> bool {
    if depth > 6 { return true; }
    let Some(kind) = safe_kind(ty) else { return true; };
    match kind {
        TyKind::RigidTy(r) => match r {
            RigidTy::Adt(_, a) | RigidTy::FnDef(_, a) | RigidTy::Closure(_, a) | RigidTy::Coroutine(_, a) =>
                a.0.iter().any(|g| match g { GenericArgKind::Type(t) => has_param(t, depth + 1), GenericArgKind::Const(c) => !matches!(c.kind(), rustc_public::ty::TyConstKind::Value(..) | rustc_public::ty::TyConstKind::ZSTValue(..)), _ => false }),
            RigidTy::Ref(_, t, _) | RigidTy::RawPtr(t, _) | RigidTy::Array(t, _) | RigidTy::Slice(t) => has_param(&t, depth + 1),
            RigidTy::Tuple(ts) => ts.iter().any(|t| has_param(t, depth + 1)),
            RigidTy::Int(_) | RigidTy::Uint(_) | RigidTy::Bool | RigidTy::Char | RigidTy::Str | RigidTy::Never | RigidTy::Float(_) => false,
            _ => true,
        },
        _ => true,
    }
}

fn describe(ty: Ty, work: &mut Vec<Ty>) -> Value {
    let disp = format!("{ty}");
    let Some(kind) = safe_kind(&ty) else { return json!({"id": ty_id(&ty), "display": disp, "info": {"k": "alias"}}); };
    let extra = match &kind {
        TyKind::RigidTy(r) => match r {
            RigidTy::Adt(def, args) => {
                let variants: Vec<Value> = def.variants().iter().map(|v| {
                    let fields: Vec<Value> = v.fields().iter().map(|f| {
                        let fty = if has_param(&ty, 0) { f.ty() } else { f.ty_with_args(args) }; work.push(fty);
                        json!({"name": f.name, "ty": ty_id(&fty)})
                    }).collect();
                    json!({"name": v.name(), "fields": fields})
                }).collect();
                json!({"k": "adt", "name": def.name(), "adt_kind": format!("{:?}", def.kind()), "variants": variants, "args": args_json(args, work)})
            }
            RigidTy::FnDef(def, args) => {
                let resolved = if has_param(&ty, 0) { None } else { Instance::resolve(*def, args).ok() }.map(|i| json!({"name": i.name(), "has_body": i.has_body(), "kind": format!("{:?}", i.kind)}));
                json!({"k": "fndef", "name": def.name(), "args": args_json(args, work), "resolved": resolved})
            }
            RigidTy::Closure(def, args) => json!({"k": "closure", "name": def.name(), "args": args_json(args, work)}),
            RigidTy::Coroutine(def, args) => json!({"k": "coroutine", "name": def.name(), "args": args_json(args, work)}),
            RigidTy::Ref(_, t, m) => { work.push(*t); json!({"k": "ref", "to": ty_id(t), "mut": format!("{:?}", m)}) }
            RigidTy::RawPtr(t, m) => { work.push(*t); json!({"k": "ptr", "to": ty_id(t), "mut": format!("{:?}", m)}) }
            RigidTy::Tuple(ts) => { work.extend(ts.iter().copied()); json!({"k": "tuple", "elems": ts.iter().map(ty_id).collect::<Vec<_>>()}) }
            RigidTy::Array(t, n) => { work.push(*t); json!({"k": "array", "elem": ty_id(t), "len": (match n.kind() { rustc_public::ty::TyConstKind::Value(..) => n.eval_target_usize().ok(), _ => None })}) }
            RigidTy::Slice(t) => { work.push(*t); json!({"k": "slice", "elem": ty_id(t)}) }
            RigidTy::Int(i) => json!({"k": "int", "signed": true, "bits": i.num_bytes() * 8}),
            RigidTy::Uint(i) => json!({"k": "int", "signed": false, "bits": i.num_bytes() * 8}),
            RigidTy::Bool => json!({"k": "bool"}),
            other => json!({"k": "other", "dbg": format!("{:?}", other).chars().take(200).collect::<String>()}),
        },
        other => json!({"k": "nonrigid", "dbg": format!("{:?}", other).chars().take(200).collect::<String>()}),
    };
    json!({"id": ty_id(&ty), "display": disp, "info": extra})
}

fn dump() -> ControlFlow<()> {
    std::panic::set_hook(Box::new(|i| { if std::env::var("MIRDUMP_DEBUG").is_ok() { eprintln!("mirdump panic: {i}"); } }));
    let out_path = std::env::var("MIRDUMP_OUT").unwrap_or_else(|_| "/tmp/mirdump/out".into());
    let krate = rustc_public::local_crate();
    if krate.name.starts_with("build_script") { return ControlFlow::Continue(()); }
    let path = format!("{}.{}.jsonl", out_path, krate.name);
    let mut f = std::io::BufWriter::new(std::fs::File::create(&path).unwrap());
    let mut n = 0;
    let mut col = Collect(BTreeSet::new());
    for item in rustc_public::all_local_items() {
        if !item.has_body() { continue; }
        let body: Body = item.expect_body();
        col.visit_body(&body);
        for l in body.locals() { col.0.insert(l.ty); }
        let v = json!({ "rec": "fn", "name": item.name(), "kind": format!("{:?}", item.kind()),
                        "span": format!("{:?}", item.span()), "body": serde_json::to_value(&body).unwrap() });
        serde_json::to_writer(&mut f, &v).unwrap(); f.write_all(b"\n").unwrap();
        n += 1;
    }
    let mut work: Vec<Ty> = col.0.iter().copied().collect();
    let mut done: BTreeMap<Ty, ()> = BTreeMap::new();
    let mut nt = 0;
    while let Some(t) = work.pop() {
        if done.insert(t, ()).is_some() { continue; }
        let mut w2: Vec<Ty> = vec![];
        let v = match std::panic::catch_unwind(std::panic::AssertUnwindSafe(|| describe(t, &mut w2))) {
            Ok(v) => v,
            Err(_) => json!({"id": ty_id(&t), "display": "?", "info": {"k": "undescribable"}}),
        };
        work.extend(w2);
        serde_json::to_writer(&mut f, &json!({"rec": "ty", "ty": v})).unwrap(); f.write_all(b"\n").unwrap();
        nt += 1;
    }
    // external (std / third-party) monomorphic instances reachable from local bodies, bounded depth
    let maxd: usize = std::env::var("MIRDUMP_EXT_DEPTH").ok().and_then(|s| s.parse().ok()).unwrap_or(0);
    let mut next = 0;
    if maxd > 0 {
        let mut seen: BTreeSet<String> = BTreeSet::new();
        let mut frontier: Vec<(Instance, usize)> = vec![];
        let collect_calls = |body: &Body, out: &mut Vec<Instance>| {
            for b in &body.blocks {
                if let rustc_public::mir::TerminatorKind::Call { func, .. } = &b.terminator.kind {
                    if let Ok(fty) = func.ty(body.locals()) {
                        if let Some(TyKind::RigidTy(RigidTy::FnDef(def, args))) = safe_kind(&fty) {
                            if !has_param(&fty, 0) {
                                if let Ok(i) = Instance::resolve(def, &args) { out.push(i); }
                            }
                        }
                    }
                }
            }
        };
        for item in rustc_public::all_local_items() {
            if !item.has_body() { continue; }
            let body = item.expect_body();
            let mut v = vec![]; collect_calls(&body, &mut v);
            for i in v { frontier.push((i, 1)); }
        }
        while let Some((inst, d)) = frontier.pop() {
            let name = inst.mangled_name();
            if !seen.insert(name.clone()) { continue; }
            if !inst.has_body() { continue; }
            let nm = inst.name();
            if nm.starts_with("zksync_") || nm.starts_with("<zksync_") { continue; }
            let Some(body) = std::panic::catch_unwind(std::panic::AssertUnwindSafe(|| inst.body())).ok().flatten() else { continue; };
            let v = json!({ "rec": "ext", "name": nm, "mangled": name, "depth": d, "nblocks": body.blocks.len(),
                            "body": serde_json::to_value(&body).unwrap() });
            serde_json::to_writer(&mut f, &v).unwrap(); f.write_all(b"\n").unwrap();
            next += 1;
            if d < maxd { let mut v = vec![]; collect_calls(&body, &mut v); for i in v { frontier.push((i, d + 1)); } }
        }
    }
    eprintln!("mirdump: {} bodies, {} types, {} external instances -> {}", n, nt, next, path);
    ControlFlow::Continue(())
}

fn dump_break() -> ControlFlow<()> { let _ = dump(); ControlFlow::Break(()) }

fn main() {
    let args: Vec<String> = std::env::args().collect();
    let args: Vec<String> = if args.len() > 1 && args[1].ends_with("rustc") { args[1..].to_vec() } else { args };
    // 1. the real compiler produces the artifacts cargo expects
    let status = std::process::Command::new(&args[0]).args(&args[1..]).status().expect("spawn rustc");
    if !status.success() { std::process::exit(status.code().unwrap_or(1)); }
    // 2. analysis only (no artifacts), failures here never fail the build
    let is_probe = args.iter().any(|a| a == "-vV" || a.starts_with("--print"));
    let want = args.iter().position(|a| a == "--crate-name").and_then(|i| args.get(i + 1)).map(|n| n.starts_with("zksync_")).unwrap_or(false);
    if !is_probe && want {
        let a2 = args.clone();
        let _ = std::panic::catch_unwind(move || { let _ = run!(&a2, dump_break); });
    }
    std::process::exit(0);
}
