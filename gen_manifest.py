#!/usr/bin/env python3
"""writes MANIFEST.json from the table below (kept as a script so the manifest stays consistent)"""
import json
CHECKS = {
 'C07': dict(tech='MIR symbolic execution (mirsym) of the three threshold functions + z3 and cvc5 (integer encoding); Kani/CBMC cross-check in the thorough tier',
             text='solver verdict over every u64 total weight n >= 1 on the real MIR of max_faulty_weight / quorum_threshold / subquorum_threshold: no overflow/underflow assert reachable and the six intersection inequalities hold; Schedule::new stores the exact weight sum or rejects (committees up to 3/4 validators)',
             note='trusted: mirdump front end (rustc_public MIR), integer encoding of u64 with exact overflow asserts, z3/cvc5; Schedule::new part uses the native BTreeMap/Vec models', ref='4/C07'),
 'C11': dict(tech='MIR symbolic execution (mirsym) of Schedule::new / view_leader / leader_weighted_eligibility + z3; counterexamples replayed against the real crates',
             text='bounded: committees of 1..3 (quick) / 1..5 (thorough) validators, every leader-flag pattern, both modes, all input orders; within that every u64 weight, view and frequency (0 included) is covered by solver verdicts: no panic, result is leader-eligible, round-robin formula, weighted walk interval, order independence',
             note='trusted: native models of Vec/BTreeMap/iterators; keccak mod W abstracted as an arbitrary residue < W; symbolic/symbolic division as an uninterpreted function; statistical uniformity of Keccak is outside the claim', ref='4/C11'),
}
CHECKS['C02'] = dict(tech='MIR symbolic execution (mirsym) of get_implied_block / high_vote / high_qc / Signers::weight + z3; counterexamples replayed against the real crates',
    text='bounded (committees of 1..3 quick / 1..4 thorough, one timeout-vote entry per signer): one inductive step of the re-proposal rule (lock preservation lemma with non-vacuity twin), totality, and conformance of the real implied-block function to the reference model transcribed from spec/informal-spec/types.rs, for all weights, high votes and high certificates',
    note='trusted: native container models, opaque payload hashes; the induction over views that lifts the lemma to histories is a paper argument (with C03, C07); symmetry reduction over interchangeable validators', ref='4/C02')
CHECKS['C04'] = dict(tech='MIR symbolic execution (mirsym) of CommitQC/TimeoutQC verify+add, View/ReplicaCommit/ReplicaTimeout/ProposalJustification/LeaderProposal/ReplicaNewView/FinalBlock::verify with an ideal (ghost) signature model + z3',
    text='bounded (committees 1..3 / 1..4, <= 2 / 3 timeout-vote groups, bitmap lengths N-1..N+1, one nested certificate): verify()==Ok is equivalent to the acceptance condition of the statement on every path; no input panics; add()==Ok iff its condition and Err leaves the certificate unchanged; certificates assembled by add verify iff the weight reaches the quorum',
    note='trusted: ideal signature model (BLS itself, hashing, rogue keys outside), BitVec as list of Booleans, native container models', ref='4/C04')
CHECKS['C10'] = dict(tech='MIR symbolic execution (mirsym) sweep of every ProtoFmt::read body and of the pre-verification view extraction + z3; Kani/CBMC for the std_conv converters and the mux header codec',
    text='bounded (nesting depth <= 3, repeated fields <= 2): no panic / failed assert / unreachable reachable in any of the 50 message decoders on any symbolic proto struct, nor in view extraction on messages with arbitrary u64 numbers; converters of timestamps, durations, socket addresses, bit vectors decided bit-precisely by Kani over all field values',
    note='trusted: ByteFmt::decode of keys/signatures/hashes returns arbitrary Ok/Err; prost/quick-protobuf wire parsing, snow, tokio are outside; multi-frame sequences are outside', ref='4/C10')
CHECKS['C16'] = dict(tech='MIR symbolic execution (mirsym) of prunable_mpsc Sender::send / Receiver::recv instantiated with the real bft filter and selection functions + z3; counterexamples replayed through the real channel',
    text='bounded (<= 2 / 3 pending requests, all four message kinds): one send step from an arbitrary buffer satisfying one-per-(sender,kind) re-establishes the invariant, drops an entry only for an invalid signature or a same-class request of equal-or-higher view, keeps the maximum view per class and the arrival order; recv returns the front; all sender identities, views and signature validities covered symbolically',
    note='trusted: watch channel modelled as a cell (one send = one critical section), ideal signatures; concurrent senders and the replica-internal vote caches are outside this check', ref='4/C16')
CHECKS['C03'] = dict(tech='MIR symbolic execution (mirsym) of the replica handler coroutines (on_proposal, on_commit, on_timeout, on_new_view, start_timeout, start_new_view) with an effect log + z3',
    text='one handler step from an arbitrary replica state on an arbitrary input (N=2 quick / 2..3 thorough, symbolic weights, views, phases, certificates): commit/timeout vote discipline, (view, phase) monotonicity, and persist-before-send (every outbound message preceded by a successful set_state whose snapshot equals the state it was derived from) on every path',
    note='trusted: environment futures answered by contract, certificate verification summarised by the contract decided in C04, ideal signing; the lift from one-step obligations to whole runs with crashes is a paper induction; counterexamples are not yet replayed against the compiled replica (no bft hook)', ref='4/C03')
CHECKS['C05'] = dict(tech='MIR symbolic execution (mirsym) of the replica handler coroutines with an effect log + z3',
    text='one handler step from an arbitrary replica state: held certificates never decrease and are adopted only when accepted, view changes only with a certificate for the preceding view, every emitted new-view carries the highest certificate held (commit on ties), (view, phase) monotone',
    note='same trusted base as C03; conformance of the accept/reject classes to spec/informal-spec/replica.rs is covered only through these obligations, not as a full transition-relation comparison', ref='4/C03-C05')
CHECKS['C18'] = dict(tech='MIR symbolic execution (mirsym) of ValidatorAddrs::update, ValidatorAddrsWatch::update (coroutine) and NetAddress::is_newer + z3',
    text='bounded (committee of 2 / 3 plus an outsider, batches of <= 2 / 3 announcements): from an arbitrary authentic address book, Ok/Err classification and the resulting (and the published) book equal the specified ones on every path: only validly signed, member, strictly newer (version, timestamp) entries are stored, a rejected batch leaves the published book unchanged, two valid announcements commute',
    note='trusted: im::HashMap as association list, Watch as a mutex-guarded cell, ideal signatures; gossip scheduling outside', ref='4/C18')
CHECKS['C15'] = dict(tech='MIR symbolic execution (mirsym) of limiter State::advance, Permit::drop, Limiter::acquire (coroutine) + z3; Kani/CBMC bounded run of the real limiter file in the thorough tier',
    text='inductive step lemmas from an arbitrary state satisfying 0 <= reserved <= permits <= burst: invariant preserved, ticks never move backwards, permits grow by at most the elapsed ticks up to burst, a cancelled acquire changes nothing (drop glue executed), a grant reserves exactly the requested permits out of refreshed ones and writes the state only after the sleep; all states, permit counts and clock values symbolic',
    note='trusted: clock abstract (uninterpreted quotient), awaited futures by contract; the window bound is a telescoping argument over these lemmas (assumption) plus a bounded Kani run; per-connection RPC consequence not executed', ref='4/C15')
CHECKS['C08'] = dict(tech='Kani/CBMC on the real block_store.rs (small caches, derived capacity-2 copy) + MIR symbolic execution (mirsym) at the real capacity boundary and of EngineManager::queue_block + z3',
    text='one operation from an arbitrary invariant-satisfying store (cache lengths 0..3 by Kani, 99..102 by MIR execution): try_push appends exactly the next block, update_persisted never shrinks the durable range and resets the queue exactly when overtaken, eviction only of durable blocks down to the capacity, every queued block cached or durable; queue_block pushes only blocks that passed verification (pre-genesis bound + execution layer, or certificate under the epoch schedule)',
    note='trusted: each call atomic under the watch lock; blocks are pre-genesis blocks with opaque payloads; FinalBlock::verify summarised by its contract (C04); interleavings with background tasks and restart outside', ref='4/C08')
CHECKS['C12'] = dict(tech='MIR symbolic execution (mirsym) of the consensus and gossip handshake coroutines and of PoolWatch::insert/remove + z3',
    text='the four handshake functions accept iff the signed session id is this stream\'s id, the genesis matches, the signature is genuinely by the claimed key over this id and (outbound) the key is the dialled peer, for every symbolic received handshake (ideal signatures); pools: one insert/remove from an arbitrary pool (4 keys, symbolic quota) decides and updates per the specification, and the invariant survives a second complete insert interleaved at the lock acquisition',
    note='trusted: ideal signatures, frame I/O by contract, Watch as mutex-guarded cell; uniqueness of noise session ids (snow) assumed; accept loops outside', ref='4/C12')
CHECKS['C09'] = dict(tech='MIR symbolic execution (mirsym) of every ProtoFmt build/read pair + z3; Kani/CBMC for the std_conv scalar converters',
    text='PARTIAL: value-level losslessness read(build(x)) == Ok(x) for every workspace ProtoFmt type on fully symbolic values (Options both ways, repeated fields / vote maps <= 2 entries, valid Schedules built by the real constructor) and, bit-precisely by Kani, for Duration / Utc / SocketAddr / BitVec (lengths 0..17) / Rate. Byte-level canonicity (canonical_raw, prost / quick-protobuf, alternative serialisations) is NOT decided',
    note='trusted: leaf codecs of keys/signatures/hashes ideal (inverse bijections); two handshake types containing semver::Version / HashMap and Genesis (cached hash) are skipped and listed in the evidence', ref='4/C09')
CHECKS['C13'] = dict(tech='Kani/CBMC proof harnesses over the real noise/bytes.rs', engine='kani',
    text='PARTIAL: representation invariant and operation contracts of the noise Buffer from every reachable state (capacity 8, symbolic contents), the read-path frame consumption step and the frame-size constants; the poll_read/poll_write state machine, the cipher and tamper detection are NOT decided',
    note='trusted: Kani/CBMC, harness state generator shown to reach every begin <= end <= cap; snow/tokio outside', ref='4/C13')
NA = {
 'C01': 'agreement quantifies over all multi-node schedules x Byzantine behaviours x crash points of the async replica system; no bounded solver encoding of the real replicas is within reach (its local obligations are decided under C02, C03, C04, C05, C07, C11)',
 'C06': 'liveness over fair infinite suffixes from adversarially reached states; not expressible as a bounded symbolic-execution query',
 'C14': 'guarantees arise from interleavings of many tokio tasks (semaphores, channels); neither Kani nor the sequential MIR executor models concurrency',
 'C17': 'statement over all task trees under all thread schedules of the tokio runtime; out of reach of sequential symbolic execution',
 'C19': 'lost-wake-up / double-accept freedom of a watch-guarded hand-over protocol is an interleaving property of concurrent tasks',
}
PENDING = {}   # properties whose checks are not built yet are listed as not applicable *for now* with that reason
import os
def main():
    checks = []
    for pid, c in sorted(CHECKS.items()):
        checks.append(dict(property_id=pid, quick_cmd=f'./check {pid} --tier quick', thorough_cmd=f'./check {pid} --tier thorough', evidence_file=f'/verif/evidence/{pid}.json',
                           replay_cmd_template='cd /verif/replay-crate && cp {path} tests/ && cargo test --offline --test $(basename {path} .rs) --target-dir /verif/target/replay',
                           engine=c.get('engine', 'mirsym'), level_claimed=dict(category='model_checking', text=c['text'], design_ref=c['ref']), level_note=c['note'], technique=c['tech']))
    na = [dict(property_id=k, reason=v) for k, v in sorted({**NA, **PENDING}.items()) if k not in CHECKS]
    all_ids = [json.loads(l)['id'] for l in open('/verif/properties.jsonl')]
    for pid in all_ids:
        if pid not in CHECKS and pid not in NA and pid not in PENDING:
            na.append(dict(property_id=pid, reason='check not built yet in this session (planned, see DESIGN.md section 4); nothing is claimed'))
    m = dict(version=1, setup_cmd='python3-vt /verif/lib/setup.py',
             hooks=dict(guard='era_consensus_verif', enable='RUSTFLAGS="--cfg era_consensus_verif" — only the counterexample replays of the replica handlers are built with it (they drive the real StateMachine one step at a time through zksync_consensus_bft::verif_hooks); the deciding checks need no hook: the MIR front end sees private items, Kani harnesses path-include the real files',
                        baseline_off_cmd='cd /repo/node && cargo test --workspace --no-fail-fast --offline', source_commits=['9cdb319ce1e35bc750f8b0db20dcc74b10c2fa25'], add_only=True),
             engines=[dict(name='mirsym', path='/verif/lib/mirsym', serves_properties=sorted(CHECKS), kind_free_text='symbolic execution of rustc MIR (dumped from /repo by /verif/mirdump via rustc_public on every run) with z3; cvc5 cross-check on final queries'),
                      dict(name='kani', path='/verif/kani', serves_properties=[], kind_free_text='Kani 0.68 / CBMC harness crates over the real source files')],
             checks=checks, not_applicable=sorted(na, key=lambda x: x['property_id']),
             notes='exit 0 = all obligations discharged; exit 1 = violation reproduced against the real crates; exit 2 = inconclusive (never a pass). Known findings: /verif/known_findings.json')
    json.dump(m, open('/verif/MANIFEST.json', 'w'), indent=1)
main()
