#!/usr/bin/env python3
"""Runner for the Kani (engine K) harness crates under /verif/kani.

Importable:
    run_harness(crate, harness, timeout_s, mem_gb, target_dir=None, extra_args=()) -> dict
    concrete_playback(crate, harness) -> str | None
    load_harnesses() -> list[dict]            (contents of /verif/kani/harnesses.json)

CLI:
    python3 /verif/lib/kani_runner.py <crate> <harness> [--timeout S] [--mem GB]
    python3 /verif/lib/kani_runner.py --all [--tier quick|thorough] [-j N] [--crate C] [--json]
    python3 /verif/lib/kani_runner.py --playback <crate> <harness>

harnesses.json entries: property, crate, harness, tier (quick|thorough), expect (pass|known_fail),
finding, expect_failure_contains (known_fail only: substring every failed check must contain),
timeout_s, mem_gb, functions, bounds, stubs, asserts, measured_*.
--all exit code: 0 all as expected, 1 something unexpected (a pass that should fail, a fail that
should pass, a known failure failing differently), 2 at least one inconclusive.

Verdict rules (never optimistic):
    pass          `VERIFICATION:- SUCCESSFUL` AND >= 1 cover property AND all cover properties
                  SATISFIED AND no failed check AND no unwinding-assertion failure.
    fail          `VERIFICATION:- FAILED` with >= 1 genuinely failed check (an assertion, an
                  arithmetic/bounds/pointer check, a reachable panic) and no unwinding failure.
    inconclusive  everything else: compile error, kani-compiler ICE, CBMC crash / OOM / time-out,
                  `Status: ERROR`, unsupported construct reached, failed unwinding assertion
                  ("unwind bound too small"), unsatisfied cover ("vacuous"), unparsable output.

Python 3 standard library only.
"""
import argparse
import json
import os
import re
import resource
import shutil
import signal
import subprocess
import sys
import threading
import time

VERIF = os.environ.get("VERIF_ROOT", "/verif")
REPO_LOCK = os.environ.get("VERIF_REPO_LOCK", "/repo/node/Cargo.lock")
KANI_DIR = os.environ.get("VERIF_KANI_DIR", os.path.join(VERIF, "kani"))   # developer override, see framework.py
TARGET = os.environ.get("VERIF_TARGET", os.path.join(VERIF, "target"))
LOG_DIR = os.path.join(TARGET, "logs")
HARNESSES_JSON = os.path.join(KANI_DIR, "harnesses.json")

_PAGE = os.sysconf("SC_PAGE_SIZE")

# ----------------------------------------------------------------------------------------------
# process handling
# ----------------------------------------------------------------------------------------------


def _session_rss_kb(sid):
    """Sum of RSS (kB) and the largest single RSS over all processes in session `sid`."""
    total = 0
    biggest = 0
    for pid in os.listdir("/proc"):
        if not pid.isdigit():
            continue
        try:
            with open("/proc/%s/stat" % pid, "rb") as f:
                data = f.read().decode("ascii", "replace")
        except OSError:
            continue
        # comm may contain spaces/parentheses: split after the last ')'
        rp = data.rfind(")")
        fields = data[rp + 2:].split()
        # fields[0] = state, [3] = session (field 6 overall), [21] = rss pages (field 24 overall)
        try:
            if int(fields[3]) != sid:
                continue
            rss = int(fields[21]) * _PAGE // 1024
        except (IndexError, ValueError):
            continue
        total += rss
        biggest = max(biggest, rss)
    return total, biggest


_ACTIVE_SESSIONS = set()
_ACTIVE_LOCK = threading.Lock()


def kill_active_sessions():
    """Kill every cargo-kani/cbmc process tree started by this module (used on SIGTERM/SIGINT)."""
    with _ACTIVE_LOCK:
        sids = list(_ACTIVE_SESSIONS)
    for sid in sids:
        try:
            os.killpg(sid, signal.SIGKILL)
        except (ProcessLookupError, PermissionError):
            pass


def _run(cmd, cwd, env, log_path, timeout_s, mem_gb):
    """Run `cmd` in its own session with RLIMIT_AS = mem_gb, output to log_path.

    Returns (exit_code | None, timed_out, wall_s, peak_rss_mb).  On time-out the whole session
    (cargo, kani-driver, goto-instrument, cbmc, ...) gets SIGKILL.
    """
    limit = int(mem_gb * (1 << 30)) if mem_gb else None

    def pre():
        os.setsid()
        if limit:
            resource.setrlimit(resource.RLIMIT_AS, (limit, limit))
        # no core dumps of a 10 GB cbmc
        resource.setrlimit(resource.RLIMIT_CORE, (0, 0))

    t0 = time.time()
    with open(log_path, "wb") as log:
        log.write(("$ cd %s && %s\n" % (cwd, " ".join(cmd))).encode())
        log.flush()
        proc = subprocess.Popen(cmd, cwd=cwd, env=env, stdout=log, stderr=subprocess.STDOUT,
                                stdin=subprocess.DEVNULL, preexec_fn=pre)
        sid = proc.pid
        with _ACTIVE_LOCK:
            _ACTIVE_SESSIONS.add(sid)
        peak = [0]
        stop = threading.Event()

        def watch():
            while not stop.wait(1.0):
                _, big = _session_rss_kb(sid)
                if big > peak[0]:
                    peak[0] = big

        th = threading.Thread(target=watch, daemon=True)
        th.start()
        timed_out = False
        try:
            code = proc.wait(timeout=timeout_s)
        except subprocess.TimeoutExpired:
            timed_out = True
            code = None
        finally:
            stop.set()
        # kill whatever is left in the session (on time-out: everything)
        for sig in (signal.SIGKILL,):
            try:
                os.killpg(sid, sig)
            except (ProcessLookupError, PermissionError):
                pass
        try:
            proc.wait(timeout=10)
        except subprocess.TimeoutExpired:
            pass
        th.join(timeout=2)
        with _ACTIVE_LOCK:
            _ACTIVE_SESSIONS.discard(sid)
    return code, timed_out, time.time() - t0, peak[0] / 1024.0


def _env():
    env = dict(os.environ)
    env["CARGO_NET_OFFLINE"] = "true"
    env["CARGO_TERM_COLOR"] = "never"
    env.setdefault("RUST_BACKTRACE", "0")
    # Kani selects its own pinned toolchain.
    env.pop("RUSTUP_TOOLCHAIN", None)
    env.pop("RUSTC_WORKSPACE_WRAPPER", None)
    env.pop("RUSTC_WRAPPER", None)
    return env


def _crate_dir(crate):
    d = os.path.join(KANI_DIR, crate)
    if not os.path.isfile(os.path.join(d, "Cargo.toml")):
        raise FileNotFoundError("no harness crate %s" % d)
    return d


def _qualified(harness):
    """All harnesses live in `mod proofs` at the crate root; `--exact` wants the full path (without
    it `--harness x_len1` would also select `x_len10`)."""
    return harness if "::" in harness else "proofs::" + harness


def _refresh_lock(crate_dir):
    """The lock file of the checked repository is the source of truth for dependency versions."""
    shutil.copyfile(REPO_LOCK, os.path.join(crate_dir, "Cargo.lock"))


# ----------------------------------------------------------------------------------------------
# output parsing
# ----------------------------------------------------------------------------------------------

_RE_CHECK = re.compile(r"^Check (\d+): (\S+)\s*$")
_RE_STATUS = re.compile(r"^\s+- Status: (\S+)")
_RE_DESC = re.compile(r"^\s+- Description: \"(.*)\"\s*$")
_RE_LOC = re.compile(r"^\s+- Location: (.*)$")
_RE_SUMMARY = re.compile(r"^ \*\* (\d+) of (\d+) failed")
_RE_COVER = re.compile(r"^ \*\* (\d+) of (\d+) cover properties satisfied")
_RE_TIME = re.compile(r"^Verification Time: ([0-9.]+)s")
_RE_VERDICT = re.compile(r"^VERIFICATION:- (SUCCESSFUL|FAILED)")
_RE_FAILED_FILE = re.compile(r'^ File: "(.*)", line (\d+), in (.*)$')

_RE_OOM = re.compile(r"CBMC appears to have run out of memory|Solver ran out|std::bad_alloc|[Oo]ut of memory|memory exhausted|"
                     r"memory allocation of \d+ bytes failed|Cannot allocate memory")
_RE_CBMC_FAILED = re.compile(r"^CBMC failed|^CBMC timed out|CBMC crashed", re.M)
# (pattern, reason) tried in order when the log contains no VERIFICATION verdict
_NO_VERDICT_PATTERNS = [
    (re.compile(r"^error: internal compiler error|^thread 'rustc' panicked|Kani unexpectedly panicked", re.M),
     "kani-compiler crashed (ICE)"),
    (re.compile(r"^error: Failed to match the following harness", re.M), "harness not found"),
    (_RE_OOM, "out of memory"),
    (re.compile(r"^error(\[E\d+\])?: |^error: could not compile", re.M), "compile error"),
    (_RE_CBMC_FAILED, "CBMC failed"),
]
# with a FAILED verdict: CBMC itself did not finish
_FAILED_VERDICT_PATTERNS = [(_RE_OOM, "out of memory"), (_RE_CBMC_FAILED, "CBMC failed")]


def parse_log(text):
    """Extract the facts the verdict is built from. Lines longer than 4000 characters (CBMC's
    'Unwinding loop ...' progress lines with mangled names) are skipped."""
    checks = []          # dicts: id, name, status, description, location
    cur = None
    verdicts = []
    summary = None
    cover = None
    vtime = None
    failed_section = []  # (description, location) from the "Failed Checks:" epilogue
    status_error = False
    pending_failed_desc = None
    for raw in text.splitlines():
        if len(raw) > 4000:
            continue
        line = raw.rstrip("\r")
        m = _RE_CHECK.match(line)
        if m:
            cur = {"id": int(m.group(1)), "name": m.group(2), "status": None,
                   "description": "", "location": ""}
            checks.append(cur)
            continue
        if cur is not None:
            m = _RE_STATUS.match(line)
            if m:
                cur["status"] = m.group(1)
                if m.group(1) == "ERROR":
                    status_error = True
                continue
            m = _RE_DESC.match(line)
            if m:
                cur["description"] = m.group(1)
                continue
            m = _RE_LOC.match(line)
            if m:
                cur["location"] = m.group(1).strip()
                continue
        if line.startswith("Status: ERROR") or line.strip() == "- Status: ERROR":
            status_error = True
        m = _RE_SUMMARY.match(line)
        if m:
            summary = (int(m.group(1)), int(m.group(2)))
            cur = None
            continue
        m = _RE_COVER.match(line)
        if m:
            cover = (int(m.group(1)), int(m.group(2)))
            continue
        m = _RE_TIME.match(line)
        if m:
            vtime = float(m.group(1))
            continue
        m = _RE_VERDICT.match(line)
        if m:
            verdicts.append(m.group(1))
            continue
        if line.startswith("Failed Checks: "):
            pending_failed_desc = line[len("Failed Checks: "):].strip()
            failed_section.append([pending_failed_desc, ""])
            continue
        m = _RE_FAILED_FILE.match(line)
        if m and failed_section and not failed_section[-1][1]:
            failed_section[-1][1] = "%s:%s in %s" % (m.group(1), m.group(2), m.group(3))
            continue
    return {"checks": checks, "verdicts": verdicts, "summary": summary, "cover": cover,
            "vtime": vtime, "failed_section": failed_section, "status_error": status_error}


def _is_cover(c):
    return ".cover." in c["name"] or c["name"].endswith(".cover") or c["status"] in (
        "SATISFIED", "UNSATISFIABLE", "UNSATISFIED")


def _is_unwind(c_or_desc):
    if isinstance(c_or_desc, dict):
        return ".unwind." in c_or_desc["name"] or c_or_desc["description"].startswith("unwinding assertion")
    return c_or_desc.startswith("unwinding assertion")


def _is_unsupported(desc, name=""):
    return ("not currently supported by Kani" in desc or "unsupported_construct" in name
            or "is not supported" in desc and "Kani" in desc)


def classify(text, exit_code, timed_out):
    """Returns the verdict part of the result dict from the full log text."""
    p = parse_log(text)
    checks = p["checks"]
    asserts = [c for c in checks if not _is_cover(c)]
    covers = [c for c in checks if _is_cover(c)]
    failed = [c for c in asserts if c["status"] == "FAILURE"]
    res = {
        "status": "inconclusive",
        "reason": "",
        "checks_total": 0,
        "checks_failed": 0,
        "failed_checks": [],
        "cover_satisfied": 0,
        "cover_total": 0,
        "verification_time_s": p["vtime"],
    }
    if p["summary"]:
        res["checks_failed"], res["checks_total"] = p["summary"]
    elif asserts:
        res["checks_total"] = len(asserts)
        res["checks_failed"] = len(failed)
    if p["cover"]:
        res["cover_satisfied"], res["cover_total"] = p["cover"]
    elif covers:
        res["cover_total"] = len(covers)
        res["cover_satisfied"] = sum(1 for c in covers if c["status"] == "SATISFIED")

    # failed check descriptions (prefer the per-check records: they carry file:line:col)
    descr = []
    for c in failed:
        descr.append("%s [%s] @ %s" % (c["description"], c["name"], c["location"] or "?"))
    if not descr:
        for d, loc in p["failed_section"]:
            descr.append("%s @ %s" % (d, loc or "?"))
    res["failed_checks"] = descr[:8]

    unwind_failed = any(_is_unwind(c) for c in failed) or any(_is_unwind(d) for d, _ in p["failed_section"])
    unsupported = any(_is_unsupported(c["description"], c["name"]) for c in failed) or any(
        _is_unsupported(d) for d, _ in p["failed_section"])
    real_failed = [c for c in failed if not _is_unwind(c) and not _is_unsupported(c["description"], c["name"])]
    if not failed:
        real_failed_n = sum(1 for d, _ in p["failed_section"] if not _is_unwind(d) and not _is_unsupported(d))
    else:
        real_failed_n = len(real_failed)

    if timed_out:
        res["reason"] = "timeout"
        return res
    if len(p["verdicts"]) != 1:
        # no verdict (or several: should not happen with --harness): infrastructure problem
        for rx, why in _NO_VERDICT_PATTERNS:
            if rx.search(text):
                res["reason"] = why
                break
        else:
            res["reason"] = "no VERIFICATION verdict in output (exit code %s)" % exit_code
        if exit_code is not None and exit_code < 0:
            res["reason"] += " (killed by signal %d)" % -exit_code
        return res
    verdict = p["verdicts"][0]
    if p["status_error"]:
        res["reason"] = "a check has Status: ERROR (the solver gave up, usually the memory limit)"
        return res
    if unwind_failed:
        res["reason"] = "unwind bound too small"
        if real_failed_n:
            res["reason"] += " (and %d other failed checks)" % real_failed_n
        return res
    if verdict == "SUCCESSFUL":
        if res["checks_failed"] != 0 or failed:
            res["reason"] = "SUCCESSFUL verdict but failed checks listed"
            return res
        if res["checks_total"] == 0:
            res["reason"] = "no checks reported"
            return res
        if res["cover_total"] == 0:
            res["reason"] = "no cover property (vacuity witness missing)"
            return res
        if res["cover_satisfied"] != res["cover_total"]:
            res["reason"] = "vacuous: %d of %d cover properties satisfied" % (
                res["cover_satisfied"], res["cover_total"])
            return res
        if exit_code != 0:
            res["reason"] = "SUCCESSFUL verdict but exit code %s" % exit_code
            return res
        res["status"] = "pass"
        res["reason"] = "all checks successful, all cover properties satisfied"
        return res
    # verdict == FAILED
    for rx, why in _FAILED_VERDICT_PATTERNS:
        if rx.search(text):
            res["reason"] = why
            return res
    if unsupported:
        res["reason"] = "construct not supported by Kani reached"
        return res
    if real_failed_n >= 1:
        res["status"] = "fail"
        res["reason"] = "%d failed checks" % real_failed_n
        return res
    if res["cover_total"] and res["cover_satisfied"] != res["cover_total"] and res["checks_failed"] == 0:
        res["reason"] = "vacuous: %d of %d cover properties satisfied" % (
            res["cover_satisfied"], res["cover_total"])
        return res
    res["reason"] = "FAILED verdict without an identifiable failed check"
    return res


# ----------------------------------------------------------------------------------------------
# public API
# ----------------------------------------------------------------------------------------------


def run_harness(crate, harness, timeout_s, mem_gb, target_dir=None, extra_args=()):
    """Run one Kani proof harness of /verif/kani/<crate>. See the module docstring."""
    cdir = _crate_dir(crate)
    os.makedirs(LOG_DIR, exist_ok=True)
    target_dir = target_dir or os.path.join(TARGET, "kani-%s" % crate)
    log_path = os.path.join(LOG_DIR, "kani-%s-%s.log" % (crate, harness))
    out = {"crate": crate, "harness": harness, "status": "inconclusive", "reason": "",
           "checks_total": 0, "checks_failed": 0, "failed_checks": [], "cover_satisfied": 0,
           "cover_total": 0, "verification_time_s": None, "wall_s": 0.0, "peak_rss_mb": None,
           "log": log_path}
    try:
        _refresh_lock(cdir)
    except OSError as e:
        out["reason"] = "cannot copy %s: %s" % (REPO_LOCK, e)
        return out
    cmd = ["cargo", "kani", "--harness", _qualified(harness), "--exact", "-Z", "stubbing",
           "--target-dir", target_dir] + list(extra_args)
    code, timed_out, wall, peak = _run(cmd, cdir, _env(), log_path, timeout_s, mem_gb)
    try:
        with open(log_path, "r", errors="replace") as f:
            text = f.read()
    except OSError:
        text = ""
    out.update(classify(text, code, timed_out))
    out["wall_s"] = round(wall, 1)
    out["peak_rss_mb"] = round(peak) if peak else None
    out["exit_code"] = code
    return out


_RE_FENCE = re.compile(r"^```\s*$", re.M)


def concrete_playback(crate, harness, timeout_s=1800, mem_gb=16, target_dir=None):
    """Re-run a failing harness with `-Z concrete-playback --concrete-playback=print`; returns the
    generated Rust unit test(s) as text, or None if Kani produced none."""
    cdir = _crate_dir(crate)
    os.makedirs(LOG_DIR, exist_ok=True)
    target_dir = target_dir or os.path.join(TARGET, "kani-%s" % crate)
    log_path = os.path.join(LOG_DIR, "kani-%s-%s.playback.log" % (crate, harness))
    try:
        _refresh_lock(cdir)
    except OSError:
        return None
    cmd = ["cargo", "kani", "--harness", _qualified(harness), "--exact", "-Z", "stubbing",
           "-Z", "concrete-playback", "--concrete-playback=print", "--target-dir", target_dir]
    _run(cmd, cdir, _env(), log_path, timeout_s, mem_gb)
    try:
        with open(log_path, "r", errors="replace") as f:
            text = f.read()
    except OSError:
        return None
    tests = []
    lines = text.splitlines()
    i = 0
    while i < len(lines):
        if lines[i].strip() == "```" and i + 1 < len(lines) and (
                lines[i + 1].lstrip().startswith("#[test]") or lines[i + 1].lstrip().startswith("/// Test generated")):
            j = i + 1
            body = []
            while j < len(lines) and lines[j].strip() != "```":
                if len(lines[j]) <= 100000:
                    body.append(lines[j])
                j += 1
            tests.append("\n".join(body))
            i = j + 1
        else:
            i += 1
    return "\n\n".join(tests) if tests else None


def load_harnesses(path=HARNESSES_JSON):
    with open(path) as f:
        return json.load(f)


def expected_status(entry):
    return {"pass": "pass", "known_fail": "fail"}[entry.get("expect", "pass")]


def run_all(tier=None, jobs=4, crates=None, entries=None, progress=None):
    """Run every harness of harnesses.json (of the given tier: 'quick' = quick only, 'thorough' =
    quick + thorough, None = everything). Different crates run in parallel (at most `jobs`), the
    harnesses of one crate sequentially (they share a target dir, hence cargo's lock)."""
    entries = entries if entries is not None else load_harnesses()
    if tier == "quick":
        entries = [e for e in entries if e.get("tier", "quick") == "quick"]
    if crates:
        entries = [e for e in entries if e["crate"] in crates]
    by_crate = {}
    for e in entries:
        by_crate.setdefault(e["crate"], []).append(e)
    results = []
    lock = threading.Lock()
    sem = threading.Semaphore(max(1, jobs))

    def worker(crate, es):
        with sem:
            for e in es:
                r = run_harness(crate, e["harness"], e.get("timeout_s", 600), e.get("mem_gb", 12))
                r["property"] = e.get("property")
                r["tier"] = e.get("tier", "quick")
                r["expect"] = e.get("expect", "pass")
                r["finding"] = e.get("finding")
                r["as_expected"] = (r["status"] == expected_status(e))
                # a known failure must be THE known failure: every failed check has to match
                want = e.get("expect_failure_contains")
                if r["as_expected"] and r["status"] == "fail" and want:
                    if not r["failed_checks"] or not all(want in d for d in r["failed_checks"]):
                        r["as_expected"] = False
                        r["reason"] += "; failed for another reason than the known one (%r)" % want
                with lock:
                    results.append(r)
                    if progress:
                        progress(r)

    threads = [threading.Thread(target=worker, args=(c, es)) for c, es in by_crate.items()]
    for t in threads:
        t.start()
    for t in threads:
        t.join()
    order = {(e["crate"], e["harness"]): i for i, e in enumerate(entries)}
    results.sort(key=lambda r: order.get((r["crate"], r["harness"]), 1 << 30))
    return results


def _fmt_row(r):
    vt = "%.1f" % r["verification_time_s"] if r.get("verification_time_s") is not None else "-"
    rss = "%d" % r["peak_rss_mb"] if r.get("peak_rss_mb") else "-"
    tag = "ok" if r.get("as_expected") else "UNEXPECTED"
    return "%-5s %-11s %-36s %-8s %-12s %-10s %6s/%-6s %3s/%-3s %8s %8.1f %7s  %s" % (
        r.get("property") or "", r["crate"], r["harness"], r.get("tier", ""),
        r["status"], r.get("expect", ""), r["checks_failed"], r["checks_total"],
        r["cover_satisfied"], r["cover_total"], vt, r["wall_s"], rss,
        tag + ("" if r["status"] == "pass" else "  [" + r["reason"] + "]"))


_HEADER = "%-5s %-11s %-36s %-8s %-12s %-10s %13s %7s %8s %8s %7s  %s" % (
    "prop", "crate", "harness", "tier", "status", "expect", "failed/checks", "cover", "verif_s",
    "wall_s", "rss_MB", "")


def main(argv=None):
    ap = argparse.ArgumentParser(description=__doc__, formatter_class=argparse.RawDescriptionHelpFormatter)
    ap.add_argument("crate", nargs="?")
    ap.add_argument("harness", nargs="?")
    ap.add_argument("--all", action="store_true")
    ap.add_argument("--tier", choices=["quick", "thorough"], default=None)
    ap.add_argument("--crate", dest="only_crates", action="append")
    ap.add_argument("-j", "--jobs", type=int, default=4)
    ap.add_argument("--timeout", type=float, default=None)
    ap.add_argument("--mem", type=float, default=None)
    ap.add_argument("--json", action="store_true", help="with --all: print the result list as JSON")
    ap.add_argument("--playback", action="store_true")
    a = ap.parse_args(argv)

    def on_signal(signum, _frame):
        kill_active_sessions()
        os._exit(128 + signum)
    signal.signal(signal.SIGTERM, on_signal)
    signal.signal(signal.SIGINT, on_signal)

    if a.all:
        def progress(r):
            sys.stderr.write(_fmt_row(r) + "\n")
            sys.stderr.flush()
        sys.stderr.write(_HEADER + "\n")
        results = run_all(a.tier, a.jobs, a.only_crates, progress=progress)
        if a.json:
            print(json.dumps(results, indent=1))
        else:
            print(_HEADER)
            for r in results:
                print(_fmt_row(r))
            n_ok = sum(1 for r in results if r["as_expected"])
            print("\n%d harnesses, %d as expected, %d unexpected (%d inconclusive)" % (
                len(results), n_ok, len(results) - n_ok,
                sum(1 for r in results if r["status"] == "inconclusive")))
        if any(r["status"] == "inconclusive" for r in results):
            return 2
        return 0 if all(r["as_expected"] for r in results) else 1

    if not a.crate or not a.harness:
        ap.error("need <crate> <harness>, or --all")
    if a.playback:
        t = concrete_playback(a.crate, a.harness)
        print(t if t is not None else "null")
        return 0 if t else 2
    timeout_s, mem_gb = a.timeout, a.mem
    if timeout_s is None or mem_gb is None:
        try:
            for e in load_harnesses():
                if e["crate"] == a.crate and e["harness"] == a.harness:
                    timeout_s = timeout_s or e.get("timeout_s")
                    mem_gb = mem_gb or e.get("mem_gb")
        except (OSError, ValueError):
            pass
    r = run_harness(a.crate, a.harness, timeout_s or 600, mem_gb or 12)
    print(json.dumps(r, indent=1))
    return {"pass": 0, "fail": 1}.get(r["status"], 2)


if __name__ == "__main__":
    sys.exit(main())
