"""C08 — hand-over to durable storage: the block-persisting task of `EngineManagerRunner::run`
(the async block `run::{closure#0}::{closure#1}::{closure#0}::{closure#1}`) executed from its real initial state
(queue_next = 0) for a bounded number of loop iterations. At every wait the block store is an ARBITRARY store
satisfying the representation invariant (other tasks queue blocks / report persistence in between); the real selection
closure `|bs| bs.block(queue_next.max(bs.persisted.next()))` and the real `BlockStore::block` run on it; the storage
call `EngineInterface::queue_next_block` is answered by contract (Ok / error).
Obligations on the sequence b1, b2, ... of submitted block numbers: strictly increasing, each one either directly
follows the previous submission or is the block right after the durable head the task observed, and the submitted
block is the stored block of that number."""
import time
import z3
from mirsym.core import (Exec, explore, solve, Num, Agg, Ref, Cell, Opaque, Unmodelled, BoundExceeded, num_cmp, to_z3_bool, UNIT)
from mirsym import env, models as M
from mirsym.models import some, none, ok, err, ready, pending, BoxV, deref_all
from mirsym.mk import Mk, fld
from props import coro, c08
from props.coro import EnvFuture, CANCELED
from props.c11 import panic_key
import framework as F

TASK = r'zksync_consensus_engine::manager::EngineManagerRunner::run::\{closure#0\}::\{closure#1\}::\{closure#0\}::\{closure#1\}'


def zb(x): return to_z3_bool(x)


class LightStore:
    pass


def light_store(ex, db, L, tag):
    """an arbitrary store satisfying the representation invariant with a cache of L blocks (few case splits: the durable
    range is empty-as-None or non-empty, the queued range is non-empty whenever the cache is)"""
    mk = Mk(db, c08.ENG); V = c08.V; BS = c08.BS; LIM = c08.LIM
    st = LightStore(); st.L = L
    st.pf = ex.fresh(f'pf{tag}'); st.pn = ex.fresh(f'pn{tag}'); st.qf = ex.fresh(f'qf{tag}'); st.qn = ex.fresh(f'qn{tag}')
    pf, pn, qf, qn = st.pf.e, st.pn.e, st.qf.e, st.qn.e
    ex.assume(z3.And(pf <= pn, qf <= qn, pn <= qn, pf <= qf, qn < LIM, qn - L >= 0, qn - L <= pn))
    bn = lambda e: mk.tuple_struct(V + r'block::BlockNumber', Num(e, 64))
    def blk(i):
        pg = mk.adt(V + r'block::PreGenesisBlock', number=bn(qn - L + i), payload=Opaque(('payload', tag, i)), justification=Opaque(('just', tag, i)))
        return mk.adt(V + r'block::Block', 'PreGenesis', _0=pg)
    st.blocks = [blk(i) for i in range(L)]
    if ex.choose(2, f'durable_empty{tag}') == 0:
        ex.assume(pn == pf); plast = none()
    else:
        ex.assume(pn > pf); plast = some(mk.adt(BS + 'Last', 'PreGenesis', _0=bn(pn - 1)))
    if L == 0 and ex.choose(2, f'queue_empty{tag}') == 0:
        ex.assume(qn == qf); qlast = none()
    else:
        ex.assume(qn > qf); qlast = some(mk.adt(BS + 'Last', 'PreGenesis', _0=bn(qn - 1)))
    st.value = mk.adt(BS + 'BlockStore', queued=mk.adt(BS + 'BlockStoreState', first=bn(qf), last=qlast), persisted=mk.adt(BS + 'BlockStoreState', first=bn(pf), last=plast), cache=M.VecV(list(st.blocks), 'deque'))
    return st


def run(rep, db, tier):
    name = 'persist task: blocks handed to storage in order, without gaps or repeats'
    t0 = time.time()
    iters = 2 if tier == 'quick' else 3
    ex = Exec(db, loop_bound=iters + 3)
    env.install(ex); env.install_ideal_crypto(ex); coro.install_futures(ex)
    cur = [None]
    n_before = len(ex.user_models)
    ex.model(r'<.* as tracing::Instrument>::instrument|tracing::Instrument::instrument', lambda e, n, a: a[0])
    ex.model(r'<tracing::instrument::Instrumented<.*> as std::future::IntoFuture>::into_future', lambda e, n, a: a[0])
    ex.model(r'<tracing::instrument::Instrumented<.*> as std::future::Future>::poll', lambda e, n, a: coro.poll_value(e, coro.unpin(a[0])))

    def subscribe(e, n, a):
        return coro.WatchReceiver(cur[0]['watch'])
    ex.model(r'(tokio|zksync_concurrency)::sync::watch::Sender::<.*>::subscribe', subscribe)

    def wait_for_some(e, n, a):
        pred = a[2]
        def respond(e2):
            s = cur[0]; s['waits'] += 1
            if s['waits'] > s['iters']: return pending()
            # other tasks ran: an arbitrary store satisfying the invariant (cache of 0..2 blocks)
            L = e2.choose(3, f'cache_len{s["waits"]}')
            st = light_store(e2, db, L, s['waits']); s['watch'].cell.v = st.value
            r = e2.call_closure(pred, [Ref(s['watch'].cell)])
            if r.variant == 0:
                return pending() if e2.choose(2, 'wait_cancel') else ready(err(CANCELED))
            s['log'].append(('selected', r.fields[0], st))
            return ready(ok(r.fields[0]))
        return EnvFuture('wait_for_some', respond)
    ex.model_path('zksync_concurrency::sync::wait_for_some', wait_for_some)

    def queue_next_block(e, n, a):
        blk = a[2]
        def respond(e2):
            s = cur[0]
            s['log'].append(('submit', blk))
            if e2.choose(2, 'storage_fails') == 0: return ready(err(Opaque('ctx::Error')))
            return ready(ok(UNIT))
        return EnvFuture('queue_next_block', respond)
    ex.model(r'.*EngineInterface.*::queue_next_block(::<.*>)?', queue_next_block)
    mine = ex.user_models[n_before:]; del ex.user_models[n_before:]
    ex.user_models[0:0] = mine; ex._um_cache = {}

    ks = db.find(TASK, kinds=('inst',))
    if len(ks) != 1:
        rep.add(F.Obligation(name, 'inconclusive', f'persist task coroutine not found uniquely ({len(ks)} candidates): the structure of EngineManagerRunner::run changed')); return
    key = ks[0]
    rec = db.body(key)
    co_t = db.ty(rec['crate'], db.ty(rec['crate'], db.ty(rec['crate'], rec['body']['locals'][1]['ty'])['info']['variants'][0]['fields'][0]['ty'])['info']['to']) if False else None
    mk = Mk(db, c08.ENG)

    def body(ex):
        s = dict(log=[], waits=0, iters=iters); cur[0] = s
        st0 = light_store(ex, db, 0, 'init')
        watch = M.WatchV(st0.value); s['watch'] = watch
        # EngineManager with the fields the task touches
        mgr_t = mk.ty(r'zksync_consensus_engine::manager::EngineManager')
        vals = {}
        for f in mgr_t['info']['variants'][0]['fields']:
            vals[f['name']] = watch if f['name'] == 'block_store' else (BoxV(Opaque('engine_interface')) if f['name'] == 'interface' else Opaque('mgr_' + f['name']))
        mgr = Agg('adt', mgr_t, 0, [vals[f['name']] for f in mgr_t['info']['variants'][0]['fields']])
        runner = mk.tuple_struct(r'zksync_consensus_engine::manager::EngineManagerRunner', BoxV(mgr))
        # upvars of the async block: (&self, &ctx) in capture order; identified by type below
        up_t = rec.get('upvar_tys')
        co = Agg('coroutine', {'display': 'persist task', 'info': {'k': 'coroutine', 'name': 'persist task', 'resolved': {'key': key}}}, 0, [Ref(Cell(BoxV(mgr))), Ref(Cell(Ref(Cell(Opaque('ctx')))))])  # edition-2021 precise capture: (&self.0, &ctx)
        co.vfields = {}; co.state = 0; co.body_key = key
        r = coro.poll_value(ex, Ref(Cell(co)))
        return r, list(s['log'])
    try:
        res = explore(ex, body, budget_s=1200)
    except (Unmodelled, BoundExceeded, KeyError) as u:
        rep.absorb_stats(ex.stats)
        rep.add(F.Obligation(name, 'inconclusive', f'{type(u).__name__}: {u}'[:700])); return
    rep.absorb_stats(ex.stats)
    viol = {}; seqs = 0

    def need(pc, k, text, cond):
        if k in viol: return
        st, m = solve(pc, z3.Not(cond))
        if st == 'sat': viol[k] = (text, m)
        elif st != 'unsat': raise Unmodelled('solver unknown')
    for kind, val, pc, _ in res:
        if kind == 'panic':
            st, m = solve(pc, None)
            if st == 'sat': viol.setdefault('persist-task:' + panic_key(val), (f'the persist task panics: {val[0]} at {val[1]}', m))
            continue
        r, log = val
        prev = None; sel = None
        nsub = 0
        for ev in log:
            if ev[0] == 'selected':
                sel = ev
            elif ev[0] == 'submit':
                nsub += 1
                b = c08.block_number(deref_all(ev[1]))
                if sel is None:
                    need(pc, 'persist-task:unselected-block', 'a block is handed to storage that was not read from the block store', z3.BoolVal(False)); continue
                _, chosen, st = sel
                need(pc, 'persist-task:wrong-block', 'the block handed to storage is not the block the store returned for the selected number', z3.BoolVal(deref_all(ev[1]) is deref_all(chosen) or c08.block_number(deref_all(chosen)) is b))
                pn = st.pn.e
                if prev is not None:
                    need(pc, 'persist-task:not-increasing', 'a block number is handed to durable storage twice, or the numbers go backwards', b.e > prev.e)
                    need(pc, 'persist-task:gap', 'a submitted block neither directly follows the previous submission nor is the block right after the durable head', z3.Or(b.e == prev.e + 1, b.e == pn))
                else:
                    need(pc, 'persist-task:gap', 'the first submitted block is not the block right after the durable head', b.e == pn)
                prev = b; sel = None
        if nsub >= 2: seqs += 1; rep.nontrivial += 1
    for k, (text, m) in viol.items():
        rep.violation(F.Violation(rep.prop, k, text, None, None, c08.witness(m) if hasattr(c08, 'witness') else str(m)[:400]))
    if seqs == 0 and not viol:
        rep.add(F.Obligation(name, 'inconclusive', 'no explored path submits two blocks: vacuous')); return
    rep.add(F.Obligation(name, 'violated' if viol else 'discharged', paths=len(res), wall_s=round(time.time() - t0, 1)))
    rep.samples.append(f'persist task: {len(res)} paths, {seqs} with >= 2 submissions')
