"""C14 / C15 — one cycle of a reusable sub-stream: `ReusableStream::run` (coroutine; its scope sequentialised, the
transport-facing operations by contract) executed for one iteration of its loop, for an ACCEPT and a CONNECT stream.
Obligations on the effect log:
 - a cycle starts by sending CLOSE for the previous transient stream (the peer sees end-of-stream before any reuse);
 - three-way OPEN: an ACCEPT stream sends its OPEN only AFTER the peer's OPEN was received; on either side the transient
   stream is handed to the application only after OPEN was both sent and received, and exactly once per cycle;
 - rate limiting: one limiter permit is acquired per cycle BEFORE the OPEN exchange and is still held when the stream is
   handed over (it starts refilling only then) — a peer cannot bank stream offers while the bucket refills."""
import time
import z3
from mirsym.core import (Exec, explore, solve, Num, Agg, Ref, Cell, Opaque, Unmodelled, BoundExceeded, UNIT)
from mirsym import env, models as M
from mirsym.models import some, none, ok, err, ready, pending, BoxV, deref_all
from mirsym.mk import Mk, fld
from props import coro
from props.coro import EnvFuture, CANCELED
from props.c11 import panic_key
import framework as F

NET = 'zksync_consensus_network'


class ScopeV:
    def __init__(self): self.tasks = []
    def py_clone(self, ex): return self


class Handle:
    def __init__(self, cell): self.cell = cell; self.result = None
    def py_clone(self, ex): return self


class PermitV:
    def py_clone(self, ex): return self
    def __repr__(self): return 'limiter permit'


class LockRecv:
    """ExclusiveLockReceiver: yields the value once the lock (already dropped by the code under test) is released"""
    def __init__(self, value, fresh): self.value = value; self.fresh = fresh
    def py_clone(self, ex): return self


def run(rep, db, tier):
    name = 'ReusableStream::run: CLOSE first, three-way OPEN, one limiter permit held per cycle'
    t0 = time.time()
    ex = Exec(db, loop_bound=6)
    env.install(ex); coro.install_futures(ex)
    ex.drop_types = [r'limiter::Permit']
    n_before = len(ex.user_models)
    cur = [None]
    mk = Mk(db, NET)
    log = lambda: cur[0]['log']

    ex.model(r'zksync_concurrency::scope::Scope::<.*>::new', lambda e, n, a: ScopeV())

    def spawn(e, n, a):
        h = Handle(Cell(a[1])); deref_all(a[0]).tasks.append(h); return h
    ex.model(r'zksync_concurrency::scope::Scope::<.*>::(spawn|spawn_bg)(::<.*>)?', spawn)

    def join(e, n, a):
        h = deref_all(a[0])
        def respond(e2):
            r = coro.poll_value(e2, Ref(h.cell))
            if r.variant == 1: return pending()
            log().append(('peer_open_received',))
            res = r.fields[0]
            return ready(ok(res.fields[0])) if res.variant == 0 else ready(err(CANCELED))
        return EnvFuture('join', respond)
    ex.model(r'zksync_concurrency::scope::JoinHandle::<.*>::join(::<.*>)?', join)

    def scope_run(e, n, a):
        sc = deref_all(a[0]); clo = a[1]
        def respond(e2):
            root = Cell(e2.call_closure(clo, [Ref(Cell(Opaque('scope_ctx'))), Ref(Cell(sc))]))
            r = coro.poll_value(e2, Ref(root))
            if r.variant == 1: return pending()
            return ready(r.fields[0])
        return EnvFuture('scope.run', respond)
    ex.model(r'zksync_concurrency::scope::Scope::<.*>::run(::<.*>)?', scope_run)

    def lock_new(e, n, a):
        s = cur[0]; s['locks'] += 1
        return Agg('tuple', None, 0, [BoxV(a[0]), LockRecv(a[0], s['locks'] <= 2)])
    ex.model(r'zksync_concurrency::sync::ExclusiveLock::<.*>::new', lock_new)

    def lock_wait(e, n, a):
        lr = deref_all(a[0])
        def respond(e2):
            # the two locks created before the loop are released at once; those handed to the application are not (second cycle blocks)
            return ready(ok(lr.value)) if lr.fresh else pending()
        return EnvFuture('lock.wait', respond)
    ex.model(r'zksync_concurrency::sync::ExclusiveLockReceiver::<.*>::wait', lock_wait)

    def simple(tag):
        def f(e, n, a):
            def respond(e2):
                log().append((tag,)); return ready(ok(UNIT))
            return EnvFuture(tag, respond)
        return f
    ex.model_path('zksync_consensus_network::mux::reusable_stream::ReadReusableStream::recv_open', simple('recv_open'))
    ex.model_path('zksync_consensus_network::mux::reusable_stream::WriteReusableStream::send_close', simple('send_close'))
    ex.model_path('zksync_consensus_network::mux::reusable_stream::WriteReusableStream::send_open', simple('send_open'))

    def acquire(e, n, a):
        lim = deref_all(a[0])
        def respond(e2):
            log().append(('permit_acquired', getattr(lim, 'tag', None))); return ready(ok(PermitV()))
        return EnvFuture('limiter.acquire', respond)
    ex.model_path('zksync_concurrency::limiter::Limiter::acquire', acquire)

    def limiter_new(e, n, a):
        log().append(('limiter_created',)); return Opaque('private_limiter')
    ex.model_path('zksync_concurrency::limiter::Limiter::new', limiter_new)

    def permit_drop(e, n, a):
        v = a[0]
        while isinstance(v, Ref): v = v.get()
        if isinstance(v, PermitV): log().append(('permit_dropped',))
        return UNIT
    ex.model(r'std::ptr::drop_in_place::<zksync_concurrency::limiter::Permit<.*>>|<zksync_concurrency::limiter::Permit<.*> as std::ops::Drop>::drop', permit_drop)

    def push(e, n, a):
        def respond(e2):
            log().append(('reserved',)); return ready(ok(Opaque('reservation')))
        return EnvFuture('queue.push', respond)
    ex.model_path('zksync_consensus_network::mux::reusable_stream::StreamQueue::push', push)

    def handed(e, n, a):
        log().append(('handed', a[1])); return ok(UNIT)
    ex.model(r'(tokio::sync|zksync_concurrency)::oneshot::Sender::<.*>::send', handed)
    mine = ex.user_models[n_before:]; del ex.user_models[n_before:]
    ex.user_models[0:0] = mine; ex._um_cache = {}
    try:
        key = db.find_one(r'zksync_consensus_network::mux::reusable_stream::ReusableStream::run', kinds=('fn',))
    except KeyError as u:
        rep.add(F.Obligation(name, 'inconclusive', str(u)[:300])); return

    def body(ex):
        s = dict(log=[], locks=0); cur[0] = s
        accept = ex.choose(2, 'stream_kind') == 0
        kind = mk.tuple_struct(r'zksync_consensus_network::mux::header::StreamKind', Num(0 if accept else 0b0010000000000000, 16))
        w_t = mk.ty(r'zksync_consensus_network::mux::reusable_stream::WriteReusableStream')
        wv = Agg('adt', w_t, 0, [kind if f['name'] == 'stream_kind' else Opaque('w_' + f['name']) for f in w_t['info']['variants'][0]['fields']])
        q_t = mk.ty(r'zksync_consensus_network::mux::reusable_stream::StreamQueue')
        qv = Agg('adt', q_t, 0, [Opaque('q_' + f['name']) for f in q_t['info']['variants'][0]['fields']])
        rs = mk.adt(r'zksync_consensus_network::mux::reusable_stream::ReusableStream', read=Opaque('read_half'), write=wv, stream_queue=BoxV(qv))
        r = coro.run_async(ex, key, [rs, Ref(Cell(Opaque('ctx')))])
        return r, accept, list(s['log'])
    try:
        res = explore(ex, body, budget_s=600)
    except (Unmodelled, BoundExceeded, KeyError) as u:
        rep.absorb_stats(ex.stats)
        rep.add(F.Obligation(name, 'inconclusive', f'{type(u).__name__}: {u}'[:700])); return
    rep.absorb_stats(ex.stats)
    viol = {}; cycles = 0
    for kind, val, pc, _ in res:
        if kind == 'panic':
            st, m = solve(pc, None)
            if st == 'sat': viol.setdefault('reusable:' + panic_key(val), f'ReusableStream::run panics: {val[0]} at {val[1]}')
            continue
        r, accept, log_ = val
        evs = [e[0] for e in log_]
        if 'handed' not in evs: continue
        cycles += 1; rep.nontrivial += 1
        side = 'accept' if accept else 'connect'
        def pos(x): return evs.index(x) if x in evs else None
        h = pos('handed')
        if evs.count('handed') != 1 and evs[:evs.index('handed') + 1].count('handed') != 1:
            viol.setdefault('reusable:handed-twice', f'{side} stream: the same cycle hands the transient stream to the application more than once')
        if pos('send_close') is None or pos('send_close') > min(x for x in (pos('send_open'), pos('peer_open_received'), h) if x is not None):
            viol.setdefault('reusable:no-close-before-reuse', f'{side} stream: a new cycle starts its OPEN exchange before CLOSE was sent for the previous transient stream')
        if pos('send_open') is None or pos('peer_open_received') is None or pos('send_open') > h or pos('peer_open_received') > h:
            viol.setdefault('reusable:handed-before-open', f'{side} stream: the transient stream is handed to the application before OPEN was both sent and received')
        if accept and pos('send_open') is not None and pos('peer_open_received') is not None and pos('send_open') < pos('peer_open_received'):
            viol.setdefault('reusable:accept-opens-first', 'an accept-side stream sends OPEN before the peer\'s OPEN was received (streams would open without a connecting peer)')
        pa = pos('permit_acquired'); pd = pos('permit_dropped')
        first_open = min(x for x in (pos('send_open'), pos('peer_open_received')) if x is not None) if (pos('send_open') is not None or pos('peer_open_received') is not None) else None
        if pa is None or (first_open is not None and pa > first_open):
            viol.setdefault('reusable:no-permit', f'{side} stream: the OPEN exchange starts without a limiter permit for this cycle')
        elif pd is not None and pd < h:
            viol.setdefault('reusable:permit-released-early', f'{side} stream: the limiter permit of the cycle is released before the stream is handed over (the bucket refills while the offer is outstanding: a peer can bank stream offers)')
        # the open-rate limit is PER CAPABILITY of a connection: every reusable stream of the queue draws its permit from the ONE
        # limiter of the shared StreamQueue (a limiter per stream multiplies the configured rate by the number of streams)
        if any(e[0] == 'limiter_created' for e in log_) or any(e[0] == 'permit_acquired' and len(e) > 1 and e[1] != 'q_limiter' for e in log_):
            viol.setdefault('reusable:private-limiter', f'{side} stream: the permit of the cycle is not drawn from the limiter shared by all reusable streams of the capability (the stream creates or uses a limiter of its own: the configured open rate is multiplied by the number of streams)')
        if evs.count('permit_acquired') > evs.count('handed') + 1:
            viol.setdefault('reusable:permit-count', f'{side} stream: more than one limiter permit is taken per cycle')
    for k, text in viol.items():
        rep.violation(F.Violation(rep.prop, k, text, None, None, 'effect log of one cycle of the real coroutine'))
    if cycles == 0 and not viol:
        rep.add(F.Obligation(name, 'inconclusive', 'no path completes a cycle (vacuous)')); return
    rep.add(F.Obligation(name, 'violated' if viol else 'discharged', paths=len(res), wall_s=round(time.time() - t0, 1)))
    rep.samples.append(f'ReusableStream::run: {len(res)} paths, {cycles} complete a cycle')
