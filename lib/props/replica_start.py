"""C03 (d) — restart: StateMachine::start (coroutine MIR) restores exactly the persisted snapshot of the same epoch
(view, phase, high vote, both high certificates, cached proposals) and starts from the default state otherwise."""
import time
import z3
from mirsym.core import (Exec, explore, solve, Num, Agg, Ref, Cell, Opaque, Panic, Unmodelled, num_cmp, to_z3_bool, UNIT)
from mirsym import models as M, symgen
from mirsym.models import some, none, ok, err, ready, BoxV, VecV, MapV, values_equal
from mirsym.mk import Mk, fld
from props import replica as R, coro
from props.coro import EnvFuture
from props.c11 import panic_key
import framework as F


def cache_ok(ex, cache, pinfo):
    """every persisted proposal is back in the proposal cache under its (number, payload hash), and nothing else is"""
    total = 0; conds = []
    found = [[] for _ in pinfo]
    for k, cell in cache.entries:
        kn = fld(k, '0')
        inner = cell.v
        for hk, pcell in getattr(inner, 'entries', []):
            total += 1
            j = hk.tag[1] if isinstance(hk, Opaque) and isinstance(hk.tag, tuple) and hk.tag[0] == 'payload_hash' else None
            if j is None or j >= len(pinfo): conds.append(z3.BoolVal(False)); continue
            found[j].append(to_z3_bool(num_cmp('Eq', kn, pinfo[j][0])))
    for j in range(len(pinfo)):
        conds.append(z3.Or(*found[j]) if found[j] else z3.BoolVal(False))
    conds.append(z3.BoolVal(total == len(pinfo)))
    return z3.And(*conds)


def run(rep, db, tier):
    ex = Exec(db, loop_bound=20); ex.hash_order_insertion = True
    holder = [None]
    R.install(ex, db, lambda: holder[0])
    key = db.find_one(R.SM + r'StateMachine::start', kinds=('fn',))
    backup_box = [None]

    def get_state(e, n, a):
        def respond(e2):
            if e2.choose(2, 'get_state_fails') == 0: return ready(err(Opaque('ctx::Error')))
            return ready(ok(backup_box[0]))
        return EnvFuture('get_state', respond)
    ex.model_path('zksync_consensus_engine::manager::EngineManager::get_state', get_state)

    holder_p = [[]]
    def payload_hash(e, n, a):
        # distinct payloads have distinct hashes: the hash is identified with the position of the payload among the persisted proposals
        pl = M.deref_all(a[0])
        inner = pl.fields[0] if isinstance(pl, Agg) and pl.fields else pl
        for j, (num, b) in enumerate(holder_p[0]):
            if b is inner or (getattr(inner, 'ident', None) is not None and getattr(inner, 'ident', None) == b.ident): return Opaque(('payload_hash', j))
        return Opaque(z3.Int('payload_hash'))
    ex.model(r'zksync_consensus_roles::validator::messages::block::Payload::hash', payload_hash)
    ex.user_models.insert(0, ex.user_models.pop()); ex._um_cache = {}
    ex.model(r'std::hash::RandomState::new|std::collections::hash_map::RandomState::new|<std::hash::RandomState as std::default::Default>::default|<std::collections::hash_map::RandomState as std::default::Default>::default', lambda e, n, a: Opaque('RandomState'))

    def body(ex):
        w = R.World(ex, db, 2); holder[0] = w
        w.state()          # builds config etc.; the in-memory state itself is not used
        mk = w.mkr
        bepoch = w.num('backup_epoch')
        st = dict(view=w.num('b_view'), phase=ex.choose(3, 'b_phase'))
        hv = none(); cqc = none(); tqc = none()
        if ex.choose(2, 'b_hv') == 0: hvv, _ = w.replica_commit('b_hv'); hv = some(hvv)
        if ex.choose(2, 'b_cqc') == 0: c, _ = w.commit_qc('b_cqc', own=True); cqc = some(c)
        if ex.choose(2, 'b_tqc') == 0: t, _ = w.timeout_qc('b_tqc', own=True, with_votes=False); tqc = some(t)
        # 0, 1 or 2 persisted proposals; two of them may be for the SAME block number (a replica can vote for two payloads of one
        # height in different views) — payloads have distinct hashes
        props = []; pinfo = []
        for j in range(ex.choose(3, 'b_props')):
            num = w.num(f'b_prop_num{j}'); pl = symgen.BytesV(ex.fresh(f'b_payload_len{j}'))
            props.append(mk.adt(R.V + r'block::Proposal', number=mk.tuple_struct(R.V + r'block::BlockNumber', num), payload=mk.tuple_struct(R.V + r'block::Payload', pl)))
            pinfo.append((num, pl))
        holder_p[0] = pinfo
        backup = mk.adt(R.V + r'v2::state::ChonkyV2State', epoch=mk.tuple_struct(R.V + r'consensus::EpochNumber', bepoch), view_number=mk.tuple_struct(R.V + r'consensus::ViewNumber', st['view']),
                        phase=mk.adt(R.V + r'v2::consensus::Phase', R.PHASES[st['phase']]), high_vote=hv, high_commit_qc=cqc, high_timeout_qc=tqc, proposals=VecV(props))
        backup_box[0] = mk.adt(R.V + r'state::ReplicaState', 'V2', _0=backup)
        cfg = fld(w.sm_cell.v, 'config')
        r = coro.run_async(ex, key, [Ref(Cell(Opaque('ctx'))), cfg, Opaque('outbound'), Opaque('inbound'), M.WatchV(none())])
        return w, r, bepoch, st, (hv, cqc, tqc), (props, pinfo)
    res = explore(ex, body, budget_s=600)
    rep.absorb_stats(ex.stats)
    viol = []
    for kind, val, pc, log in res:
        if kind == 'panic':
            st_, m = solve(pc, None)
            if st_ == 'sat': viol.append((panic_key(val), f'StateMachine::start panics: {val[0]} at {val[1]}'))
            continue
        w, r, bepoch, st, (hv, cqc, tqc), (props, pinfo) = val
        if r == 'pending' or r.variant == 1: continue
        rep.nontrivial += 1
        sm = r.fields[0]
        same_epoch = bepoch.e == w.e0.e
        restored = z3.And(to_z3_bool(num_cmp('Eq', fld(fld(sm, 'view_number'), '0'), st['view'])), z3.BoolVal(fld(sm, 'phase').variant == st['phase']),
                          to_z3_bool(values_equal(ex, fld(sm, 'high_vote'), hv)), to_z3_bool(values_equal(ex, fld(sm, 'high_commit_qc'), cqc)), to_z3_bool(values_equal(ex, fld(sm, 'high_timeout_qc'), tqc)),
                          cache_ok(ex, fld(sm, 'block_proposal_cache'), pinfo))
        fresh = z3.And(to_z3_bool(num_cmp('Eq', fld(fld(sm, 'view_number'), '0'), Num(0, 64))), z3.BoolVal(fld(sm, 'phase').variant == 0), z3.BoolVal(fld(sm, 'high_vote').variant == 0),
                       z3.BoolVal(fld(sm, 'high_commit_qc').variant == 0), z3.BoolVal(fld(sm, 'high_timeout_qc').variant == 0))
        caches_empty = all(len(fld(sm, c).entries) == 0 for c in ('commit_views_cache', 'commit_qcs_cache', 'timeout_views_cache', 'timeout_qcs_cache'))
        good = z3.And(z3.If(same_epoch, restored, fresh), z3.BoolVal(caches_empty))
        st_, m = solve(pc, z3.Not(good))
        import os
        if st_ == 'sat' and os.environ.get('MIRSYM_DEBUG'): print('DEBUG start', fld(sm, 'block_proposal_cache'), holder_p[0], [repr(c.v) for k, c in fld(sm, 'block_proposal_cache').entries])
        if st_ == 'sat': viol.append(('start:state-not-restored', 'StateMachine::start does not restore exactly the persisted view / phase / high vote / certificates of a same-epoch backup (or does not start fresh for another epoch)'))
        elif st_ != 'unsat': raise Unmodelled('solver unknown')
    seen = set()
    for key_, text in viol:
        if key_ in seen: continue
        seen.add(key_)
        rep.violation(F.Violation(rep.prop, key_, text, None, None))
    rep.add(F.Obligation('restart restores the durable snapshot (StateMachine::start)', 'violated' if viol else 'discharged', paths=len(res)))
