"""Drivers around the replica handlers (used by C06, the re-proposal part also by C02):
 (A) `proposer::create_proposal` (coroutine): a forced re-proposal carries NO payload, a fresh proposal carries the payload
     the engine proposed for the implied block number, after the previous block was reported persisted, and not larger
     than max_payload_size; the justification is passed through unchanged; an engine failure is an error, not a proposal.
 (B) `proposer::run_proposer`, one round of its loop: given a justification for a view this node leads, a proposal is
     created and a signed LeaderProposal is broadcast; for a view it does not lead nothing is sent; a timed-out
     (cancelled) creation does not end the proposer; an internal error does.
 (C) `StateMachine::run`, the first rounds of the main loop: in view 0 the replica times out immediately (a timeout vote
     for view 0 leaves before it first waits for input), and whenever the wait for input ends by the view deadline a
     timeout vote is (re)broadcast — the timer keeps firing."""
import time
import z3
from mirsym.core import (Exec, explore, solve, Num, Agg, Ref, Cell, Opaque, Unmodelled, BoundExceeded, num_cmp, to_z3_bool, UNIT)
from mirsym import models as M, symgen
from mirsym.models import some, none, ok, err, ready, pending, BoxV, VecV, MapV, deref_all, values_equal
from mirsym.mk import Mk, fld, variant_name
from props import replica as R, coro, c02
from props.coro import EnvFuture, CANCELED
from props.c11 import panic_key
import framework as F

PROP_BFT = r'zksync_consensus_bft::v2_chonky_bft::proposer::'


def zb(x): return to_z3_bool(x)


def _install(ex, db, holder):
    R.install(ex, db, lambda: holder[0])
    n_before = len(ex.user_models)

    def propose_payload(e, n, a):
        w = holder[0]
        def respond(e2):
            c = e2.choose(3, 'propose_payload')
            if c == 0: w.log.append(('env_fail', 'propose_payload')); return ready(err(R_ctx_error(e2, db)))
            ln = e2.fresh('proposed_len'); e2.assume(ln.e < 2 ** 40)
            p = w.mkr.tuple_struct(R.V + r'block::Payload', symgen.BytesV(ln))
            w.log.append(('proposed', a[2], p, ln)); return ready(ok(p))
        return EnvFuture('propose_payload', respond)
    ex.model_path('zksync_consensus_engine::manager::EngineManager::propose_payload', propose_payload)
    ex.model(r'zksync_concurrency::ctx::Ctx::(with_timeout|with_deadline)', lambda e, n, a: Opaque('ctx'))
    ex.model(r'zksync_consensus_roles::validator::keys::secret_key::SecretKey::public', lambda e, n, a: Opaque(('key', holder[0].me)))
    mine = ex.user_models[n_before:]; del ex.user_models[n_before:]
    ex.user_models[0:0] = mine; ex._um_cache = {}


def R_ctx_error(e2, db):
    try:
        t = Mk(db, 'zksync_consensus_bft').ty(r'zksync_concurrency::ctx::Error')
        return M.LazyEnum(e2, t, ['Internal', 'Canceled'], 'propose_error_kind')
    except Unmodelled:
        return Opaque('ctx::Error')


def justification(ex, w, tag='j'):
    mk = w.mkr
    if ex.choose(2, f'{tag}_kind') == 0:
        qc, d = w.commit_qc(f'{tag}_qc', own=True)
        return mk.adt(R.V + r'v2::leader_proposal::ProposalJustification', 'Commit', _0=qc), d, 'Commit'
    t, d = w.timeout_qc(f'{tag}_tqc', own=True)
    return mk.adt(R.V + r'v2::leader_proposal::ProposalJustification', 'Timeout', _0=t), d, 'Timeout'


def check_create_proposal(rep, db, tier):
    ex = Exec(db, loop_bound=30)
    holder = [None]
    _install(ex, db, holder)
    key = db.find_one(PROP_BFT + 'create_proposal', kinds=('fn',))
    gib = r'.*v2::leader_proposal::ProposalJustification::get_implied_block'

    def body(ex):
        w = R.World(ex, db, 2); holder[0] = w
        w.state(None, light=True)
        cfg = fld(w.sm_cell.v, 'config')
        just, d, jk = justification(ex, w)
        # the oracle: the real implied-block function (decided against its specification in C02) on the same inputs
        r0 = ex.call_by_name(gib, [Ref(Cell(just)), Ref(Cell(w.sched)), w.mkr.tuple_struct(R.V + r'block::BlockNumber', w.first_block)])
        num = fld(r0.fields[0], '0'); forced = r0.fields[1].variant == 1
        w.log.clear()
        r = coro.run_async(ex, key, [Ref(Cell(Opaque('ctx'))), cfg, just])
        return r, just, num, forced, list(w.log)
    res = explore(ex, body, budget_s=900)
    rep.absorb_stats(ex.stats)
    viol = {}; made = 0

    def need(pc, k, text, cond, prop='C06'):
        if k in viol: return
        st, m = solve(pc, z3.Not(cond))
        if st == 'sat': viol[k] = (prop, text, m)
        elif st != 'unsat': raise Unmodelled('solver unknown')
    for kind, val, pc, _ in res:
        if kind == 'panic':
            st, m = solve(pc, None)
            if st == 'sat': viol.setdefault('create_proposal:' + panic_key(val), ('C06', f'create_proposal panics: {val[0]} at {val[1]}', m))
            continue
        r, just, num, forced, log = val
        if r == 'pending': continue
        evs = [e[0] for e in log]
        if r.variant == 1:
            need(pc, 'create_proposal:fails-without-cause', 'create_proposal fails although no engine call failed and the proposed payload fits', z3.BoolVal('env_fail' in evs or 'proposed' in evs))
            continue
        made += 1; rep.nontrivial += 1
        lp = r.fields[0]
        pay = fld(lp, 'proposal_payload')
        need(pc, 'create_proposal:justification-altered', 'the proposal does not carry the justification it was created for', zb(values_equal(ex, fld(lp, 'justification'), just)))
        if forced:
            need(pc, 'create_proposal:reproposal-with-payload', 'a forced re-proposal (the timeout certificate shows a block that may have been certified) carries a new payload', z3.BoolVal(pay.variant == 0), 'C02')
        else:
            need(pc, 'create_proposal:missing-payload', 'a proposal for a new block carries no payload', z3.BoolVal(pay.variant == 1))
            prop_ev = [e for e in log if e[0] == 'proposed']
            if pay.variant == 1:
                if not prop_ev:
                    need(pc, 'create_proposal:payload-not-from-engine', 'the payload of the proposal was not obtained from the engine', z3.BoolVal(False))
                else:
                    _, bn, p, ln = prop_ev[-1]
                    need(pc, 'create_proposal:payload-for-wrong-block', 'the payload was requested for a block number other than the one implied by the justification', zb(num_cmp('Eq', fld(deref_all(bn), '0'), num)))
                    need(pc, 'create_proposal:oversized-payload', 'a payload larger than max_payload_size is proposed', ln.e <= (1 << 20))
                    waits = [e for e in log if e[0] == 'wait_until_persisted']
                    first_prop = evs.index('proposed')
                    need(pc, 'create_proposal:previous-block-not-awaited', 'a payload is requested before the previous block was reported persisted',
                         z3.Or(num.e == 0, z3.BoolVal(any(e[0] == 'wait_until_persisted' for e in log[:first_prop]))))
    if made == 0 and not viol: raise Unmodelled('no path creates a proposal (vacuous)')
    return viol, len(res)


def check_run_proposer(rep, db, tier):
    ex = Exec(db, loop_bound=6)
    holder = [None]
    _install(ex, db, holder)
    key = db.find_one(PROP_BFT + 'run_proposer', kinds=('fn',))
    n_before = len(ex.user_models)
    st = [None]

    def changed(e, n, a):
        def respond(e2):
            s = st[0]; s['rounds'] += 1
            if s['rounds'] > 1: return pending()
            c = e2.choose(3, 'watch')
            if c == 0: return ready(err(CANCELED))
            s['given'] = c
            return ready(ok(coro.WatchRef(s['watch'])))
        return EnvFuture('sync.changed', respond)
    ex.model_path('zksync_concurrency::sync::changed', changed)

    def create(e, n, a):
        s = st[0]; w = holder[0]
        def respond(e2):
            c = e2.choose(3, 'create_proposal')
            s['create'] = c
            if c == 0:
                lp = w.mkr.adt(R.V + r'v2::leader_proposal::LeaderProposal', proposal_payload=none(), justification=a[2]); s['lp'] = lp
                return ready(ok(lp))
            t = Mk(db, 'zksync_consensus_bft').ty(r'zksync_concurrency::ctx::Error')
            vi = [v['name'] for v in t['info']['variants']].index('Canceled' if c == 1 else 'Internal')
            return ready(err(Agg('adt', t, vi, [Opaque('inner')])))
        return EnvFuture('create_proposal', respond)
    ex.model_path('zksync_consensus_bft::v2_chonky_bft::proposer::create_proposal', create)
    mine = ex.user_models[n_before:]; del ex.user_models[n_before:]
    ex.user_models[0:0] = mine; ex._um_cache = {}

    def body(ex):
        w = R.World(ex, db, 2); holder[0] = w
        w.state(None, light=True)
        cfg = fld(w.sm_cell.v, 'config')
        just, d, jk = justification(ex, w)
        s = dict(rounds=0, watch=None); st[0] = s
        s['watch'] = M.WatchV(none())
        # the watch holds None or the justification when the proposer is woken
        opt = ex.choose(2, 'watch_value')
        s['watch'].cell.v = some(just) if opt == 0 else none()
        w.log.clear()
        r = coro.run_async(ex, key, [Ref(Cell(Opaque('ctx'))), cfg, Opaque('network_sender'), coro.WatchReceiver(s['watch'])])
        # who leads the justification's view (real view_leader on the same schedule) and who am I
        leader = ex.call_by_name(r'.*schedule::Schedule::view_leader', [Ref(Cell(w.sched)), w.mkr.tuple_struct(R.V + r'consensus::ViewNumber', Num(d['view'].e + 1, 64))])
        return r, opt, dict(s), leader, list(w.log)
    res = explore(ex, body, budget_s=900)
    rep.absorb_stats(ex.stats)
    viol = {}; sent_paths = 0

    def need(pc, k, text, cond):
        if k in viol: return
        s_, m = solve(pc, z3.Not(cond))
        if s_ == 'sat': viol[k] = ('C06', text, m)
        elif s_ != 'unsat': raise Unmodelled('solver unknown')
    for kind, val, pc, _ in res:
        if kind == 'panic':
            s_, m = solve(pc, None)
            if s_ == 'sat': viol.setdefault('run_proposer:' + panic_key(val), ('C06', f'run_proposer panics: {val[0]} at {val[1]}', m))
            continue
        r, opt, s, leader, log = val
        sends = [e for e in log if e[0] == 'send']
        i_lead = isinstance(leader, Opaque) and leader.tag == ('key', 0)
        woke = s.get('given') is not None
        if sends: sent_paths += 1; rep.nontrivial += 1
        if not woke: continue
        if opt == 1 or not i_lead:
            need(pc, 'run_proposer:proposes-out-of-turn', 'a proposal is broadcast although there is no justification or this node does not lead the view', z3.BoolVal(not sends))
            continue
        c = s.get('create')
        if c is None:
            need(pc, 'run_proposer:leader-does-not-propose', 'this node leads the view of the new justification but does not start creating a proposal', z3.BoolVal(False)); continue
        if c == 0:
            good = len(sends) == 1
            if good:
                m_ = RC_inner(sends[0][1])
                good = m_ is not None and (m_.name or '').endswith('LeaderProposal')
            need(pc, 'run_proposer:proposal-not-broadcast', 'a proposal was created for a view this node leads but no signed LeaderProposal is broadcast', z3.BoolVal(bool(good)))
        elif c == 1:
            need(pc, 'run_proposer:stops-after-timeout', 'the proposer ends after a proposal creation merely timed out (no proposals in later views)', z3.BoolVal(r == 'pending'))
        else:
            need(pc, 'run_proposer:swallows-internal-error', 'an internal error of proposal creation does not end the proposer with that error', z3.BoolVal(r != 'pending' and r.variant == 1))
    if sent_paths == 0 and not viol: raise Unmodelled('no path broadcasts a proposal (vacuous)')
    return viol, len(res)


def RC_inner(out_msg):
    from props import c04
    x = out_msg
    if isinstance(x, Agg) and (x.name or '').endswith('ConsensusInputMessage'): x = x.fields[0]
    if isinstance(x, Agg) and (x.name or '').endswith('Signed'): x = x.fields[0]
    m = c04.strip_msg(x)
    return m if isinstance(m, Agg) else None


def check_main_loop(rep, db, tier):
    ex = Exec(db, loop_bound=6)
    holder = [None]
    _install(ex, db, holder)
    key = db.find_one(R.SM + r'StateMachine::run', kinds=('fn',))
    n_before = len(ex.user_models)
    st = [None]

    def recv(e, n, a):
        def respond(e2):
            s = st[0]; s['waits'] += 1
            holder[0].log.append(('wait_for_input', s['waits']))
            if s['waits'] > 2: return pending()
            # only the deadline outcome is explored here (messages are the handlers' business)
            return ready(err(CANCELED))
        return EnvFuture('inbound.recv', respond)
    ex.model(r'zksync_concurrency::sync::prunable_mpsc::Receiver::<.*>::recv', recv)
    ex.model(r'zksync_concurrency::ctx::Ctx::is_active', lambda e, n, a: True)
    mine = ex.user_models[n_before:]; del ex.user_models[n_before:]
    ex.user_models[0:0] = mine; ex._um_cache = {}

    def body(ex):
        w = R.World(ex, db, 2); holder[0] = w
        pre = w.state(None, light=False)
        st[0] = dict(waits=0)
        w.log.clear()
        sm = w.sm_cell.v
        r = coro.run_async(ex, key, [sm, Ref(Cell(Opaque('ctx')))])
        return r, pre, list(w.log)
    res = explore(ex, body, budget_s=900)
    rep.absorb_stats(ex.stats)
    viol = {}; n_ok = 0

    def need(pc, k, text, cond):
        if k in viol: return
        s_, m = solve(pc, z3.Not(cond))
        if s_ == 'sat': viol[k] = ('C06', text, m)
        elif s_ != 'unsat': raise Unmodelled('solver unknown')
    for kind, val, pc, _ in res:
        if kind == 'panic':
            s_, m = solve(pc, None)
            if s_ == 'sat': viol.setdefault('main-loop:' + panic_key(val), ('C06', f'StateMachine::run panics: {val[0]} at {val[1]}', m))
            continue
        r, pre, log = val
        evs = [e[0] for e in log]
        if 'persist_failed' in evs or 'env_fail' in evs: continue
        def timeouts_before(idx):
            n = 0
            for e in log[:idx]:
                if e[0] == 'send':
                    m_ = RC_inner(e[1])
                    if m_ is not None and (m_.name or '').endswith('ReplicaTimeout'): n += 1
            return n
        waits = [i for i, e in enumerate(log) if e[0] == 'wait_for_input']
        if not waits: continue
        n_ok += 1; rep.nontrivial += 1
        need(pc, 'main-loop:view0-not-bootstrapped', 'a replica starting in view 0 waits for input without first timing out (nothing would ever justify view 1)', z3.Or(pre['view'].e != 0, z3.BoolVal(timeouts_before(waits[0]) >= 1)))
        for a, b in zip(waits, waits[1:]):
            need(pc, 'main-loop:deadline-without-timeout', 'the wait for input ended by the view deadline but no timeout vote was (re)broadcast before waiting again', z3.BoolVal(timeouts_before(b) > timeouts_before(a)))
    if n_ok == 0 and not viol: raise Unmodelled('no path reaches the wait for input (vacuous)')
    return viol, len(res)


def run(rep, db, tier, props=('C06',)):
    for name, fn in (('proposer: create_proposal', check_create_proposal), ('proposer: one round of run_proposer', check_run_proposer), ('main loop: bootstrap of view 0 and timer-driven retransmission', check_main_loop)):
        t0 = time.time()
        try:
            viol, n = fn(rep, db, tier)
            mine = {k: v for k, v in viol.items() if v[0] in props}
            for k, (prop, text, m) in mine.items():
                rep.violation(F.Violation(rep.prop, k, text, None, None, ', '.join(f'{d.name()}={m[d]}' for d in m.decls() if d.arity() == 0 and '!' not in d.name())[:400] if m is not None else ''))
            rep.add(F.Obligation(name, 'violated' if mine else 'discharged', paths=n, wall_s=round(time.time() - t0, 1)))
        except (Unmodelled, BoundExceeded, KeyError) as u:
            rep.add(F.Obligation(name, 'inconclusive', f'{type(u).__name__}: {u}'[:700]))
