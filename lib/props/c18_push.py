"""C18 — the `push_validator_addrs` handler of a gossip connection (`<&PushServer as rpc::Handler<push_validator_addrs::Rpc>>::handle`, real MIR;
`Network::validator_schedule` and `ValidatorAddrsWatch::update` by contract — the latter is decided on its own): a pushed batch reaches the address
book exactly once, unchanged, together with the CURRENT validator schedule of the network; without a committee, or when the schedule cannot be
obtained, nothing is applied. (Whether a rejected batch also fails the RPC is not part of the property and is not demanded.)"""
import time
from mirsym.core import (Exec, explore, Agg, Ref, Cell, Opaque, Unmodelled, BoundExceeded, Num, UNIT)
from mirsym import env, models as M
from mirsym.models import ok, err, ready, some, none, BoxV, deref_all
from mirsym.mk import Mk, fld
from props import coro
from props.coro import EnvFuture
from props.c11 import panic_key
import framework as F

NET = 'zksync_consensus_network'


def same_batch(got, batch):
    gi = getattr(got, 'items', None)
    return gi is not None and len(gi) == len(batch.items) and all(deref_all(x) is deref_all(y) for x, y in zip(gi, batch.items))


def run(rep, db, tier):
    name = 'push_validator_addrs handler: the batch reaches the address book once, unchanged, with the current schedule; nothing is applied without one'
    t0 = time.time()
    ex = Exec(db, loop_bound=6)
    env.install(ex); coro.install_futures(ex)
    n_before = len(ex.user_models)
    cur = [None]; log = lambda: cur[0]
    mk = Mk(db, NET)
    def schedule(e, n, a):
        c = e.choose(3, 'schedule')
        if c == 0: log().append(('schedule_error',)); return err(Opaque('anyhow::Error'))
        if c == 1: log().append(('no_committee',)); return ok(none())
        log().append(('schedule',)); return ok(some(Opaque('current schedule')))
    ex.model(r'zksync_consensus_network::gossip::Network::validator_schedule', schedule)
    def update(e, n, a):
        def respond(e2):
            okk = e2.choose(2, 'batch_accepted') == 0
            log().append(('update', deref_all(a[0]), deref_all(a[1]), deref_all(a[2]), okk))
            return ready(ok(UNIT) if okk else err(Opaque('anyhow::Error')))
        return EnvFuture('ValidatorAddrsWatch::update', respond)
    ex.model(r'zksync_consensus_network::gossip::validator_addrs::ValidatorAddrsWatch::update', update)
    ex.model(r'std::sync::atomic::Atomic(Usize|U64)?(::<.*>)?::fetch_add|std::intrinsics::atomic_xadd::<.*>', lambda e, n, a: Num(0, 64))
    mine = ex.user_models[n_before:]; del ex.user_models[n_before:]; ex.user_models[0:0] = mine; ex._um_cache = {}
    keys = db.find(r"<&zksync_consensus_network::gossip::runner::PushServer<'_> as zksync_consensus_network::rpc::Handler<zksync_consensus_network::rpc::push_validator_addrs::Rpc>>::handle", kinds=('fn', 'inst'))
    if not keys:
        rep.add(F.Obligation(name, 'inconclusive', 'handler body not found in the dump')); return
    try:
        ps_t = mk.ty(r'zksync_consensus_network::gossip::runner::PushServer'); net_t = mk.ty(r'zksync_consensus_network::gossip::Network')
        req_t = mk.ty(r'zksync_consensus_network::rpc::push_validator_addrs::Req')
    except Unmodelled as u:
        rep.add(F.Obligation(name, 'inconclusive', str(u)[:400])); return
    viol = {}; applied = 0

    def body(ex):
        cur[0] = []
        net = Agg('adt', net_t, 0, [Opaque('n_' + f['name']) for f in net_t['info']['variants'][0]['fields']])
        server = Agg('adt', ps_t, 0, [Ref(Cell(net)) if f['name'] == 'net' else Opaque('ps_' + f['name']) for f in ps_t['info']['variants'][0]['fields']])
        batch = M.VecV([BoxV(Opaque('announcement 1')), BoxV(Opaque('announcement 2'))])
        req = Agg('adt', req_t, 0, [batch])
        fut = ex.call_key(keys[0], [Ref(Cell(Ref(Cell(server)))), Ref(Cell(Opaque('ctx'))), req])
        while isinstance(fut, Agg) and isinstance(fut.name, str) and fut.name.endswith('Pin') and fut.fields: fut = fut.fields[0]
        r = coro.poll_value(ex, fut if isinstance(fut, (Ref, BoxV)) else Ref(Cell(fut)))
        return r, batch, list(cur[0])
    try:
        res = explore(ex, body, budget_s=300)
    except (Unmodelled, BoundExceeded, KeyError) as u:
        rep.absorb_stats(ex.stats); rep.add(F.Obligation(name, 'inconclusive', f'{type(u).__name__}: {u}'[:700])); return
    rep.absorb_stats(ex.stats)
    for kind, val, pc, _ in res:
        if kind == 'panic':
            viol.setdefault('push-addrs:' + panic_key(val), f'the push_validator_addrs handler panics: {val[0]} at {val[1]}'); continue
        r, batch, lg = val
        if r.variant == 1: continue
        out = r.fields[0]; evs = [e[0] for e in lg]
        ups = [e for e in lg if e[0] == 'update']
        if 'schedule_error' in evs:
            if ups: viol.setdefault('push-addrs:schedule-error-ignored', 'the validator schedule could not be obtained, yet the batch is applied')
            continue
        if 'no_committee' in evs:
            if ups: viol.setdefault('push-addrs:applied-without-committee', 'a batch is applied although the network has no validator committee')
            continue
        applied += 1; rep.nontrivial += 1
        okk = len(ups) == 1 and getattr(ups[0][1], 'tag', None) == 'n_validator_addrs' and getattr(ups[0][2], 'tag', None) == 'current schedule' and same_batch(ups[0][3], batch)
        if not okk:
            viol.setdefault('push-addrs:not-applied', f'with a committee present the pushed batch does not reach the address book exactly once, unchanged and with the current schedule (events {evs})')
        # (whether a rejected batch also fails the RPC — and so disconnects the peer — is a policy the property does not fix: not demanded)
    for k, text in viol.items():
        rep.violation(F.Violation(rep.prop, k, text, None, None))
    if applied == 0 and not viol:
        rep.add(F.Obligation(name, 'inconclusive', 'no path applies a batch (vacuous)')); return
    rep.add(F.Obligation(name, 'violated' if viol else 'discharged', paths=len(res), wall_s=round(time.time() - t0, 1)))
