"""C18 — the validator address book holds only authentic, newest announcements (engine M).

Real MIR executed: gossip::validator_addrs::ValidatorAddrs::update, ValidatorAddrsWatch::update (coroutine),
NetAddress::is_newer, Schedule::contains, Signed::<NetAddress>::verify. Arbitrary book over a committee of N members
(entries authentic by the invariant being proved), arbitrary batch of <= 2 (quick) / 3 announcements: sender key among
the members and one outsider, version / timestamp / address symbolic, signature validity symbolic (ideal signatures).
Obligations on every path:
 - Ok: every stored entry is the old one or a batch entry that is validly signed, by a member, and strictly newer in
   lexicographic (version, timestamp); non-members never stored; `changed` iff something was inserted;
 - Err iff the batch has a duplicated key or a forged newer member entry (at the first such position);
   forged entries are never stored, not even on the Err path;
 - the PUBLISHED book (watch contents, ValidatorAddrsWatch::update) is unchanged when the batch is rejected and equals
   the updated copy otherwise;
 - commutation: two valid single-entry batches for one key with different (version, timestamp) give the same book in
   either order.
"""
import itertools, time
import z3
from mirsym.core import (Exec, explore, solve, Num, Agg, Ref, Cell, Opaque, Panic, Unmodelled, num_cmp, b_and, b_or, b_not, to_z3_bool, UNIT)
from mirsym import env, models as M
from mirsym.models import some, none, ok, err, ready, BoxV, VecV, MapV, deref_all
from mirsym.mk import Mk, fld
from framework import Obligation, Violation
from props import c02, c04, coro
from props.coro import EnvFuture
from props.c11 import panic_key
import replay

PROP = 'C18'
V = c02.V
NETC = 'zksync_consensus_network'


def zb(x): return to_z3_bool(x)


class Ann:
    """symbolic announcement"""
    def __init__(self, ex, mk, tag, ki, valid=None):
        self.ki = ki; self.tag = tag
        self.version = ex.fresh(f'{tag}_version'); self.ts = ex.fresh(f'{tag}_ts', 64, True)
        self.addr = z3.Int(f'{tag}_addr')
        self.ok = z3.Bool(f'{tag}_sig_ok') if valid is None else valid
        utc_t = mk.ty(r'zksync_concurrency::time::Utc')
        utc = Agg('adt', utc_t, 0, [self.ts])
        self.msg = mk.adt(V + r'discovery::NetAddress', addr=Opaque(self.addr), version=self.version, timestamp=utc)
        key = Opaque(('key', ki))
        self.signed = mk.adt(V + r'msg::Signed', display=r'.*Signed<.*NetAddress>', msg=self.msg, key=key, sig=c04.GhostSig(self.msg, key, self.ok))
        self.arc = BoxV(self.signed)

    def newer_than(self, o):
        return z3.Or(self.version.e > o.version.e, z3.And(self.version.e == o.version.e, self.ts.e > o.ts.e))


def install(ex, db):
    c04.install(ex); coro.install_futures(ex)

    def verify_msg(e, n, a):
        sig = deref_all(a[0])
        return ok(UNIT) if e.branch(sig.ok) else err(Opaque('anyhow::Error'))
    ex.model(r'zksync_consensus_roles::validator::keys::signature::Signature::verify_msg', verify_msg)
    ex.user_models.insert(0, ex.user_models.pop()); ex._um_cache = {}

    # network::watch::Watch<T> = mutex around a watch sender; the guard derefs to the sender
    def watch_lock(e, n, a):
        wv = M.deref_all(a[0])
        while not isinstance(wv, M.WatchV):
            if isinstance(wv, Agg) and len(wv.fields) >= 1: wv = M.deref_all(wv.fields[0])
            else: raise Unmodelled('Watch::lock receiver')
        def respond(e2):
            hook = getattr(e2, 'at_lock', None)
            if hook is not None: hook(e2, wv)
            return ready(wv)
        return EnvFuture('watch.lock', respond)
    ex.model_path('zksync_consensus_network::watch::Watch::lock', watch_lock)

    def watch_subscribe(e, n, a):
        wv = M.deref_all(a[0])
        while not isinstance(wv, M.WatchV):
            if isinstance(wv, Agg) and len(wv.fields) >= 1: wv = M.deref_all(wv.fields[0])
            else: raise Unmodelled('Watch::subscribe receiver')
        return coro.WatchReceiver(wv)
    ex.model(r'zksync_consensus_network::watch::Watch::<.*>::subscribe', watch_subscribe)
    ex.model(r'(tokio|zksync_concurrency)::sync::watch::Sender::<.*>::borrow', lambda e, n, a: coro.WatchRef(M.deref_all(a[0])))
    ex.model(r'<(tokio|zksync_concurrency)::sync::watch::Ref<.*> as std::ops::Deref>::deref', lambda e, n, a: Ref(M.deref_all(a[0]).watch.cell))
    ex.model(r'<(tokio|zksync_concurrency)::sync::MutexGuard<.*> as std::ops::Deref(Mut)?>::deref(_mut)?', lambda e, n, a: a[0])

    def send_replace(e, n, a):
        wv = M.deref_all(a[0]); old = wv.cell.v; wv.cell.v = a[1]; wv.version += 1; return old
    ex.model(r'(tokio|zksync_concurrency)::sync::watch::Sender::<.*>::send_replace', send_replace)

    def send_if_modified(e, n, a):
        wv = M.deref_all(a[0])
        r = e.call_closure(a[1], [Ref(wv.cell)])
        if e.branch(r): wv.version += 1
        return r
    ex.model(r'(tokio|zksync_concurrency)::sync::watch::Sender::<.*>::send_if_modified(::<.*>)?', send_if_modified)


def build(ex, db, N, B):
    mkn = Mk(db, NETC); mkr = Mk(db, 'zksync_consensus_roles')
    ws = [ex.fresh(f'w{i}') for i in range(N)]
    for w in ws: ex.assume(w.e >= 1)
    sched, total = c02.mk_schedule(ex, mkr, ws)
    book_entries = []; pre = {}
    for i in range(N):
        if ex.choose(2, f'has{i}') == 0:
            a = Ann(ex, mkn, f'old{i}', i, valid=True)
            pre[i] = a; book_entries.append((Opaque(('key', i)), a.arc))
    book = mkn.tuple_struct(r'zksync_consensus_network::gossip::validator_addrs::ValidatorAddrs', MapV(book_entries, ordered=False, kind='map'))
    batch = []
    for j in range(B):
        ki = ex.choose(N + 1, f'bkey{j}')
        batch.append(Ann(ex, mkn, f'new{j}', ki))
    return sched, book, pre, batch


def expected(N, pre, batch):
    """(err condition, per-batch-entry 'inserted' conditions) by the statement; first error wins"""
    err_before = z3.BoolVal(False)
    inserted = []
    errs = []
    for j, d in enumerate(batch):
        dup = z3.BoolVal(any(batch[i].ki == d.ki for i in range(j)))
        member = d.ki < N
        newer = z3.BoolVal(True) if d.ki not in pre else d.newer_than(pre[d.ki])
        forged = z3.And(z3.BoolVal(member), newer, z3.Not(d.ok)) if member else z3.BoolVal(False)
        e_here = z3.Or(dup, forged)
        ins = z3.And(z3.Not(err_before), z3.Not(e_here), z3.BoolVal(member), newer, d.ok)
        inserted.append(ins); errs.append(z3.And(z3.Not(err_before), e_here))
        err_before = z3.Or(err_before, e_here)
    return err_before, inserted


def check_update(rep, db, N, B, via_watch):
    ex = Exec(db, loop_bound=4 * B + 12)
    ex.hash_order_insertion = True
    install(ex, db)
    mkn = Mk(db, NETC)

    def body(ex):
        sched, book, pre, batch = build(ex, db, N, B)
        data = VecV([d.arc for d in batch], 'slice')
        if via_watch:
            watch = M.WatchV(book)
            w_t = mkn.ty(r'zksync_consensus_network::gossip::validator_addrs::ValidatorAddrsWatch')
            inner_t = db.ty(NETC, w_t['info']['variants'][0]['fields'][0]['ty'])
            inner = Agg('adt', inner_t, 0, [watch] + [Opaque('x')] * (len(inner_t['info']['variants'][0]['fields']) - 1))
            vw = Agg('adt', w_t, 0, [inner])
            pre_entries = [(k, c.v) for k, c in fld(book, '0').entries]
            key = db.find_one(r'zksync_consensus_network::gossip::validator_addrs::ValidatorAddrsWatch::update', kinds=('fn',))
            r = coro.run_async(ex, key, [Ref(Cell(vw)), Ref(Cell(sched)), Ref(Cell(data))])
            post = fld(watch.cell.v, '0')
            return r, pre, batch, post, pre_entries
        cell = Cell(book)
        pre_entries = [(k, c.v) for k, c in fld(book, '0').entries]
        r = ex.call_by_name(r'zksync_consensus_network::gossip::validator_addrs::ValidatorAddrs::update', [Ref(cell), Ref(Cell(sched)), Ref(Cell(data))])
        return r, pre, batch, fld(cell.v, '0'), pre_entries
    res = explore(ex, body, budget_s=1500)
    rep.absorb_stats(ex.stats)
    viol = []
    what = 'ValidatorAddrsWatch::update' if via_watch else 'ValidatorAddrs::update'
    for kind, val, pc, log in res:
        if kind == 'panic':
            st, m = solve(pc, None)
            if st == 'sat': viol.append((panic_key(val), f'{what} panics: {val[0]} at {val[1]}', m))
            continue
        r, pre, batch, post, pre_entries = val
        if r == 'pending': continue
        rep.nontrivial += 1
        exp_err, exp_ins = expected(N, pre, batch)
        is_err = r.variant == 1
        conds = [exp_err if is_err else z3.Not(exp_err)]
        stored = {}
        for k, c in post.entries:
            stored[k.tag[1]] = c.v
        # every stored entry: old one, or an inserted batch entry per the statement
        for ki, v in stored.items():
            if ki in pre and v is pre[ki].arc: continue
            src = [j for j, d in enumerate(batch) if d.arc is v]
            if not src:
                conds.append(z3.BoolVal(False)); continue
            j = src[0]
            d = batch[j]
            member = d.ki < N
            newer = z3.BoolVal(True) if d.ki not in pre else d.newer_than(pre[d.ki])
            conds.append(z3.And(z3.BoolVal(member and d.ki == ki), d.ok, newer))
        if via_watch and is_err:
            # a rejected batch leaves the published book unchanged
            same = len(post.entries) == len(pre_entries) and all(any(c.v is pv and k.tag == pk.tag for pk, pv in pre_entries) for k, c in post.entries)
            conds.append(z3.BoolVal(same))
        if not is_err:
            # completeness: everything the statement says is inserted is stored; old entries are kept otherwise
            for j, d in enumerate(batch):
                conds.append(z3.Implies(exp_ins[j], z3.BoolVal(stored.get(d.ki) is d.arc)))
            for ki, a in pre.items():
                replaced = z3.Or(*[exp_ins[j] for j, d in enumerate(batch) if d.ki == ki]) if any(d.ki == ki for d in batch) else z3.BoolVal(False)
                conds.append(z3.Implies(z3.Not(replaced), z3.BoolVal(stored.get(ki) is a.arc)))
            if not via_watch:
                changed = r.fields[0]
                conds.append(zb(changed) == z3.Or(*exp_ins) if exp_ins else z3.Not(zb(changed)))
        st, m = solve(pc, z3.Not(z3.And(*conds)))
        if st == 'sat':
            viol.append((f'address-book:{"watch" if via_watch else "update"}:{"err" if is_err else "ok"}', f'{what} ({"Err" if is_err else "Ok"} path) leaves an address book that differs from the specified one (N={N}, batch of {B})', m))
        elif st != 'unsat': raise Unmodelled('solver unknown')
    return viol, len(res)


def long_batch_size(db):
    """a batch longer than every small integer constant that occurs in the address-book code (chunk sizes, caps): constants are
    read from the MIR of the bodies defined in gossip/validator_addrs.rs, so a batch-size boundary introduced there is crossed"""
    import json, re as _re
    best = 4
    try:
        for line in open(db.prefix + f'.{NETC}.jsonl'):
            if not _re.search(r'"name":"[^"]*gossip::validator_addrs::[^"]*","(rec|resolved)', line[-700:]) and 'gossip/validator_addrs.rs' not in line[-400:]: continue
            if not line.rstrip().endswith(('"rec":"fn"}', '"rec":"inst"}')) and '"rec":"fn"' not in line[-200:]: continue
            m = _re.search(r'"consts":(\{[^{}]*(?:\{[^{}]*\}[^{}]*)*\})', line)
            if not m: continue
            for c in _re.findall(r'"int":"(\d+)"', m.group(1)):
                c = int(c)
                if 2 <= c <= 40: best = max(best, c)
    except Exception:
        pass
    return best + 2


def check_long_batch(rep, db, B):
    """a batch of B announcements of B distinct members over an empty book, all authentic except ONE at a symbolic position (a forged
    signature, or the last entry repeating the first key): rejected, and the PUBLISHED book stays empty wherever the bad entry
    sits — in particular behind any internal batching boundary; an entirely authentic batch of B is stored completely"""
    ex = Exec(db, loop_bound=4 * B + 12)
    ex.hash_order_insertion = True
    install(ex, db)
    mkn = Mk(db, NETC); mkr = Mk(db, 'zksync_consensus_roles')

    def body(ex):
        ws = [ex.fresh(f'w{i}') for i in range(B)]
        for w in ws: ex.assume(w.e >= 1)
        sched, total = c02.mk_schedule(ex, mkr, ws)
        case = ex.choose(B + 2, 'bad_position')          # 0..B-1: forged entry there; B: last entry repeats the first key; B+1: all good
        batch = []
        for j in range(B):
            ki = 0 if (case == B and j == B - 1) else j
            batch.append(Ann(ex, mkn, f'new{j}', ki, valid=(z3.BoolVal(False) if case == j else z3.BoolVal(True))))
        book = mkn.tuple_struct(r'zksync_consensus_network::gossip::validator_addrs::ValidatorAddrs', MapV([], ordered=False, kind='map'))
        data = VecV([d.arc for d in batch], 'slice')
        watch = M.WatchV(book)
        w_t = mkn.ty(r'zksync_consensus_network::gossip::validator_addrs::ValidatorAddrsWatch')
        inner_t = db.ty(NETC, w_t['info']['variants'][0]['fields'][0]['ty'])
        inner = Agg('adt', inner_t, 0, [watch] + [Opaque('x')] * (len(inner_t['info']['variants'][0]['fields']) - 1))
        vw = Agg('adt', w_t, 0, [inner])
        key = db.find_one(r'zksync_consensus_network::gossip::validator_addrs::ValidatorAddrsWatch::update', kinds=('fn',))
        r = coro.run_async(ex, key, [Ref(Cell(vw)), Ref(Cell(sched)), Ref(Cell(data))])
        return r, case, batch, fld(watch.cell.v, '0')
    res = explore(ex, body, budget_s=900)
    rep.absorb_stats(ex.stats)
    viol = []
    for kind, val, pc, log in res:
        if kind == 'panic':
            st, m = solve(pc, None)
            if st == 'sat': viol.append((panic_key(val), f'ValidatorAddrsWatch::update panics on a batch of {B}: {val[0]} at {val[1]}', m))
            continue
        r, case, batch, post = val
        if r == 'pending': continue
        rep.nontrivial += 1
        st, m = solve(pc, None)
        if st != 'sat': continue
        stored = sorted(k.tag[1] for k, c in post.entries)
        if case <= B:
            what = f'a forged entry at position {case}' if case < B else 'a repeated key at the last position'
            if r.variant != 1:
                viol.append(('address-book:long-batch:accepted', f'a batch of {B} announcements with {what} is accepted', m))
            elif stored:
                viol.append(('address-book:long-batch:err', f'a batch of {B} announcements with {what} is rejected, but the published address book already holds the entries of validators {stored} from it (a rejected batch must leave the book unchanged)', m))
        else:
            if r.variant != 0 or stored != list(range(B)):
                viol.append(('address-book:long-batch:ok', f'an authentic batch of {B} announcements of {B} members is not stored completely (result {"Ok" if r.variant == 0 else "Err"}, stored {stored})', m))
    return viol, len(res)


def check_watch_interference(rep, db, N):
    """another writer publishes a strictly newer valid announcement (for a key this batch does not touch) while this
    update waits for the writer lock: whatever this update does afterwards, that announcement must still be published
    (no lost update: everything read before the lock is stale)"""
    ex = Exec(db, loop_bound=20); ex.hash_order_insertion = True
    install(ex, db)
    mkn = Mk(db, NETC)

    def body(ex):
        sched, book, pre, batch = build(ex, db, N, 1)
        oki = ex.choose(N, 'other_key')
        ex.assume(z3.BoolVal(all(d.ki != oki for d in batch)))
        other = Ann(ex, mkn, 'other', oki, valid=True)
        if oki in pre: ex.assume(other.newer_than(pre[oki]))
        data = VecV([d.arc for d in batch], 'slice')
        watch = M.WatchV(book)
        w_t = mkn.ty(r'zksync_consensus_network::gossip::validator_addrs::ValidatorAddrsWatch')
        inner_t = db.ty(NETC, w_t['info']['variants'][0]['fields'][0]['ty'])
        inner = Agg('adt', inner_t, 0, [watch] + [Opaque('x')] * (len(inner_t['info']['variants'][0]['fields']) - 1))
        vw = Agg('adt', w_t, 0, [inner])
        done = [False]
        def at_lock(e2, wv):
            if done[0]: return
            done[0] = True
            cur = fld(wv.cell.v, '0')
            ents = [(k, c.v) for k, c in cur.entries if k.tag[1] != oki] + [(Opaque(('key', oki)), other.arc)]
            wv.cell.v = mkn.tuple_struct(r'zksync_consensus_network::gossip::validator_addrs::ValidatorAddrs', MapV(ents, ordered=False, kind='map')); wv.version += 1
        ex.at_lock = at_lock
        key = db.find_one(r'zksync_consensus_network::gossip::validator_addrs::ValidatorAddrsWatch::update', kinds=('fn',))
        r = coro.run_async(ex, key, [Ref(Cell(vw)), Ref(Cell(sched)), Ref(Cell(data))])
        ex.at_lock = None
        post = fld(watch.cell.v, '0')
        return r, other, oki, post, done[0]
    res = explore(ex, body, budget_s=900)
    rep.absorb_stats(ex.stats)
    viol = []; n_int = 0
    for kind, val, pc, log in res:
        if kind == 'panic':
            st, m = solve(pc, None)
            if st == 'sat': viol.append((panic_key(val), f'ValidatorAddrsWatch::update panics: {val[0]} at {val[1]}', m))
            continue
        r, other, oki, post, interfered = val
        if r == 'pending' or not interfered: continue
        n_int += 1; rep.nontrivial += 1
        stored = {k.tag[1]: c.v for k, c in post.entries}
        if stored.get(oki) is not other.arc:
            st, m = solve(pc, None)
            if st == 'sat': viol.append(('address-book:lost-update', 'an announcement published by another writer while this update waited for the writer lock is lost: the update works on a copy taken before the lock', m))
    if n_int == 0 and not viol: raise Unmodelled('no path reaches the writer lock (vacuous)')
    return viol, len(res)


def check_commute(rep, db, N):
    ex = Exec(db, loop_bound=20); ex.hash_order_insertion = True
    install(ex, db)
    mkn = Mk(db, NETC)

    def body(ex):
        sched, book, pre, batch = build(ex, db, N, 2)
        ex.assume(z3.BoolVal(batch[0].ki == batch[1].ki and batch[0].ki < N))
        ex.assume(z3.And(batch[0].ok, batch[1].ok, z3.Or(batch[0].version.e != batch[1].version.e, batch[0].ts.e != batch[1].ts.e)))
        finals = []
        for order in ((0, 1), (1, 0)):
            b = M.clone_value(ex, book); cell = Cell(b)
            for j in order:
                r = ex.call_by_name(r'zksync_consensus_network::gossip::validator_addrs::ValidatorAddrs::update', [Ref(cell), Ref(Cell(sched)), Ref(Cell(VecV([batch[j].arc], 'slice')))])
                if r.variant == 1: raise Panic('a valid announcement was rejected')
            finals.append({k.tag[1]: c.v for k, c in fld(cell.v, '0').entries})
        return finals, batch
    res = explore(ex, body, budget_s=600)
    rep.absorb_stats(ex.stats)
    viol = []
    for kind, val, pc, log in res:
        if kind == 'panic':
            st, m = solve(pc, None)
            if st == 'sat': viol.append(('address-book:commute', f'applying two valid announcements: {val[0]}', m))
            continue
        (f1, f2), batch = val
        rep.nontrivial += 1
        if set(f1) != set(f2) or any(f1[k] is not f2[k] for k in f1):
            st, m = solve(pc, None)
            if st == 'sat': viol.append(('address-book:commute', 'two valid announcements of one validator give different address books depending on arrival order', m))
    return viol, len(res)


def witness(m):
    if m is None: return ''
    return 'witness: ' + ', '.join(f'{d.name()}={m[d]}' for d in sorted(m.decls(), key=lambda d: d.name()) if d.arity() == 0 and not d.name().startswith(('w', 'total', 'k!')) and '!' not in d.name())[:600]


def run(rep, db, tier, seed):
    rep.engines.append('mirsym (MIR symbolic execution + z3)')
    rep.trusted += M.TRUSTED + env.TRUSTED + ['im::HashMap = association list (iteration order irrelevant for the executed functions)', 'network::watch::Watch = mutex-guarded cell; lock() always succeeds; ideal signatures']
    rep.assumptions += ['gossip scheduling between nodes is outside; concurrent updates are serialised by the Watch mutex (one complete update of another writer is interleaved at the lock acquisition)']
    N = 2 if tier == 'quick' else 3
    Bs = [1, 2] if tier == 'quick' else [1, 2, 3]
    rep.bounds = dict(committee=N, outsider_keys=1, batch_sizes=Bs, versions='symbolic u64', timestamps='symbolic i64')
    seen = {}
    def handle(name, fn, *a):
        t0 = time.time()
        try:
            viol, n = fn(rep, db, *a)
            for key, text, m in viol:
                if key in seen: continue
                seen[key] = 1
                rep.violation(Violation(PROP, key, text + ' | ' + witness(m), None, None))
            rep.add(Obligation(name, 'violated' if viol else 'discharged', paths=n, wall_s=round(time.time() - t0, 1)))
            rep.samples.append(f'{name}: {n} feasible paths')
        except Unmodelled as u:
            rep.add(Obligation(name, 'inconclusive', str(u)[:600]))
    for B in Bs:
        handle(f'ValidatorAddrs::update, batch of {B}', check_update, N, B, False)
        handle(f'ValidatorAddrsWatch::update (published book), batch of {B}', check_update, N, B, True)
    LB = long_batch_size(db)
    rep.bounds['long_batch'] = f'{LB} announcements of {LB} distinct members over an empty book, one bad entry at every position (size = largest small integer constant in gossip/validator_addrs.rs + 2)'
    handle(f'ValidatorAddrsWatch::update, long batch of {LB} with one bad entry at every position', check_long_batch, LB)
    handle('ValidatorAddrsWatch::update with an interfering writer', check_watch_interference, N)
    handle('commutation of two valid announcements', check_commute, N)
    try:
        from props import c18_push
        c18_push.run(rep, db, tier)
    except Exception as u:
        rep.add(Obligation('push_validator_addrs handler', 'inconclusive', f'{type(u).__name__}: {u}'[:600]))
    rep.extra['explanation'] = 'one batch applied to an arbitrary authentic address book on the real MIR; all versions, timestamps and signature validities covered by solver verdicts'
