"""C19 (sequential kernel only) — the block fetch queue `gossip::fetch::Queue`.

Decided here, on the real MIR of `Queue::request` and `Queue::accept_block` (both coroutines, with the awaited
operations answered by contract and the scope inside `accept_block` sequentialised):
 request  - the block is in the queue while the requester waits; when the acceptor drops the completion channel
            (peer failed / timed out / disconnected) the request is RE-INSERTED; on success it returns Ok; when the
            requester gives up (context cancelled) the request is removed and Err(Canceled) returned;
          - the watchers are woken whenever the lowest requested block changes (insert and cancel closures);
 accept   - a request is handed out only if (i) it was the LOWEST requested block when the acceptor looked, and (ii)
            the peer's announced range contains it (first <= n < next) at the moment the wait ended, and (iii) it is
            removed from the queue in the same critical section in which it is handed out (one connection at a time),
            and the watchers are woken when the lowest requested block changes by the removal.
 worker   - the per-request task of a connection (gossip/runner.rs, props/c19_runner.py) signals completion only after
            queue_block accepted the received block carrying the requested number; every failure ends without a signal
            (the dropped channel makes the requester retry).
NOT decided (outside the claim, stated in DESIGN.md): lost-wake-up freedom and fairness under real interleavings of many
 fetcher  - `run_block_fetcher` (props/c19_fetcher.py, scopes sequentialised): requests are issued for queued().next(),
            next+1, ... with one in-flight permit each; each is kept until ITS block is queued and its permit until ITS
            block is persisted.
NOT decided (outside the claim, stated in DESIGN.md): lost-wake-up freedom and fairness under real interleavings of many
requesters and per-peer workers (the queue content is re-havocked at every await instead) and the accept loop of the
per-peer worker (reserve / accept / spawn)."""
import time
import z3
from mirsym.core import (Exec, explore, solve, Num, Agg, Ref, Cell, Opaque, Panic, Unmodelled, BoundExceeded, num_cmp, to_z3_bool, UNIT)
from mirsym import env, models as M
from mirsym.models import some, none, ok, err, ready, pending, MapV, deref_all
from mirsym.mk import Mk, fld, variant_name
from props import coro, c02
from props.coro import EnvFuture, CANCELED
from props.c11 import panic_key
from framework import Obligation, Violation

PROP = 'C19'
NET = 'zksync_consensus_network'
V = c02.V
BS = r'zksync_consensus_engine::block_store::'
LIM = 2 ** 62
Q = r'zksync_consensus_network::gossip::fetch::Queue::'


def zb(x): return to_z3_bool(x)


class Chan:
    """one oneshot channel; sender and receiver halves share the id"""
    def __init__(self, cid, half): self.cid = cid; self.half = half
    def py_clone(self, ex): return self
    def py_eq(self, ex, o): return isinstance(o, Chan) and o.cid == self.cid and o.half == self.half
    def __repr__(self): return f'{self.half}#{self.cid}'


class ScopeV:
    def __init__(self): self.tasks = []; self.cancelled = False
    def py_clone(self, ex): return self


def bn(mk, n): return mk.tuple_struct(V + r'block::BlockNumber', n)


def sym_map(ex, mk, tag, max_entries=2):
    """arbitrary queue content: <= max_entries requests with distinct ascending symbolic block numbers"""
    k = ex.choose(max_entries + 1, f'{tag}_len')
    keys = []
    for i in range(k):
        x = ex.fresh(f'{tag}_k{i}'); ex.assume(x.e < LIM)
        if keys: ex.assume(keys[-1].e < x.e)
        keys.append(x)
    return MapV([(bn(mk, x), Chan(f'{tag}{i}', 'tx')) for i, x in enumerate(keys)], True), keys


def keys_of(m):
    return [fld(k, '0') for k, c in m.entries]


def install(ex, st):
    env.install(ex); coro.install_futures(ex)
    n_before = len(ex.user_models)
    cnt = [0]

    def channel(e, n, a):
        cnt[0] += 1; cid = f'new{cnt[0]}'
        st().setdefault('chans', []).append(cid)
        return Agg('tuple', None, 0, [Chan(cid, 'tx'), Chan(cid, 'rx')])
    ex.model(r'(tokio::sync|zksync_concurrency)::oneshot::channel(::<.*>)?', channel)

    def recv_or_disconnected(e, n, a):
        rx = deref_all(a[0])
        def respond(e2):
            s = st(); s['rounds'] = s.get('rounds', 0) + 1
            # queue content as the requester left it; other tasks may change it while the requester sleeps
            s['log'].append(('sleep', snapshot(s)))
            c = e2.choose(3, 'recv')
            if c == 0: s['log'].append(('done',)); return ready(ok(ok(UNIT)))
            if c == 1:
                s['log'].append(('canceled',)); return ready(err(CANCELED))
            if s['rounds'] > s['max_rounds']: return pending()
            # the acceptor dropped the sender: it had taken the entry out of the queue before
            havoc_remove(e2, s, rx.cid)
            s['log'].append(('disconnected',)); return ready(ok(err(Agg('adt', 'Disconnected', 0, []))))
        return EnvFuture('oneshot.recv', respond)
    ex.model(r'(tokio::sync|zksync_concurrency)::oneshot::Receiver::<.*>::recv_or_disconnected', recv_or_disconnected)

    def send_if_modified(e, n, a):
        wv = deref_all(a[0]); s = st()
        before = list(wv.cell.v.entries)
        flag = e.call_closure(a[1], [Ref(wv.cell)])
        s['log'].append(('critical', before, list(wv.cell.v.entries), flag))
        return flag
    ex.model(r'(tokio|zksync_concurrency)::sync::watch::Sender::<.*>::send_if_modified(::<.*>)?', send_if_modified)

    # ---- accept_block: scope with one spawned task, sequentialised
    def scope_new(e, n, a): return ScopeV()
    ex.model(r'zksync_concurrency::scope::Scope::<.*>::new', scope_new)

    def spawn(e, n, a):
        sc = deref_all(a[0]); sc.tasks.append(dict(fut=Cell(a[1]), done=False)); return Opaque('join_handle')
    ex.model(r'zksync_concurrency::scope::Scope::<.*>::spawn(::<.*>)?', spawn)

    def run_tasks(e2, sc):
        for t in sc.tasks:
            if t['done']: continue
            r = coro.poll_value(e2, Ref(t['fut']))
            if r.variant == 1: continue
            t['done'] = True
            if r.fields[0].variant == 1: sc.cancelled = True

    def scope_run(e, n, a):
        sc = deref_all(a[0]); clo = a[1]; s = st(); s['scope'] = sc
        root = [None]
        def respond(e2):
            if root[0] is None:
                root[0] = Cell(e2.call_closure(clo, [Ref(Cell(Opaque('scope_ctx'))), Ref(Cell(sc))]))
            r = coro.poll_value(e2, Ref(root[0]))
            if r.variant == 1: return pending()
            if r.fields[0].variant == 1: sc.cancelled = True
            # the scope returns once every task has finished; the ones still waiting see the cancelled context
            sc.cancelled = True if sc.cancelled else sc.cancelled
            run_tasks(e2, sc)
            if any(not t['done'] for t in sc.tasks): return pending()
            # the scope's completion is itself a suspension point (join of the spawned wait, termination signal): other
            # acceptors / requesters may run between the end of the wait and the critical section that removes the request
            s_ = st()
            if s_['log'] and s_['log'][-1][0] == 'available' and not s_.get('interfered') and e2.choose(2, 'post_scope_interference') == 1:
                s_['interfered'] = True
                havoc(e2, s_, 'post'); s_['log'].append(('interference',))
            return ready(r.fields[0])
        return EnvFuture('scope.run', respond)
    ex.model(r'zksync_concurrency::scope::Scope::<.*>::run(::<.*>)?', scope_run)

    def changed(e, n, a):
        recv = deref_all(a[1])
        def respond(e2):
            s = st(); sc = s['scope']
            if sc.cancelled: return ready(err(CANCELED))
            order = e2.choose(3, 'scope_order')
            if order == 0:
                # the spawned wait makes progress first
                run_tasks(e2, sc)
                if sc.cancelled: return ready(err(CANCELED))
                return pending()
            if order == 1:
                # the queue changes first (another requester / acceptor): arbitrary new content
                havoc(e2, s, 'chg')
                s['log'].append(('changed',))
                return ready(ok(coro.WatchRef(recv.watch)))
            s['log'].append(('ctx_canceled',)); sc.cancelled = True
            return ready(err(CANCELED))
        return EnvFuture('sync.changed', respond)
    ex.model_path('zksync_concurrency::sync::changed', changed)

    def wait_for(e, n, a):
        recv = deref_all(a[1]); pred = a[2]
        watch = recv.watch if hasattr(recv, 'watch') else recv
        def respond(e2):
            s = st(); sc = s.get('scope')
            if sc is not None and sc.cancelled: return ready(err(CANCELED))
            # the peer announces an arbitrary range; the wait ends when the real predicate holds on it
            holds = e2.call_closure(pred, [Ref(watch.cell)])
            if e2.branch(holds):
                s['log'].append(('available', watch.cell.v)); return ready(ok(coro.WatchRef(watch)))
            return pending()
        return EnvFuture('wait_for', respond)
    ex.model_path('zksync_concurrency::sync::wait_for', wait_for)

    def borrow_and_update(e, n, a):
        recv = deref_all(a[0]); s = st()
        if isinstance(recv.watch.cell.v, MapV): s['log'].append(('observe', list(recv.watch.cell.v.entries)))
        return coro.WatchRef(recv.watch)
    ex.model(r'(tokio|zksync_concurrency)::sync::watch::Receiver::<.*>::borrow_and_update', borrow_and_update)

    def is_active(e, n, a):
        s = st(); s['iters'] = s.get('iters', 0) + 1
        if s['iters'] > s['max_rounds'] + 1: return False
        return e.choose(2, 'is_active') == 0
    ex.model(r'zksync_concurrency::ctx::Ctx::is_active', is_active)
    # the models of this module take precedence over the generic ones
    mine = ex.user_models[n_before:]; del ex.user_models[n_before:]
    ex.user_models[0:0] = mine; ex._um_cache = {}


def snapshot(s):
    return list(s['watch'].cell.v.entries)


def havoc(e2, s, tag):
    s['hv'] = s.get('hv', 0) + 1
    m, _ = sym_map(e2, s['mk'], f'{tag}{s["hv"]}')
    s['watch'].cell.v = m


def havoc_remove(e2, s, cid):
    """other tasks ran while the requester slept: arbitrary other requests, and ours was taken by an acceptor"""
    s['hv'] = s.get('hv', 0) + 1
    m, keys = sym_map(e2, s['mk'], f'oth{s["hv"]}')
    for k in keys: e2.assume(k.e != s['n'].e)
    s['watch'].cell.v = m


def queue_value(db, mk, watch):
    t = mk.ty(Q[:-2]) if hasattr(mk, 'ty') else None
    return mk.adt(Q[:-2], blocks=watch)


def min_changed(ex, before, after):
    """z3 condition: the lowest key of `after` differs from the lowest key of `before` (both entry lists, ascending)"""
    if not after: return z3.BoolVal(False)         # nobody left to wake up for
    if not before: return z3.BoolVal(True)
    return z3.Not(zb(num_cmp('Eq', fld(before[0][0], '0'), fld(after[0][0], '0'))))


def contains_key(entries, n):
    return z3.Or(*[zb(num_cmp('Eq', fld(k, '0'), n)) for k, c in entries]) if entries else z3.BoolVal(False)


# ------------------------------------------------------------------------------------------------ request
def check_request(rep, db, rounds):
    ex = Exec(db, loop_bound=8)
    cur = [None]
    install(ex, lambda: cur[0])
    mk = Mk(db, NET)
    key = db.find_one(Q + 'request', kinds=('fn',))

    def body(ex):
        s = dict(log=[], max_rounds=rounds, mk=mk); cur[0] = s
        m, keys = sym_map(ex, mk, 'q')
        n = ex.fresh('n'); ex.assume(n.e < LIM)
        # concurrent requests for the same number are documented as unsupported
        for k in keys: ex.assume(k.e != n.e)
        watch = M.WatchV(m); s['watch'] = watch; s['n'] = n
        q = queue_value(db, mk, watch)
        item = mk.adt(r'zksync_consensus_network::gossip::fetch::RequestItem', 'Block', _0=bn(mk, n))
        r = coro.run_async(ex, key, [Ref(Cell(q)), Ref(Cell(Opaque('ctx'))), item])
        return r, n, list(s['log']), snapshot(s)
    res = explore(ex, body, budget_s=900); rep.absorb_stats(ex.stats)
    viol = []

    def need(pc, key_, text, cond):
        st_, m = solve(pc, z3.Not(cond))
        if st_ == 'sat': viol.append((key_, text, m))
        elif st_ != 'unsat': raise Unmodelled('solver unknown')
    for kind, val, pc, _ in res:
        if kind == 'panic':
            st_, m = solve(pc, None)
            if st_ == 'sat': viol.append((f'request:{panic_key(val)}', f'Queue::request panics: {val[0]} at {val[1]}', m))
            continue
        r, n, log, final = val; rep.nontrivial += 1
        last_crit = None; expect_insert = True
        for ev in log:
            if ev[0] == 'critical':
                _, before, after, flag = ev
                last_crit = ev
                if expect_insert:
                    need(pc, 'request:not-queued', 'after the insert step the requested block is not in the queue', contains_key(after, n))
                    need(pc, 'request:insert-disturbs-others', 'the insert step dropped or added other requests', z3.BoolVal(len(after) == len(before) + 1))
                    need(pc, 'request:insert-no-wakeup', 'the lowest requested block changed by the insert but the watchers are not woken', z3.Implies(min_changed(ex, before, after), zb(flag)))
                    expect_insert = False
                else:
                    need(pc, 'request:cancel-not-removed', 'a cancelled request stays in the queue', z3.Not(contains_key(after, n)))
                    need(pc, 'request:cancel-no-wakeup', 'the lowest requested block changed by the removal but the watchers are not woken', z3.Implies(min_changed(ex, before, after), zb(flag)))
            elif ev[0] == 'sleep':
                need(pc, 'request:not-queued-while-waiting', 'the requester waits for completion although its request is not in the queue', contains_key(ev[1], n))
                if expect_insert:
                    need(pc, 'request:lost-after-failure', 'after the acceptor dropped the completion channel the requester waits again without re-inserting the request', z3.BoolVal(False))
            elif ev[0] == 'disconnected':
                expect_insert = True
        evs = [e[0] for e in log]
        if r == 'pending': continue
        if evs and evs[-1] == 'disconnected' or (expect_insert and 'disconnected' in evs):
            need(pc, 'request:lost-after-failure', 'the request ends although the peer it was handed to failed (completion channel dropped): it is neither stored nor requested', z3.BoolVal(False))
        if 'done' in evs:
            need(pc, 'request:result', 'completion was signalled but request() did not return Ok', z3.BoolVal(r.variant == 0))
        elif 'canceled' in evs:
            need(pc, 'request:result', 'the requester gave up but request() did not return Err(Canceled)', z3.BoolVal(r.variant == 1))
            need(pc, 'request:cancel-not-removed', 'a cancelled request stays in the queue', z3.Not(contains_key(final, n)))
        else:
            need(pc, 'request:spurious-return', 'request() returned although the block was neither stored nor given up', z3.BoolVal(False))
    return viol, len(res)


# ------------------------------------------------------------------------------------------------ accept_block
def state_range(st):
    first = fld(fld(st, 'first'), '0')
    last = fld(st, 'last')
    if last.variant == 0: return first.e, first.e
    l = last.fields[0]
    if variant_name(l) != 'PreGenesis': raise Unmodelled('Last::FinalV2 announced state')
    return first.e, fld(l.fields[0], '0').e + 1


def check_accept(rep, db, rounds):
    ex = Exec(db, loop_bound=8)
    cur = [None]
    install(ex, lambda: cur[0])
    mk = Mk(db, NET); mke = Mk(db, 'zksync_consensus_engine')
    key = db.find_one(Q + 'accept_block', kinds=('fn',))

    def body(ex):
        s = dict(log=[], max_rounds=rounds, mk=mk); cur[0] = s
        m, keys = sym_map(ex, mk, 'q')
        watch = M.WatchV(m); s['watch'] = watch
        q = queue_value(db, mk, watch)
        first = ex.fresh('peer_first'); ex.assume(first.e < LIM)
        if ex.choose(2, 'peer_empty') == 0: last = none()
        else:
            l = ex.fresh('peer_last'); ex.assume(l.e < LIM)
            last = some(mke.adt(BS + 'Last', 'PreGenesis', _0=bn(mke, l)))
        avail = M.WatchV(mke.adt(BS + 'BlockStoreState', first=bn(mke, first), last=last))
        r = coro.run_async(ex, key, [Ref(Cell(q)), Ref(Cell(Opaque('ctx'))), Ref(Cell(coro.WatchReceiver(avail)))])
        return r, list(s['log']), snapshot(s)
    res = explore(ex, body, budget_s=1200); rep.absorb_stats(ex.stats)
    viol = []

    def need(pc, key_, text, cond):
        st_, m = solve(pc, z3.Not(cond))
        if st_ == 'sat': viol.append((key_, text, m))
        elif st_ != 'unsat': raise Unmodelled('solver unknown')
    handed = 0
    for kind, val, pc, _ in res:
        if kind == 'panic':
            st_, m = solve(pc, None)
            if st_ == 'sat': viol.append((f'accept:{panic_key(val)}', f'Queue::accept_block panics: {val[0]} at {val[1]}', m))
            continue
        r, log, final = val
        if r == 'pending' or r.variant == 1: continue
        rep.nontrivial += 1; handed += 1
        call = r.fields[0]                      # (BlockNumber, Sender)
        k = fld(call.fields[0], '0'); tx = call.fields[1]
        obs = [e for e in log if e[0] == 'observe']; av = [e for e in log if e[0] == 'available']; crit = [e for e in log if e[0] == 'critical']
        if not av:
            need(pc, 'accept:not-announced', 'a request is handed to a peer without waiting for the peer to announce the block', z3.BoolVal(False)); continue
        # the observation that preceded the successful wait
        idx_av = max(i for i, e in enumerate(log) if e[0] == 'available')
        prev_obs = [e for e in log[:idx_av] if e[0] == 'observe']
        if not prev_obs or not prev_obs[-1][1]:
            need(pc, 'accept:not-lowest', 'a block is handed out that was not taken from the queue', z3.BoolVal(False)); continue
        lowest = fld(prev_obs[-1][1][0][0], '0')
        need(pc, 'accept:not-lowest', 'the block handed to the peer is not the lowest requested block seen by the acceptor', zb(num_cmp('Eq', k, lowest)))
        f_, nx = state_range(av[-1][1])
        need(pc, 'accept:not-announced', 'the block handed to the peer is outside the range the peer announced (first <= n < next)', z3.And(f_ <= k.e, k.e < nx))
        if not crit:
            need(pc, 'accept:not-removed', 'the request is handed out without being removed from the queue', z3.BoolVal(False)); continue
        _, before, after, flag = crit[-1]
        need(pc, 'accept:not-removed', 'the request handed out is still in the queue (it could be handed to a second connection)', z3.Not(contains_key(after, k)))
        was = [c for kk, c in before if True]
        need(pc, 'accept:wrong-channel', 'the completion channel returned is not the one stored for that block',
             z3.Or(*[z3.And(zb(num_cmp('Eq', fld(kk, '0'), k)), z3.BoolVal(isinstance(deref_all(tx), Chan) and deref_all(c.v if isinstance(c, Cell) else c).cid == deref_all(tx).cid)) for kk, c in before]) if before else z3.BoolVal(False))
        need(pc, 'accept:removal-disturbs-others', 'the removal dropped other requests', z3.BoolVal(len(after) == len(before) - 1))
        need(pc, 'accept:no-wakeup', 'the lowest requested block changed by the removal but the watchers are not woken', z3.Implies(min_changed(ex, before, after), zb(flag)))
    return viol, len(res), handed


def witness(m):
    if m is None: return ''
    return ', '.join(f'{d.name()}={m[d]}' for d in sorted(m.decls(), key=lambda d: d.name()) if d.arity() == 0 and '!' not in d.name())[:500]


def run(rep, db, tier, seed):
    rep.engines.append('mirsym (MIR symbolic execution of the Queue coroutines + z3)')
    rep.trusted += M.TRUSTED + env.TRUSTED + ['oneshot / watch channels and scope::run answered by contract: the scope inside accept_block is sequentialised (the spawned wait and the change notification complete in either order, or the context is cancelled); the queue content is replaced by an arbitrary one at every point where other tasks can run']
    rep.assumptions += ['interleavings inside a critical section do not exist (watch::Sender::send_if_modified holds the lock)', 'concurrent request() calls for the same block number are excluded (documented as unsupported)']
    rounds = 2 if tier == 'quick' else 3
    rep.bounds = dict(queue='<= 2 other outstanding requests, symbolic block numbers', retries=f'<= {rounds} failures of the peer per request', accept=f'<= {rounds + 1} iterations of the accept loop', peer_range='symbolic first / last (pre-genesis form)')
    seen = {}
    def handle(name, fn):
        t0 = time.time()
        try:
            out = fn(rep, db, rounds)
            viol, n = out[0], out[1]
            if len(out) > 2 and out[2] == 0:
                rep.add(Obligation(name, 'inconclusive', 'no path hands out a request: vacuous')); return
            for key, text, m in viol:
                if key in seen: continue
                seen[key] = 1
                rep.violation(Violation(PROP, key, text, None, None, witness(m)))
            rep.add(Obligation(name, 'violated' if viol else 'discharged', paths=n, wall_s=round(time.time() - t0, 1)))
            rep.samples.append(f'{name}: {n} feasible paths')
        except (Unmodelled, KeyError, BoundExceeded) as u:
            rep.add(Obligation(name, 'inconclusive', f'{type(u).__name__}: {u}'[:700]))
    handle('Queue::request (insert, wait, retry on failure, cancel)', check_request)
    handle('Queue::accept_block (lowest announced request, removed in the critical section)', check_accept)
    try:
        from props import c19_fetcher
        c19_fetcher.run(rep, db, tier)
    except Exception as u:
        rep.add(Obligation('block fetcher', 'inconclusive', f'{type(u).__name__}: {u}'[:600]))
    try:
        from props import c19_runner
        c19_runner.run(rep, db, tier)
    except Exception as u:
        rep.add(Obligation('per-request fetch task: success is signalled only after the block was queued', 'inconclusive', f'{type(u).__name__}: {u}'[:600]))
    try:
        from props import c19_push
        c19_push.run(rep, db, tier)
    except Exception as u:
        rep.add(Obligation('push_block_store_state handler', 'inconclusive', f'{type(u).__name__}: {u}'[:600]))
    rep.extra['explanation'] = 'sequential kernel of the fetch queue on the real MIR; interleaving freedom (lost wake-ups, double accept under real schedules) is NOT decided'
