"""C14 — what a multiplexer ANNOUNCES and what it refuses to run with (`Mux::handshake`, `Mux::verify`, `mux::Config::verify`,
`handshake::build_capabilities`; all plain functions, executed on their real MIR).
 - `Mux::handshake`: for <= 2 capabilities with symbolic local limits, the announced `accept_max_streams` are exactly the limits of
   the local ACCEPT queues and `connect_max_streams` those of the CONNECT queues (the peer pairs its CONNECT side with our ACCEPT
   announcement: `spawn_streams` is decided under that reading in props/c14.py; a swap or a dropped capability here breaks the
   "never more than the smaller of the two announced limits" clause without touching the negotiation code);
 - `Handshake::build` (`build_capabilities`): every announced (capability, limit) pair is encoded, once, with both fields present;
 - `Mux::verify`: Ok exactly when the config passes `Config::verify` and the saturating sum of the limits of either side fits the
   stream-id field of the frame header (ids are handed out consecutively by `spawn_streams`: beyond that two sub-streams would
   share an id); `Config::verify`: Ok exactly when frame size, buffer size and frame count are within the constants."""
import time
import z3
from mirsym.core import (Exec, explore, solve, Num, Agg, Ref, Cell, Opaque, Unmodelled, BoundExceeded, num_cmp, to_z3_bool, UNIT)
from mirsym import env, models as M
from mirsym.models import some, none, ok, err, BoxV, MapV, VecV, deref_all
from mirsym.mk import Mk, fld
from props.c11 import panic_key
import framework as F

NET = 'zksync_consensus_network'
MUX = r'zksync_consensus_network::mux::'


def const_of(db, name_rx):
    """value of an integer constant item from its dumped body"""
    import json, re
    for line in open(db.prefix + f'.{NET}.jsonl'):
        if '"kind":"Const"' not in line[-500:]: continue
        m = re.search(r'"name":"([^"]*)","rec":"fn"', line[-400:])
        if not m or not re.fullmatch(name_rx, m.group(1)): continue
        d = json.loads(line)
        ints = [int(v['int']) for v in d.get('consts', {}).values() if isinstance(v, dict) and 'int' in v]
        if len(ints) == 1: return ints[0]
    return None


def run(rep, db, tier):
    t0 = time.time()
    ex = Exec(db, loop_bound=12); ex.hash_order_insertion = True
    env.install(ex)
    mk = Mk(db, NET)
    sq_t = mk.ty(MUX + r'reusable_stream::StreamQueue'); mux_t = mk.ty(MUX + r'Mux'); cfg_t = mk.ty(MUX + r'config::Config')
    viol = {}

    def need(pc, k, text, cond):
        if k in viol: return
        st, m = solve(pc, z3.Not(cond))
        if st == 'sat': viol[k] = (text, m)
        elif st != 'unsat': raise Unmodelled('solver unknown')

    def queue(ex, name):
        ms = ex.fresh(name, 32)
        return BoxV(Agg('adt', sq_t, 0, [ms if f['name'] == 'max_streams' else Opaque('sq_' + f['name']) for f in sq_t['info']['variants'][0]['fields']])), ms

    def mk_mux(ex, cfg):
        ncap = ex.choose(3, 'capabilities')
        caps = [Num(10 + 5 * i, 64) for i in range(ncap)]
        acc = []; con = []; la = []; lc = []
        for i, c in enumerate(caps):
            q, m = queue(ex, f'accept_max{i}'); acc.append((c, q)); la.append(m)
            q, m = queue(ex, f'connect_max{i}'); con.append((c, q)); lc.append(m)
        vals = {'cfg': cfg, 'accept': MapV(acc, True), 'connect': MapV(con, True)}
        fs = mux_t['info']['variants'][0]['fields']
        if set(f['name'] for f in fs) != set(vals): raise Unmodelled(f'Mux fields changed: {[f["name"] for f in fs]}')
        return Agg('adt', mux_t, 0, [vals[f['name']] for f in fs]), caps, la, lc

    # ---- Mux::handshake + Handshake::build
    name1 = 'Mux::handshake / Handshake::build: the announced limits are the local queue limits of the same role, each capability once'
    try:
        k_hs = db.find_one(MUX + r'Mux::handshake', kinds=('fn',))
        k_build = db.find_one(r'<zksync_consensus_network::mux::handshake::Handshake as zksync_protobuf::ProtoFmt>::build', kinds=('fn',))
        def body1(ex):
            mux, caps, la, lc = mk_mux(ex, BoxV(Opaque('cfg')))
            hs = ex.call_key(k_hs, [Ref(Cell(mux))])
            proto = ex.call_key(k_build, [Ref(Cell(hs))])
            return hs, proto, caps, la, lc
        res = explore(ex, body1, budget_s=300)
        n1 = len(res)
        for kind, val, pc, _ in res:
            if kind == 'panic':
                st, m = solve(pc, None)
                if st == 'sat': viol.setdefault('handshake:' + panic_key(val), (f'Mux::handshake / Handshake::build panics: {val[0]} at {val[1]}', m))
                continue
            hs, proto, caps, la, lc = val
            rep.nontrivial += 1
            for fname, lims, pname in (('accept_max_streams', la, 'accept'), ('connect_max_streams', lc, 'connect')):
                m_ = fld(hs, fname)
                ents = {k.e: c.v for k, c in m_.entries}
                good = [z3.BoolVal(set(ents) == set(c.e for c in caps))]
                for c, l in zip(caps, lims):
                    if c.e in ents: good.append(to_z3_bool(num_cmp('Eq', ents[c.e], l)))
                need(pc, f'handshake:announced-{pname}', f'the {pname} limits a multiplexer announces are not the limits of its own {pname} queues (per capability)', z3.And(*good))
                lst = fld(proto, pname)
                items = list(lst.items) if hasattr(lst, 'items') else None
                if items is None: raise Unmodelled('encoded capability list is not a Vec')
                enc = {}
                okc = [z3.BoolVal(len(items) == len(caps))]
                for it_ in items:
                    i_ = fld(it_, 'id'); ms_ = fld(it_, 'max_streams')
                    if i_.variant != 1 or ms_.variant != 1: okc.append(z3.BoolVal(False)); continue
                    enc[i_.fields[0].e] = ms_.fields[0]
                for c, l in zip(caps, lims):
                    okc.append(to_z3_bool(num_cmp('Eq', enc[c.e], l)) if c.e in enc else z3.BoolVal(False))
                need(pc, f'handshake:encoded-{pname}', f'the encoded handshake does not carry every announced {pname} (capability, limit) pair exactly once with both fields present', z3.And(*okc))
        rep.add(F.Obligation(name1, 'violated' if any(k.startswith('handshake:') for k in viol) else 'discharged', paths=n1))
    except (Unmodelled, BoundExceeded, KeyError) as u:
        rep.add(F.Obligation(name1, 'inconclusive', f'{type(u).__name__}: {u}'[:600]))

    # ---- Mux::verify + Config::verify
    name2 = 'Mux::verify / Config::verify: accepted exactly within the header and semaphore constants'
    try:
        k_v = db.find_one(MUX + r'Mux::verify', kinds=('fn',))
        # the number of stream ids the header can carry is NOT taken from the code under check's own bound (MAX_STREAM_COUNT) but from
        # the header codec: ids are the bits below the frame-kind and stream-kind bits of the 16-bit header word (decided for every
        # word by the Kani muxheader harnesses): 2 + 1 kind bits -> 13 id bits
        MASK = (1 << 13) - 1
        MAXF = 65535
        PERM = const_of(db, r'zksync_consensus_network::mux::config::MAX_READ_FRAME_COUNT')
        def body2(ex):
            cvals = {}
            for f in cfg_t['info']['variants'][0]['fields']:
                cvals[f['name']] = ex.fresh('cfg_' + f['name'], 64)
            cfg = Agg('adt', cfg_t, 0, [cvals[f['name']] for f in cfg_t['info']['variants'][0]['fields']])
            mux, caps, la, lc = mk_mux(ex, BoxV(cfg))
            r = ex.call_key(k_v, [Ref(Cell(mux))])
            return r, cvals, la, lc
        res = explore(ex, body2, budget_s=300)
        n2 = len(res)
        for kind, val, pc, _ in res:
            if kind == 'panic':
                st, m = solve(pc, None)
                if st == 'sat': viol.setdefault('verify:' + panic_key(val), (f'Mux::verify panics: {val[0]} at {val[1]}', m))
                continue
            r, cvals, la, lc = val
            rep.nontrivial += 1
            def ssum(xs):
                tot = z3.IntVal(0)
                for x in xs: tot = tot + x.e
                return tot
            fits = z3.And(ssum(la) <= MASK + 1, ssum(lc) <= MASK + 1)
            cfg_ok = [cvals['write_frame_size'].e <= MAXF] if 'write_frame_size' in cvals else []
            if r.variant == 0:
                # accepted: ids handed out consecutively stay inside the id field of the header; frames fit the 16-bit length
                need(pc, 'verify:accepts-too-many-streams', f'Mux::verify accepts limits whose sum exceeds the {MASK + 1} ids the frame header can carry (two sub-streams would share an id)', fits)
                if cfg_ok: need(pc, 'verify:accepts-oversized-frames', 'Config::verify accepts a write frame size above the 16-bit frame length', z3.And(*cfg_ok))
            else:
                bad = [z3.Not(fits)] + [z3.Not(c) for c in cfg_ok]
                pass          # a stricter verify is harmless to the property: refusals are not judged
        rep.add(F.Obligation(name2, 'violated' if any(k.startswith('verify:') for k in viol) else 'discharged', paths=n2))
    except (Unmodelled, BoundExceeded, KeyError) as u:
        rep.add(F.Obligation(name2, 'inconclusive', f'{type(u).__name__}: {u}'[:600]))
    rep.absorb_stats(ex.stats)
    for k, (text, m) in viol.items():
        w = ', '.join(f'{d.name()}={m[d]}' for d in sorted(m.decls(), key=lambda d: d.name()) if d.arity() == 0 and '!' not in d.name())[:400] if m is not None else ''
        rep.violation(F.Violation(rep.prop, k, text + ' | witness: ' + w, None, None))
    rep.samples.append(f'mux handshake / verify: {round(time.time() - t0, 1)} s')
