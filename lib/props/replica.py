"""One-step symbolic execution of the ChonkyBFT replica handlers (shared by C03, C05, C02, C16, C10).

The coroutine MIR of StateMachine::{on_proposal,on_commit,on_timeout,on_new_view,start_timeout,start_new_view,start}
is executed from an ARBITRARY replica state (view, phase, high vote, high certificates symbolic; caches small) on an
arbitrary input message. Environment by contract: EngineManager futures (set_state may fail; verify_payload /
wait_until_persisted / queue_block succeed, fail or are cancelled), clock opaque, signing ideal, outbound channel and
set_state recorded in an effect log in program order (the persisted snapshot is the ARGUMENT the real backup_state
built). Certificate verification is summarised by its contract decided in C04: `CommitQC::verify` / `TimeoutQC::verify`
return Ok iff the certificate's ghost validity flag holds and its genesis/epoch equal the node's.
"""
import z3
from mirsym.core import (Exec, explore, solve, Num, Agg, Ref, Cell, Opaque, FnVal, Panic, Unmodelled, num_cmp, b_and, b_not, to_z3_bool, UNIT)
from mirsym import env, models as M
from mirsym.models import some, none, ok, err, ready, pending, BoxV, VecV, MapV, clone_value, deref_all, values_equal
from mirsym.mk import Mk, fld, variant_name
from props import c02, c04, coro
from props.coro import EnvFuture, CANCELED

V = c02.V
SM = r'zksync_consensus_bft::v2_chonky_bft::'
PHASES = ['Prepare', 'Commit', 'Timeout']
LIM = 2 ** 62


class QCGhost:
    """aggregate signature of a certificate in a message/state: `valid` = it is the genuine aggregate of a quorum"""
    def __init__(self, valid, tag): self.valid = valid; self.tag = tag
    def py_clone(self, ex): return self
    def py_eq(self, ex, o): return isinstance(o, QCGhost) and o.tag == self.tag
    def py_lt_eq(self, ex, o): return (self.tag < o.tag, self.tag == o.tag)
    def __repr__(self): return f'sig<{self.tag}>'


class World:
    def __init__(self, ex, db, N, me=0):
        self.ex = ex; self.db = db; self.N = N; self.me = me
        self.mkr = Mk(db, 'zksync_consensus_roles'); self.mkb = Mk(db, 'zksync_consensus_bft')
        self.ws = [ex.fresh(f'w{i}') for i in range(N)]
        for w in self.ws: ex.assume(z3.And(w.e >= 1, w.e < 2 ** 58))
        self.sched, self.total = c02.mk_schedule(ex, self.mkr, self.ws)
        self.g0 = z3.Int('g0'); self.e0 = ex.fresh('e0'); ex.assume(self.e0.e < LIM)
        self.first_block = ex.fresh('first_block'); ex.assume(self.first_block.e < LIM)
        self.q = self.total.e - (self.total.e - 1) / 5
        self.log = []
        self.sm_cell = None

    # ---- values
    def num(self, name, lim=LIM):
        v = self.ex.fresh(name); self.ex.assume(v.e < lim); return v

    def view(self, g, number, epoch):
        mk = self.mkr
        return mk.adt(V + r'v2::consensus::View', genesis=Opaque(g), number=mk.tuple_struct(V + r'consensus::ViewNumber', number), epoch=mk.tuple_struct(V + r'consensus::EpochNumber', epoch))

    def header(self, n, h):
        return self.mkr.adt(V + r'v2::block::BlockHeader', number=self.mkr.tuple_struct(V + r'block::BlockNumber', n), payload=Opaque(h))

    def replica_commit(self, tag, g=None, e=None):
        v = self.num(f'{tag}_view'); n = self.num(f'{tag}_num'); h = z3.Int(f'{tag}_hash')
        g = self.g0 if g is None else g; e = self.e0 if e is None else e
        return self.mkr.adt(V + r'v2::replica_commit::ReplicaCommit', view=self.view(g, v, e), proposal=self.header(n, h)), dict(view=v, num=n, hash=h, g=g, e=e)

    def commit_qc(self, tag, own=False):
        """certificate; own=True: a certificate of the replica's own state (valid, this chain and epoch)"""
        g = self.g0 if own else z3.Int(f'{tag}_g'); e = self.e0 if own else self.num(f'{tag}_e')
        msg, d = self.replica_commit(tag, g, e)
        valid = True if own else z3.Bool(f'{tag}_valid')
        d['valid'] = valid
        d['accept'] = b_and(valid, g == self.g0, e.e == self.e0.e) if not own else True
        qc = self.mkr.adt(V + r'v2::replica_commit::CommitQC', message=msg, signers=self.mkr.tuple_struct(V + r'v2::consensus::Signers', M.BitVecV([True] * self.N)), signature=QCGhost(valid, tag))
        return qc, d

    def timeout_qc(self, tag, own=False, with_votes=True):
        """timeout certificate with one vote entry signed by everybody (high vote / high certificate optional, symbolic)"""
        ex = self.ex
        g = self.g0 if own else z3.Int(f'{tag}_g'); e = self.e0 if own else self.num(f'{tag}_e')
        v = self.num(f'{tag}_view')
        valid = True if own else z3.Bool(f'{tag}_valid')
        d = dict(view=v, g=g, e=e, valid=valid, accept=(b_and(valid, g == self.g0, e.e == self.e0.e) if not own else True), hv=None, hq=None)
        entries = []
        if with_votes:
            hv = none(); hq = none()
            if ex.choose(2, f'{tag}_hv') == 0:
                hvv, d['hv'] = self.replica_commit(f'{tag}_hv', g, e); hv = some(hvv)
            if ex.choose(2, f'{tag}_hq') == 0:
                hqv, d['hq'] = self.commit_qc(f'{tag}_hq', own=True); hq = some(hqv)
                # NO assumption relates the carried certificate's view to the timeout certificate's: neither ReplicaTimeout::verify nor
                # TimeoutQC::verify compares them, so a Byzantine signer can make a verifying timeout certificate carry a genuine commit
                # certificate of a LATER view (an earlier version assumed hq.view < view and so under-explored the adversary)
            msg = self.mkr.adt(V + r'v2::replica_timeout::ReplicaTimeout', view=self.view(g, v, e), high_vote=hv, high_qc=hq)
            entries.append((msg, self.mkr.tuple_struct(V + r'v2::consensus::Signers', M.BitVecV([True] * self.N))))
        tqc = self.mkr.adt(V + r'v2::replica_timeout::TimeoutQC', view=self.view(g, v, e), map=MapV(entries, ordered=True), signature=QCGhost(valid, tag))
        return tqc, d

    def timeout_qc_empty(self, v):
        return self.mkr.adt(V + r'v2::replica_timeout::TimeoutQC', view=self.view(self.g0, v, self.e0), map=MapV([], ordered=True), signature=c04.GhostAgg(groups=[], covers=[]))

    def key(self, i): return Opaque(('key', i))

    def signed(self, msg, ki, tag, wrap=None):
        ok_ = z3.Bool(f'{tag}_sig_ok')
        key = self.key(ki)
        return Agg('adt', 'Signed', 0, [msg, key, c04.GhostSig(msg, key, ok_)]), ok_

    def config(self):
        return self.mkb.adt(r'zksync_consensus_bft::config::Config', engine_manager=BoxV(Opaque('engine_manager')), secret_key=Opaque('my_secret_key'),
                            max_payload_size=Num(1 << 20, 64), view_timeout=Opaque('view_timeout'), epoch=self.mkr.tuple_struct(V + r'consensus::EpochNumber', self.e0),
                            first_block=self.mkr.tuple_struct(V + r'block::BlockNumber', self.first_block), validators=self.sched)

    # ---- replica state
    def state(self, caches=None, light=False):
        ex = self.ex; mkb = self.mkb
        view = self.num('st_view')
        ph = ex.choose(3, 'st_phase') if not light else 0
        phase = self.mkr.adt(V + r'v2::consensus::Phase', PHASES[ph])
        st = dict(view=view, phase=ph, hv=None, cqc=None, tqc=None)
        hv = none()
        if not light and ex.choose(2, 'st_hv') == 0:
            hvv, st['hv'] = self.replica_commit('st_hv'); hv = some(hvv)
            ex.assume(st['hv']['view'].e <= view.e)
        cqc = none(); tqc = none()
        if light or ex.choose(2, 'st_cqc') == 0:
            c, st['cqc'] = self.commit_qc('st_cqc', own=True); cqc = some(c)
        if not light and ex.choose(2, 'st_tqc') == 0:
            t, st['tqc'] = self.timeout_qc('st_tqc', own=True, with_votes=False); tqc = some(t)
            ex.assume(st['tqc']['view'].e < view.e)
        # reachable-state invariant (INDUCTIVE: replica_checks.check_path demands it again of every post-state): a view above 0 was
        # entered on a certificate of the preceding view, which the replica still holds unless a later one replaced it. The held
        # timeout certificate is always of an earlier view; the held COMMIT certificate may be of ANY view >= view - 1: a
        # timeout vote may carry a genuine commit certificate of a later view (the specification does not require the
        # receiver to refuse it), and process_timeout_qc adopts it while the replica only advances to the view after the
        # timeout certificate. (An earlier version assumed cqc.view < view; the inductiveness obligation refuted it.)
        just = [view.e == 0]
        if st['tqc'] is not None: just.append(st['tqc']['view'].e + 1 == view.e)
        if st['cqc'] is not None: just.append(st['cqc']['view'].e + 1 >= view.e)
        ex.assume(z3.Or(*just))
        cfg = self.config()
        caches = caches or {}
        self.proposer_watch = M.WatchV(none())
        sm = mkb.adt(SM + r'StateMachine', config=BoxV(cfg), outbound_channel=Opaque('outbound'), inbound_channel=Opaque('inbound'), proposer_sender=self.proposer_watch,
                     view_number=self.mkr.tuple_struct(V + r'consensus::ViewNumber', view), phase=phase, high_vote=hv, high_commit_qc=cqc, high_timeout_qc=tqc,
                     block_proposal_cache=caches.get('proposals', MapV([], True)), commit_views_cache=caches.get('commit_views', MapV([], True)),
                     commit_qcs_cache=caches.get('commit_qcs', MapV([], True)), timeout_views_cache=caches.get('timeout_views', MapV([], True)),
                     timeout_qcs_cache=caches.get('timeout_qcs', MapV([], True)), view_timeout=Opaque('deadline0'), view_start=Opaque('instant0'))
        self.sm_cell = Cell(sm)
        self.pre = st
        return st

    def snapshot(self):
        """(view expr, phase index, high_vote, high_commit_qc, high_timeout_qc) of the in-memory state now"""
        sm = self.sm_cell.v
        return dict(view=fld(fld(sm, 'view_number'), '0'), phase=fld(sm, 'phase').variant, high_vote=clone_value(self.ex, fld(sm, 'high_vote')),
                    cqc=clone_value(self.ex, fld(sm, 'high_commit_qc')), tqc=clone_value(self.ex, fld(sm, 'high_timeout_qc')))


def backup_snapshot(ex, arg):
    """the ChonkyV2State inside the ReplicaState passed to set_state"""
    rs = deref_all(arg)
    st = rs.fields[0] if (rs.name or '').endswith('ReplicaState') else rs
    return dict(view=fld(fld(st, 'view_number'), '0'), phase=fld(st, 'phase').variant, high_vote=clone_value(ex, fld(st, 'high_vote')),
                cqc=clone_value(ex, fld(st, 'high_commit_qc')), tqc=clone_value(ex, fld(st, 'high_timeout_qc')), epoch=fld(fld(st, 'epoch'), '0'),
                proposals=clone_value(ex, fld(st, 'proposals')))


def install(ex, db, w_holder):
    """environment models; w_holder() returns the World of the current path"""
    c04.install(ex)
    coro.install_futures(ex)
    from mirsym import symgen
    symgen.install_bytes(ex)
    W = w_holder

    def verify_msg(e, n, a):
        sig = deref_all(a[0])
        return ok(UNIT) if e.branch(sig.ok) else err(Opaque('anyhow::Error'))
    ex.model(r'zksync_consensus_roles::validator::keys::signature::Signature::verify_msg', verify_msg)
    ex.user_models.insert(0, ex.user_models.pop()); ex._um_cache = {}

    def qc_verify(e, n, a):
        qc = deref_all(a[0]); w = W()
        ghost = fld(qc, 'signature')
        view = fld(fld(qc, 'message'), 'view') if (qc.name or '').endswith('CommitQC') else fld(qc, 'view')
        same = b_and(values_equal(e, fld(view, 'genesis'), a[1]), values_equal(e, fld(view, 'epoch'), a[2]))
        return ok(UNIT) if e.branch(b_and(ghost.valid, same)) else err(Opaque('QCVerifyError'))
    ex.model_path('zksync_consensus_roles::validator::messages::v2::replica_commit::CommitQC::verify', qc_verify)
    ex.model_path('zksync_consensus_roles::validator::messages::v2::replica_timeout::TimeoutQC::verify', qc_verify)
    ex.model_path('zksync_consensus_roles::validator::keys::secret_key::SecretKey::sign_msg', lambda e, n, a: Agg('adt', 'Signed', 0, [a[1], Opaque(('key', W().me)), c04.GhostSig(a[1], Opaque(('key', W().me)), True)]))
    ex.model_path('zksync_consensus_bft::config::Config::genesis_hash', lambda e, n, a: Opaque(W().g0))
    ex.model(r'zksync_concurrency::ctx::Ctx::(now|now_utc|with_deadline|with_timeout|with_cancel)(::<.*>)?', lambda e, n, a: Opaque('ctx' if 'with_' in n else 'now'))
    ex.model(r'<time::(instant::)?Instant as std::ops::(Add|Sub)(<.*>)?>::(add|sub)', lambda e, n, a: Opaque('time'))

    def chan_send(e, n, a):
        w = W(); w.log.append(('send', a[1], w.snapshot())); return UNIT
    ex.model_path('zksync_concurrency::ctx::channel::UnboundedSender::send', chan_send)

    def watch_send(e, n, a):
        wv = deref_all(a[0])
        wv.cell.v = a[1]; W().log.append(('proposer', a[1])); return ok(UNIT)
    ex.model(r'(tokio|zksync_concurrency)::sync::watch::Sender::<.*>::send', watch_send)

    # ---- engine manager
    def ctx_error(e2, label):
        """ctx::Error returned by a failing engine call: Canceled or Internal, decided only if the caller looks"""
        try:
            t = Mk(db, 'zksync_consensus_bft').ty(r'zksync_concurrency::ctx::Error')
        except Unmodelled:
            return Opaque('ctx::Error')
        return M.LazyEnum(e2, t, ['Internal', 'Canceled'], label + '_error_kind')

    def set_state(e, n, a):
        snap = backup_snapshot(e, a[2]); w = W()
        def respond(e2):
            if e2.choose(2, 'set_state_fails') == 0:
                w.log.append(('persist_failed',)); return ready(err(ctx_error(e2, 'set_state')))
            w.log.append(('persist', snap)); return ready(ok(UNIT))
        return EnvFuture('set_state', respond)
    ex.model_path('zksync_consensus_engine::manager::EngineManager::set_state', set_state)

    def simple(kind, okval=UNIT, log=False):
        def f(e, n, a):
            w = W()
            def respond(e2):
                c = e2.choose(2, kind + '_fails')
                if c == 0:
                    w.log.append(('env_fail', kind)); return ready(err(ctx_error(e2, kind)))
                if log: w.log.append((kind, a[2] if len(a) > 2 else None))
                return ready(ok(okval))
            return EnvFuture(kind, respond)
        return f
    ex.model_path('zksync_consensus_engine::manager::EngineManager::wait_until_persisted', simple('wait_until_persisted', Opaque('store_state'), log=True))
    ex.model_path('zksync_consensus_engine::manager::EngineManager::queue_block', simple('queue_block', UNIT, log=True))

    def verify_payload(e, n, a):
        w = W()
        def respond(e2):
            c = e2.choose(3, 'verify_payload')
            if c == 0: return ready(ok(UNIT))
            w.log.append(('env_fail', 'verify_payload'))
            mkc = Mk(db, 'zksync_consensus_bft')
            try:
                t = mkc.ty(r'zksync_concurrency::ctx::Error')
                vi = [v['name'] for v in t['info']['variants']].index('Internal' if c == 1 else 'Canceled')
                return ready(err(Agg('adt', t, vi, [Opaque('inner')])))
            except Unmodelled:
                return ready(err(Opaque('ctx::Error')))
        return EnvFuture('verify_payload', respond)
    ex.model_path('zksync_consensus_engine::manager::EngineManager::verify_payload', verify_payload)

    def queued(e, n, a):
        w = W()
        mke = Mk(db, 'zksync_consensus_bft')
        first = e.fresh('store_first'); e.assume(first.e < LIM)
        return mke.adt(r'zksync_consensus_engine::block_store::BlockStoreState', first=w.mkr.tuple_struct(V + r'block::BlockNumber', first), last=none())
    ex.model_path('zksync_consensus_engine::manager::EngineManager::queued', queued)
    ex.model(r'<.* as zksync_concurrency::error::Wrap>::(wrap|with_wrap)(::<.*>)?', lambda e, n, a: a[0])
    ex.model(r'zksync_consensus_roles::validator::messages::block::Payload::(hash|len)', lambda e, n, a: (Opaque(z3.Int('payload_hash')) if n.endswith('hash') else Num(100, 64)))


HANDLERS = {
    'on_proposal': SM + r'proposal::<impl zksync_consensus_bft::v2_chonky_bft::StateMachine>::on_proposal',
    'on_commit': SM + r'commit::<impl zksync_consensus_bft::v2_chonky_bft::StateMachine>::on_commit',
    'on_timeout': SM + r'timeout::<impl zksync_consensus_bft::v2_chonky_bft::StateMachine>::on_timeout',
    'on_new_view': SM + r'new_view::<impl zksync_consensus_bft::v2_chonky_bft::StateMachine>::on_new_view',
    'start_timeout': SM + r'timeout::<impl zksync_consensus_bft::v2_chonky_bft::StateMachine>::start_timeout',
    'start_new_view': SM + r'new_view::<impl zksync_consensus_bft::v2_chonky_bft::StateMachine>::start_new_view',
}


def run_handler(ex, db, w, name, extra_args):
    key = db.find_one(HANDLERS[name], kinds=('fn',))
    args = [Ref(w.sm_cell), Ref(Cell(Opaque('ctx')))] + list(extra_args)
    return coro.run_async(ex, key, args)
