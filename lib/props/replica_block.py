"""Finalisation step of the replica (used by C01): `StateMachine::save_block` executed on a symbolic proposal cache
and an arbitrary commit certificate. Obligations: the only block ever queued for storage is
(payload found under the certificate's (number, payload hash), that very certificate); nothing is queued when the cache
has no such payload; and Ok is returned after a queued block only once the engine reported it persisted."""
import time
import z3
from mirsym.core import (Exec, explore, solve, Num, Agg, Ref, Cell, Opaque, Unmodelled, BoundExceeded, num_cmp, to_z3_bool, UNIT)
from mirsym import models as M
from mirsym.models import some, none, MapV, values_equal, deref_all
from mirsym.mk import fld, variant_name
from props import replica as R, coro, c04
from props.c11 import panic_key
import framework as F

SAVE = R.SM + r'block::<impl zksync_consensus_bft::v2_chonky_bft::StateMachine>::save_block'


def zb(x): return to_z3_bool(x)


class PayloadV:
    """the byte vector inside a Payload, with its own symbolic hash"""
    def __init__(self, tag): self.tag = tag; self.h = z3.Int(f'hash_{tag}')
    def py_clone(self, ex): return self
    def py_eq(self, ex, o): return isinstance(o, PayloadV) and o.tag == self.tag
    def __repr__(self): return f'payload<{self.tag}>'


def pay_of(v):
    v = deref_all(v)
    if isinstance(v, Agg) and v.fields and isinstance(deref_all(v.fields[0]), PayloadV): return deref_all(v.fields[0])
    return v if isinstance(v, PayloadV) else None


def run(rep, db, tier):
    ex = Exec(db, loop_bound=20); ex.hash_order_insertion = True
    holder = [None]
    R.install(ex, db, lambda: holder[0])
    # payload hash: per payload object (the generic handler model uses one symbol for "the" proposal payload)
    ex.model(r'zksync_consensus_roles::validator::messages::block::Payload::hash', lambda e, n, a: Opaque(pay_of(a[0]).h) if pay_of(a[0]) is not None else NotImplemented)
    ex.user_models.insert(0, ex.user_models.pop()); ex._um_cache = {}
    t0 = time.time()
    key = db.find_one(SAVE, kinds=('fn',))

    def body(ex):
        w = R.World(ex, db, 2); holder[0] = w
        mk = w.mkr
        # proposal cache: <= 2 block numbers, <= 2 payloads each, every payload stored under its own hash
        nums = []; ents = []
        for i in range(ex.choose(3, 'cache_numbers')):
            n = w.num(f'cache_num{i}')
            if nums: ex.assume(nums[-1].e < n.e)
            nums.append(n)
            inner_ = []
            for j in range(1 + ex.choose(2, f'cache_payloads{i}')):
                p = PayloadV(f'{i}_{j}')
                for _, q in inner_: ex.assume(pay_of(q).h != p.h)
                inner_.append((Opaque(p.h), mk.tuple_struct(R.V + r'block::Payload', p)))
            ents.append((mk.tuple_struct(R.V + r'block::BlockNumber', n), MapV(inner_, False, 'map')))
        w.state(dict(proposals=MapV(ents, True)), light=True)
        qc, d = w.commit_qc('fin', own=True)
        r = coro.run_async(ex, key, [Ref(w.sm_cell), Ref(Cell(Opaque('ctx'))), Ref(Cell(qc))])
        return r, qc, d, ents, list(w.log)
    try:
        res = explore(ex, body, budget_s=900)
    except (BoundExceeded, Unmodelled) as u:
        F.absorb_stats_dict(rep, F.stats_dict(ex.stats))
        rep.add(F.Obligation('save_block: only the certified payload is finalised', 'inconclusive', f'{type(u).__name__}: {u}'[:600])); return
    F.absorb_stats_dict(rep, F.stats_dict(ex.stats))
    viol = {}; queued_paths = 0

    def need(pc, key_, text, cond):
        if key_ in viol: return
        st, m = solve(pc, z3.Not(cond))
        if st == 'sat': viol[key_] = (text, m)
        elif st != 'unsat': raise Unmodelled('solver unknown')
    for kind, val, pc, _ in res:
        if kind == 'panic':
            st, m = solve(pc, None)
            if st == 'sat': viol.setdefault('save_block:' + panic_key(val), (f'save_block panics: {val[0]} at {val[1]}', m))
            continue
        r, qc, d, ents, log = val
        qb = [e for e in log if e[0] == 'queue_block']
        waits = [e for e in log if e[0] == 'wait_until_persisted']
        # is there a payload cached under (certificate number, certificate payload hash)?
        have = []
        for kn, inner in ents:
            for hk, p in inner.entries:
                have.append(z3.And(zb(num_cmp('Eq', fld(kn, '0'), d['num'])), hk.tag == d['hash']))
        have_any = z3.Or(*have) if have else z3.BoolVal(False)
        if len(qb) > 1:
            need(pc, 'save_block:queued-twice', 'save_block queues more than one block', z3.BoolVal(False))
        if not qb:
            if r != 'pending' and r.variant == 0 and 'env_fail' not in [e[0] for e in log]:
                need(pc, 'save_block:certified-block-not-stored', 'the certified payload is in the proposal cache but save_block returned Ok without queueing the finalized block', z3.Not(have_any))
            continue
        queued_paths += 1; rep.nontrivial += 1
        blk = deref_all(qb[0][1])
        fb = blk.fields[0] if variant_name(blk) in ('FinalV2', 'Final') else None
        if fb is None:
            need(pc, 'save_block:not-a-final-block', 'save_block queues something that is not a finalized block', z3.BoolVal(False)); continue
        pay = pay_of(fld(fb, 'payload')); just = fld(fb, 'justification')
        need(pc, 'save_block:wrong-certificate', 'the finalized block does not carry the commit certificate it was finalised by', zb(values_equal(ex, just, qc)))
        need(pc, 'save_block:wrong-payload', 'the payload of the finalized block is not the one the commit certificate certifies (payload hash / block number differ)',
             z3.And(z3.BoolVal(isinstance(pay, PayloadV)), (pay.h == d['hash']) if isinstance(pay, PayloadV) else z3.BoolVal(False), have_any))
        if r != 'pending' and r.variant == 0:
            ok_wait = [zb(num_cmp('Eq', fld(deref_all(e[1]), '0'), d['num'])) for e in waits if e[1] is not None]
            need(pc, 'save_block:returns-before-persisted', 'save_block returns Ok without waiting until the finalized block is persisted', z3.Or(*ok_wait) if ok_wait else z3.BoolVal(False))
    for k, (text, m) in viol.items():
        rep.violation(F.Violation(rep.prop, k, text, None, None, c04.witness_text(m)))
    if queued_paths == 0 and not viol:
        rep.add(F.Obligation('save_block: only the certified payload is finalised', 'inconclusive', 'no path queues a block: vacuous')); return
    rep.add(F.Obligation('save_block: only the certified payload is finalised', 'violated' if viol else 'discharged', paths=len(res), wall_s=round(time.time() - t0, 1)))
    rep.samples.append(f'save_block: {len(res)} paths, {queued_paths} queue a block')
