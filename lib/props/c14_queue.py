"""C14 — the hand-over of reusable sub-streams to the application (`StreamQueue::push`, `ReservedStream::open`; coroutines executed on
their real MIR with the bounded(1) offer channel and the oneshot channels answered by contract).
 - `push` (the stream task's side): it returns a reservation ONLY if that reservation arrived through the oneshot whose sender it
   had put into the `ReservedStream` it last offered (after a taker went away — Disconnected — a NEW channel is offered, never a
   dead one reused);
 - `ReservedStream::open` (the application's side): `Ok(Ok(stream))` only with the stream that arrived on the channel whose sender it
   handed to the stream task — never a stream from anywhere else. (Whether the stream task gives up or retries after a vanished
   taker is an availability matter the property does not fix: not demanded.)"""
import time
import z3
from mirsym.core import (Exec, explore, solve, Num, Agg, Ref, Cell, Opaque, Unmodelled, BoundExceeded, UNIT)
from mirsym import env, models as M
from mirsym.models import some, none, ok, err, ready, pending, BoxV, deref_all
from mirsym.mk import Mk, fld
from props import coro
from props.coro import EnvFuture, CANCELED
from props.c11 import panic_key
import framework as F

NET = 'zksync_consensus_network'
MUX = r'zksync_consensus_network::mux::reusable_stream::'
DISC = lambda: Agg('adt', 'Disconnected', 0, [])


class Tx:
    def __init__(self, i): self.i = i
    def py_clone(self, ex): return self
    def __repr__(self): return f'oneshot::Sender#{self.i}'


class Rx:
    def __init__(self, i): self.i = i
    def py_clone(self, ex): return self
    def __repr__(self): return f'oneshot::Receiver#{self.i}'


def run(rep, db, tier):
    name = 'StreamQueue::push / ReservedStream::open: a reservation / stream is accepted only through the channel that was offered for it'
    t0 = time.time()
    ex = Exec(db, loop_bound=6)
    env.install(ex); coro.install_futures(ex)
    n_before = len(ex.user_models)
    cur = [None]; log = lambda: cur[0]['log']
    mk = Mk(db, NET)

    def channel(e, n, a):
        s = cur[0]; s['n'] += 1; i = s['n']
        log().append(('oneshot', i)); return M.tup(Tx(i), Rx(i))
    ex.model(r'(tokio::sync|zksync_concurrency)::oneshot::channel(::<.*>)?', channel)
    def offer(e, n, a):
        v = deref_all(a[2])
        def respond(e2):
            s = cur[0]
            if s['offers'] >= 2: return pending()
            if e2.choose(2, 'offer_cancelled') == 0: log().append(('offer_cancelled',)); return ready(err(CANCELED))
            s['offers'] += 1
            tx = v.fields[0] if isinstance(v, Agg) and v.fields else v
            log().append(('offered', getattr(deref_all(tx), 'i', None))); return ready(ok(UNIT))
        return EnvFuture('offer channel send', respond)
    ex.model(r'zksync_concurrency::ctx::channel::Sender::<.*>::send', offer)
    def rx_recv(e, n, a):
        rx = deref_all(a[0])
        def respond(e2):
            c = e2.choose(3, 'oneshot_outcome')
            if c == 0: log().append(('wait_cancelled', rx.i)); return ready(err(CANCELED))
            if c == 1: log().append(('disconnected', rx.i)); return ready(ok(err(DISC())))
            val = Opaque(('through', rx.i)); log().append(('received', rx.i)); return ready(ok(ok(val)))
        return EnvFuture('oneshot recv', respond)
    ex.model(r'(tokio::sync|zksync_concurrency)::oneshot::Receiver::<.*>::recv_or_disconnected', rx_recv)
    def tx_send(e, n, a):
        tx = deref_all(a[0])
        if e.choose(2, 'peer_gone') == 0: log().append(('send_failed', getattr(tx, 'i', None))); return err(a[1])
        log().append(('sent', getattr(tx, 'i', None), a[1])); return ok(UNIT)
    ex.model(r'(tokio::sync|zksync_concurrency)::oneshot::Sender::<.*>::send', tx_send)
    mine = ex.user_models[n_before:]; del ex.user_models[n_before:]; ex.user_models[0:0] = mine; ex._um_cache = {}
    try:
        k_push = db.find_one(MUX + r'StreamQueue::push', kinds=('fn',))
        k_open = db.find_one(MUX + r'ReservedStream::open', kinds=('fn',))
        q_t = mk.ty(MUX + r'StreamQueue'); rs_t = mk.ty(MUX + r'ReservedStream')
    except (KeyError, Unmodelled) as u:
        rep.add(F.Obligation(name, 'inconclusive', str(u)[:400])); return
    viol = {}; good = 0

    def body(ex):
        cur[0] = dict(log=[], n=0, offers=0)
        if ex.choose(2, 'side') == 0:
            q = Agg('adt', q_t, 0, [Opaque('q_' + f['name']) for f in q_t['info']['variants'][0]['fields']])
            r = coro.run_async(ex, k_push, [Ref(Cell(q)), Ref(Cell(Opaque('ctx')))])
            return 'push', r, list(cur[0]['log'])
        cur[0]['n'] = 100
        rsv = Agg('adt', rs_t, 0, [Tx(100)])
        r = coro.run_async(ex, k_open, [rsv, Ref(Cell(Opaque('ctx')))])
        return 'open', r, list(cur[0]['log'])
    try:
        res = explore(ex, body, budget_s=300)
    except (Unmodelled, BoundExceeded, KeyError) as u:
        rep.absorb_stats(ex.stats); rep.add(F.Obligation(name, 'inconclusive', f'{type(u).__name__}: {u}'[:700])); return
    rep.absorb_stats(ex.stats)
    for kind, val, pc, _ in res:
        if kind == 'panic':
            viol.setdefault('queue:' + panic_key(val), f'the stream hand-over panics: {val[0]} at {val[1]}'); continue
        side, r, lg = val
        evs = [e[0] for e in lg]
        if side == 'push':
            offered = [e[1] for e in lg if e[0] == 'offered']
            if r == 'pending':
                # the only legitimate reason to be still waiting here is the bound of the harness (third offer)
                continue
            if r.variant == 0:
                good += 1; rep.nontrivial += 1
                tag = getattr(r.fields[0], 'tag', None)
                okk = bool(offered) and tag == ('through', offered[-1]) and lg[-1] == ('received', offered[-1])
                if not okk: viol.setdefault('queue:foreign-reservation', f'push returns a reservation that did not arrive through the channel it offered last (events {evs})')
            else:
                pass      # giving up is an availability matter the property does not fix: observed, not demanded
        else:
            if r == 'pending': continue
            if r.variant != 0: continue                      # cancelled
            inner = r.fields[0]
            if inner.variant == 0:
                good += 1; rep.nontrivial += 1
                tag = getattr(inner.fields[0], 'tag', None)
                sent = [e for e in lg if e[0] == 'sent']
                okk = len(sent) == 1 and sent[0][1] == 100 and isinstance(deref_all(sent[0][2]), Tx) and tag == ('through', deref_all(sent[0][2]).i)
                if not okk: viol.setdefault('queue:foreign-stream', f'ReservedStream::open returns a stream that did not arrive on the channel whose sender it handed to the stream task (events {evs})')
            else:
                pass
    for k, text in viol.items():
        rep.violation(F.Violation(rep.prop, k, text, None, None))
    if good == 0 and not viol:
        rep.add(F.Obligation(name, 'inconclusive', 'no path hands anything over (vacuous)')); return
    rep.add(F.Obligation(name, 'violated' if viol else 'discharged', paths=len(res), wall_s=round(time.time() - t0, 1)))
    rep.samples.append(f'stream hand-over: {len(res)} paths, {good} hand-overs')
