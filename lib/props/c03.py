"""C03 — no vote equivocation by a correct validator, even across crashes (engine M, one-step obligations).

Every replica handler (coroutine MIR of on_proposal / on_commit / on_timeout / on_new_view / start_timeout /
start_new_view) is executed for ONE step from an arbitrary replica state on an arbitrary input (see props/replica.py).
Obligations decided on every path:
 (a) a commit vote for view v is emitted only if the pre-state had view < v, or view = v and phase Prepare, and the
     state it is derived from has view = v, phase = Commit, high_vote = that vote; a timeout vote only with phase
     Timeout and carrying the replica's view / high vote / high certificate;
 (b) the pair (view, phase rank) never decreases;
 (c) persist-before-send: every outbound message is preceded in program order by a SUCCESSFUL set_state whose
     snapshot (the argument built by the real backup_state) equals the state the message was derived from — so a
     crash at any point leaves durable state that already records everything that was signed;
 (d) restart: StateMachine::start restores exactly view / phase / high vote / certificates of a same-epoch backup;
 (e) the durable write itself: EngineManager::set_state forwards every state to the execution layer unchanged, exactly
     once, and get_state returns what the execution layer holds (props/c03_engine.py).
The history-level statement (never two votes per view over a whole run, across crashes) follows from (a)-(d) by
induction over steps; that induction is a paper argument and is stated as an assumption.
"""
import z3
from mirsym.core import Unmodelled
from mirsym import models as M, env
from props import replica_checks as RC, replica as R
import framework as F

PROP = 'C03'


def run(rep, db, tier, seed):
    rep.engines.append('mirsym (MIR symbolic execution of the handler coroutines + z3)')
    rep.trusted += M.TRUSTED + env.TRUSTED + ['certificate verification summarised by its contract (decided in C04): verify() == Ok iff the ghost validity flag holds and genesis/epoch match',
                                               'EngineManager futures answered by contract (set_state may fail; verify_payload / wait_until_persisted / queue_block succeed, fail or are cancelled); signing ideal; clock opaque']
    rep.assumptions += ['induction over steps (one-step obligations => run-level statement) is a paper argument', 'reachable-state invariant assumed for the pre-state: a view above 0 is justified by a held certificate of the preceding view; held certificates are valid and of earlier views; high vote view <= current view']
    rep.bounds = dict(steps=1, committee='N = 2 (quick), 2..3 (thorough), symbolic weights', caches='<= 1 entry', timeout_certificate_votes='<= 1 entry signed by everybody')
    RC.run_all(rep, db, tier, ('C03',))
    try:
        from props import replica_start
        replica_start.run(rep, db, tier)
    except Unmodelled as u:
        rep.add(F.Obligation('restart restores the durable snapshot (StateMachine::start)', 'inconclusive', str(u)[:600]))
    try:
        from props import c03_engine
        c03_engine.run(rep, db, tier)
    except Exception as u:
        rep.add(F.Obligation('EngineManager::set_state / get_state pass-through', 'inconclusive', f'{type(u).__name__}: {u}'[:600]))
    rep.extra['explanation'] = 'one-step vote-discipline, monotonicity and persist-before-send obligations on the real handler MIR for all symbolic states/inputs within the bound'
