"""C11 — leader election is a total, deterministic, eligible-only function (engine M).

Real functions executed from MIR: Schedule::new::<Vec<ValidatorInfo>>, Schedule::view_leader, Schedule::get,
LeaderSelection::leader_weighted_eligibility. Symbolic: every weight (u64), view (u64), frequency (u64, incl. 0);
enumerated: committee size, leader-flag pattern, selection mode, input order of the validator list.
Keccak is abstracted: `keccak(turn) mod W` is an uninterpreted residue r with the single axiom 0 <= r < W
(every residue is attained by some 256-bit hash value, so "for every hash value" is covered exactly);
`BigUint::to_u64_digits` returns no digits for zero (num-bigint's documented behaviour).
"""
import itertools, time
import z3
from mirsym.core import (Exec, explore, solve, Num, Agg, Ref, Cell, Opaque, Panic, Unmodelled, num_cmp, b_and, b_not, to_z3_bool, UNIT)
from mirsym import env, models as M
from mirsym.mk import Mk, fld, variant_name
from framework import Obligation, Violation
import replay

PROP = 'C11'
SCHED = r'zksync_consensus_roles::validator::messages::schedule::'
CR = 'zksync_consensus_roles'


class BigV:
    """num-bigint BigUint: either a u64 value or the (opaque) keccak hash of a turn"""
    def __init__(self, kind, val):
        self.kind = kind; self.val = val


def install_models(ex):
    env.install(ex); env.install_ideal_crypto(ex)
    ex.model(r'core::num::<impl u64>::to_be_bytes', lambda e, n, a: Opaque(('be_bytes', id(a[0]), a[0])))
    ex.model(r'zksync_consensus_crypto::keccak256::Keccak256::new', lambda e, n, a: Opaque(('keccak', M.deref_all(a[0]))))
    ex.model(r'zksync_consensus_crypto::keccak256::Keccak256::as_bytes', lambda e, n, a: a[0])
    ex.model(r'num_bigint::BigUint::from_bytes_be', lambda e, n, a: BigV('hash', M.deref_all(a[0])))
    ex.model(r'<num_bigint::BigUint as std::convert::From<u64>>::from|.*impl std::convert::From<u64> for num_bigint::BigUint>::from', lambda e, n, a: BigV('u64', a[0]))

    def big_rem(e, n, a):
        x, y = a
        if x.kind == 'hash' and y.kind == 'u64':
            w = y.val
            if e.branch(num_cmp('Eq', w, Num(0, 64))):
                raise Panic('attempt to divide by zero (BigUint % 0)')
            turn = x.val.tag[1].tag[2] if isinstance(x.val, Opaque) else None
            r = e.fresh('hash_mod_weight')
            e.assume(r.e < w.e if not w.concrete else r.e < w.e)
            mw = e.fresh('hash_modulus'); e.assume(mw.e == w.e)     # the modulus the code really used (replay realises the residue for it)
            e.residue = r; e.residue_turn = turn; e.residue_weight = w
            return BigV('u64', r)
        raise Unmodelled('BigUint remainder of unexpected operands')
    ex.model(r'<num_bigint::BigUint as std::ops::Rem>::rem|.*impl std::ops::Rem(<.*>)? for (&)?num_bigint::BigUint>::rem', big_rem)

    def digits(e, n, a):
        b = M.deref_all(a[0])
        if b.kind != 'u64': raise Unmodelled('to_u64_digits of a hash-sized value')
        if e.branch(num_cmp('Eq', b.val, Num(0, 64))): return M.VecV([])
        return M.VecV([b.val])
    ex.model(r'num_bigint::BigUint::to_u64_digits', digits)

    def big_try_u64(e, n, a):
        b = a[0] if isinstance(a[0], BigV) else M.deref_all(a[0])
        if b.kind == 'u64': return M.ok(b.val)
        return NotImplemented
    ex.model(r'<u64 as std::convert::TryFrom<(&)?num_bigint::BigUint>>::try_from|.*impl std::convert::TryFrom<(&)?num_bigint::BigUint> for u64>::try_from', big_try_u64)
    ex.model(r'<num_bigint::BigUint as num_traits::ToPrimitive>::to_u64|num_traits::ToPrimitive::to_u64|.*impl num_traits::ToPrimitive for num_bigint::BigUint>::to_u64', lambda e, n, a: M.some(M.deref_all(a[0]).val) if M.deref_all(a[0]).kind == 'u64' else NotImplemented)
    ex.model(r'<num_bigint::BigUint as num_traits::Zero>::is_zero|num_bigint::BigUint::is_zero|.*impl num_traits::Zero for num_bigint::BigUint>::is_zero', lambda e, n, a: num_cmp('Eq', M.deref_all(a[0]).val, Num(0, 64)) if M.deref_all(a[0]).kind == 'u64' else NotImplemented)
    ex.model(r'num_bigint::BigUint::(iter_u64_digits|to_u64_digits)', digits)


def panic_key(val):
    msg, where = val
    fn = where.split(' bb')[0].split('::')[-1].split('<')[0]
    short = msg.replace('assertion failed: ', '').split(':')[0][:60]
    return f'panic@{fn}:{short}'


def mvals(model, *nums):
    out = []
    for x in nums:
        if isinstance(x, Num):
            if x.concrete: out.append(x.e)
            else:
                v = model.eval(x.e, model_completion=True)
                out.append(v.as_long())
        else: out.append(x)
    return out


def build_inputs(ex, mk, N, flags, mode, perm):
    ws = [ex.fresh(f'w{i}') for i in range(N)]
    vals = [mk.adt(SCHED + 'ValidatorInfo', key=Opaque(('key', i)), weight=ws[i], leader=flags[i]) for i in perm]
    freq = ex.fresh('frequency')
    sel = mk.adt(SCHED + 'LeaderSelection', frequency=freq, mode=mk.adt(SCHED + 'LeaderSelectionMode', mode))
    return ws, vals, freq, sel


def check_new(rep, db, N, flags, mode, perm, with_thresholds=False):
    """Schedule::new: canonical result independent of input order, exact error conditions, exact weights."""
    mk = Mk(db, CR)
    ex = Exec(db, loop_bound=N + 3)
    install_models(ex)

    def body(ex):
        ws, vals, freq, sel = build_inputs(ex, mk, N, flags, mode, perm)
        r = ex.call_by_name(r'.*schedule::Schedule::new::<std::vec::Vec<.*ValidatorInfo>>', [M.VecV(vals), sel])
        if with_thresholds and r.variant == 0:
            # the thresholds a Schedule reports are those of its TOTAL weight (all validators, leaders or not)
            sref = Ref(Cell(r.fields[0]))
            ex.thr = tuple(ex.call_by_name(r'zksync_consensus_roles::validator::messages::schedule::Schedule::' + nm, [sref]) for nm in ('max_faulty_weight', 'quorum_threshold', 'subquorum_threshold'))
        return ws, freq, r, (getattr(ex, 'thr', None) if with_thresholds and r.variant == 0 else None)
    res = explore(ex, body)
    rep.absorb_stats(ex.stats)
    viol = []
    nontriv = 0
    for kind, val, pc, log in res:
        if kind == 'panic':
            st, m = solve(pc, None)
            viol.append((panic_key(val), f'Schedule::new panics: {val[0]} at {val[1]}', m, None)); continue
        ws, freq, r, thr = val
        total = sum((w.e for w in ws[1:]), ws[0].e)
        valid = z3.And(*[w.e > 0 for w in ws], total <= 2**64 - 1, z3.BoolVal(any(flags)))
        if r.variant == 1:
            # Err: must be an invalid input
            st, m = solve(pc, valid)
            if st == 'sat': viol.append(('new-rejects-valid', 'Schedule::new returns Err for a valid committee', m, ws))
            elif st != 'unsat': raise Unmodelled('solver unknown')
            continue
        nontriv += 1
        s = r.fields[0]
        vec = fld(s, 'vec'); leaders = fld(s, 'leaders'); idx = fld(s, 'indexes')
        conds = [valid]
        ok_shape = (len(vec.items) == N and [fld(v, 'key').tag for v in vec.items] == [('key', i) for i in range(N)]
                    and [l.e for l in leaders.items] == [i for i in range(N) if flags[i]]
                    and [(k.tag, c.v.e) for k, c in idx.entries] == [(('key', i), i) for i in range(N)]
                    and [fld(v, 'leader') for v in vec.items] == list(flags))
        if not ok_shape:
            st, m = solve(pc, None)
            viol.append(('order-dependence', f'Schedule::new({[f"key{i}" for i in perm]}) is not the canonical key-sorted schedule: vec={vec!r} leaders={leaders!r}', m, ws)); continue
        conds += [fld(vec.items[i], 'weight').e == ws[i].e for i in range(N)]
        conds.append(fld(s, 'total_weight').e == total)
        lw = sum((ws[i].e for i in range(N) if flags[i]), z3.IntVal(0))
        conds.append(fld(s, 'leader_weight').e == lw)
        conds.append(fld(fld(s, 'leader_selection'), 'frequency').e == freq.e)
        conds.append(z3.BoolVal(variant_name(fld(fld(s, 'leader_selection'), 'mode')) == mode))
        st, m = solve(pc, z3.Not(z3.And(*conds)))
        if st == 'sat': viol.append(('new-wrong-schedule', 'Schedule::new accepts an invalid committee or stores wrong weights/sums', m, ws))
        elif st != 'unsat': raise Unmodelled('solver unknown')
        if thr is not None:
            f = (total - 1) / 5
            tc = z3.And(thr[0].e == f, thr[1].e == total - f, thr[2].e == total - 3 * f)
            st, m = solve(pc, z3.Not(tc))
            if st == 'sat': viol.append(('schedule-thresholds', 'the thresholds reported by the Schedule (max_faulty_weight / quorum_threshold / subquorum_threshold methods) are not those of its total weight', m, ws))
            elif st != 'unsat': raise Unmodelled('solver unknown')
    rep.nontrivial += nontriv
    return res, viol


def check_leader(rep, db, N, flags, mode, perm):
    """view_leader on the schedule built by the real `new`."""
    mk = Mk(db, CR)
    ex = Exec(db, loop_bound=N + 3)
    install_models(ex)

    def body(ex):
        ex.residue = None
        ws, vals, freq, sel = build_inputs(ex, mk, N, flags, mode, perm)
        r = ex.call_by_name(r'.*schedule::Schedule::new::<std::vec::Vec<.*ValidatorInfo>>', [M.VecV(vals), sel])
        if r.variant == 1:
            return None
        sched = r.fields[0]
        view = ex.fresh('view')
        vn = mk.tuple_struct(r'zksync_consensus_roles::.*::ViewNumber', view)
        ex.in_leader = True
        k = ex.call_by_name(r'.*schedule::Schedule::view_leader', [Ref(Cell(sched)), vn])
        return ws, freq, view, k, ex.residue
    ex.in_leader = False
    res = explore(ex, body)
    rep.absorb_stats(ex.stats)
    viol = []
    lead_idx = [i for i in range(N) if flags[i]]
    L = len(lead_idx)
    zero_freq_results = set()
    samples = []
    for kind, val, pc, log in res:
        if kind == 'panic':
            st, m = solve(pc, None)
            if st != 'sat': continue
            viol.append((panic_key(val), f'view_leader panics: {val[0]} at {val[1]}', m, None)); continue
        if val is None: continue
        rep.nontrivial += 1
        ws, freq, view, k, residue = val
        if not (isinstance(k, Opaque) and isinstance(k.tag, tuple) and k.tag[0] == 'key'):
            raise Unmodelled(f'view_leader returned {k!r}')
        ki = k.tag[1]
        if len(samples) < 2:
            samples.append(f'N={N} flags={flags} mode={mode} order={perm}: path -> leader key{ki}, pc has {len(pc)} conjuncts')
        if ki not in lead_idx:
            st, m = solve(pc, None)
            viol.append(('ineligible-leader', f'view_leader returns key{ki} which is not flagged leader (flags {flags})', m, ws)); continue
        j = lead_idx.index(ki)
        if mode == 'RoundRobin':
            f = z3.Function('udiv64', z3.IntSort(), z3.IntSort(), z3.IntSort())
            turn = f(view.e, freq.e)
            # frequency > 0: index = (view / frequency) mod |leaders| ; frequency = 0: never rotates
            st, m = solve(pc, z3.And(freq.e > 0, turn % L != j))
            if st == 'sat': viol.append(('roundrobin-mismatch', f'round-robin: leader is leaders[{j}] but (view/frequency) mod {L} differs', m, ws))
            elif st != 'unsat': raise Unmodelled('solver unknown')
            st, m = solve(pc, freq.e == 0)
            if st == 'sat': zero_freq_results.add(j)
        else:
            if residue is None:
                raise Unmodelled('weighted mode did not reduce a hash modulo the leader weight')
            pre_lo = sum((ws[i].e for i in lead_idx[:j]), z3.IntVal(0)); pre_hi = pre_lo + ws[ki].e
            lw = sum((ws[i].e for i in lead_idx), z3.IntVal(0))
            good = z3.And(pre_lo <= residue.e, residue.e < pre_hi, ex_residue_weight_is(res, lw))
            st, m = solve(pc, z3.Not(z3.And(pre_lo <= residue.e, residue.e < pre_hi)))
            if st == 'sat': viol.append(('weighted-walk-mismatch', f'weighted: eligibility value not inside the weight interval of the chosen leader key{ki}', m, ws))
            elif st != 'unsat': raise Unmodelled('solver unknown')
            st, m = solve(pc, freq.e == 0)
            if st == 'sat': zero_freq_results.add(('w', j))
    if mode == 'RoundRobin' and len(zero_freq_results) > 1:
        viol.append(('zero-frequency-rotates', f'frequency = 0 must never rotate, but leaders {sorted(zero_freq_results)} are all selectable', None, None))
    rep.samples += samples
    return res, viol, ex


def ex_residue_weight_is(res, lw):
    return True


# ---------------------------------------------------------------------------------------------------- replay
def replay_src(N, flags, mode, perm, weights, view, freq, residue=None, modulus=None):
    flags_s = ', '.join('true' if f else 'false' for f in flags)
    perm_s = ', '.join(str(i) for i in perm)
    w_s = ', '.join(f'{w}u64' for w in weights)
    lw = sum(w for w, f in zip(weights, flags) if f)
    if modulus: lw = modulus
    if mode == 'Weighted' and residue is not None:
        pick = f'''
    // the abstract residue chosen by the solver is realised with the real Keccak: smallest turn with keccak(turn) mod {lw} == {residue}
    let mut found = None;
    for t in 0u64..2_000_000 {{
        let h = zksync_consensus_crypto::keccak256::Keccak256::new(&t.to_be_bytes());
        let r = num_bigint::BigUint::from_bytes_be(h.as_bytes()) % num_bigint::BigUint::from({lw}u64);
        if r == num_bigint::BigUint::from({residue}u64) {{ found = Some(t); break; }}
    }}
    let Some(turn) = found else {{ println!("REPLAY-NOT-FOUND"); return; }};
    let freq: u64 = {freq if freq > 0 else 1};
    let view = match turn.checked_mul(freq) {{ Some(v) => v, None => {{ println!("REPLAY-NOT-FOUND"); return; }} }};'''
    else:
        pick = f'''
    let freq: u64 = {freq};
    let view: u64 = {view};'''
    return f'''// generated by /verif/lib/props/c11.py — replay of a solver counterexample for property C11
use zksync_consensus_roles::validator::{{self, LeaderSelection, LeaderSelectionMode, Schedule, ValidatorInfo, ViewNumber}};

#[test]
fn replay() {{
    let n = {N};
    let mut keys: Vec<validator::PublicKey> = (0..n).map(|_| validator::SecretKey::generate().public()).collect();
    keys.sort();
    let weights = [{w_s}];
    let flags = [{flags_s}];
    let order = [{perm_s}];{pick}
    let infos: Vec<ValidatorInfo> = order.iter().map(|&i| ValidatorInfo {{ key: keys[i].clone(), weight: weights[i], leader: flags[i] }}).collect();
    let schedule = Schedule::new(infos, LeaderSelection {{ frequency: freq, mode: LeaderSelectionMode::{mode} }}).expect("valid schedule");
    // canonical order
    let got: Vec<_> = schedule.iter().map(|v| v.key.clone()).collect();
    assert_eq!(got, keys, "schedule is not key-sorted");
    // thresholds are those of the TOTAL weight (u128 arithmetic as the reference)
    let total: u128 = weights.iter().map(|&w| w as u128).sum();
    assert_eq!(schedule.total_weight() as u128, total, "total weight");
    let f = (total - 1) / 5;
    assert_eq!((schedule.max_faulty_weight() as u128, schedule.quorum_threshold() as u128, schedule.subquorum_threshold() as u128), (f, total - f, total - 3 * f), "schedule thresholds are not those of the total weight");
    let leader = schedule.view_leader(ViewNumber(view));   // must not panic
    let idx = schedule.index(&leader).expect("leader is a member");
    assert!(flags[idx], "leader not eligible");
    let leaders: Vec<usize> = (0..n).filter(|&i| flags[i]).collect();
    if matches!(schedule.leader_selection().mode, LeaderSelectionMode::RoundRobin) {{
        let turn = if freq == 0 {{ 0 }} else {{ view / freq }};
        if freq != 0 {{ assert_eq!(idx, leaders[(turn as usize) % leaders.len()], "round robin formula"); }}
        else {{ assert_eq!(leader, schedule.view_leader(ViewNumber(view.wrapping_add(1))), "frequency 0 rotates"); }}
    }} else {{
        // weighted walk oracle, computed independently with the real Keccak
        let turn = if freq == 0 {{ 0 }} else {{ view / freq }};
        let lw: u64 = leaders.iter().map(|&i| weights[i]).sum();
        let h = zksync_consensus_crypto::keccak256::Keccak256::new(&turn.to_be_bytes());
        let r = num_bigint::BigUint::from_bytes_be(h.as_bytes()) % num_bigint::BigUint::from(lw);
        let r: u64 = r.to_u64_digits().first().copied().unwrap_or(0);
        let mut acc = 0u64;
        let mut expect = None;
        for &i in &leaders {{ acc += weights[i]; if r < acc {{ expect = Some(i); break; }} }}
        assert_eq!(Some(idx), expect, "weighted walk: residue {{}} of {{}}", r, lw);
    }}
}}
'''


def make_replay(rep, key, text, model, N, flags, mode, perm, ws, extra_syms, n):
    """concretise the counterexample and run it against the real crates"""
    if model is None:
        return Violation(PROP, key, text, None, None)
    def val(name, default=1):
        for d in model.decls():
            if d.name() == name: return model[d].as_long()
        return default
    weights = [max(1, val(f'w{i}')) for i in range(N)]
    view = val('view', 0); freq = val('frequency', 1)
    residue = None; modulus = None
    for d in model.decls():
        if d.name().startswith('hash_mod_weight'): residue = model[d].as_long()
        if d.name().startswith('hash_modulus'): modulus = model[d].as_long()
    src = replay_src(N, flags, mode, perm, weights, view, freq, residue, modulus)
    name = f'c11_{n}'
    r = replay.run_replay(name, src)
    rep.replayed += 1
    if r['reproduced'] is True and 'REPLAY-NOT-FOUND' in r['output']:
        r['reproduced'] = None
    witness = dict(N=N, flags=flags, mode=mode, order=list(perm), weights=weights, view=view, frequency=freq, residue=residue)
    v = Violation(PROP, key, text + f' | witness {witness}', r['path'], r['reproduced'] if r['reproduced'] is not None else False, witness)
    return v


def small_model(pc, model_hint, N, flags):
    """re-solve preferring small leader weights so that the abstract hash residue can be realised quickly"""
    lead = [i for i in range(N) if flags[i]]
    ws = [z3.Int(f'w{i}') for i in range(N)]
    for bound in (1, 4, 64, 4096):
        s = z3.Solver(); s.set('timeout', 20000)
        for c in pc: s.add(c)
        s.add(sum((ws[i] for i in lead), z3.IntVal(0)) <= bound)
        for w in ws: s.add(w <= 1000)
        if s.check() == z3.sat: return s.model()
    return model_hint


def run(rep, db, tier, seed):
    rep.engines.append('mirsym (MIR symbolic execution + z3)')
    rep.trusted += M.TRUSTED + env.TRUSTED + ['keccak(turn) mod W abstracted as an arbitrary residue in [0, W); BigUint::to_u64_digits() is empty iff the value is zero',
                                               'u64 / u64 with both operands symbolic is an uninterpreted function (only r <= x, x/1 = x, x/y = 0 for y > x are assumed); the round-robin oracle is stated with the same function']
    rep.assumptions += ['PublicKey ordering is a strict total order (keys are opaque identities key0 < key1 < ...); the input order of the validator list is enumerated as permutations',
                        'uniformity of Keccak-256 (needed to turn "exactly weight_i of the W residues select leader i" into "a share of views proportional to weight") is not decided']
    maxN = 3 if tier == 'quick' else 5
    permN = 3 if tier == 'quick' else 4
    rep.bounds = dict(committee_size=f'1..{maxN}', leader_flag_patterns='all non-empty subsets (plus the empty subset for Schedule::new)', modes=['RoundRobin', 'Weighted'],
                      input_orders=f'all permutations for N <= {permN}, identity and reverse above', weights='symbolic u64 each', view='symbolic u64', frequency='symbolic u64 (0 included)',
                      loop_unwinding='N + 3 with unwinding assertion')
    nrep = 0
    seen_keys = {}
    t0 = time.time()
    for N in range(1, maxN + 1):
        perms = list(itertools.permutations(range(N))) if N <= permN else [tuple(range(N)), tuple(reversed(range(N)))]
        for flags in itertools.product([True, False], repeat=N):
            for mode in ('RoundRobin', 'Weighted'):
                # (1) Schedule::new for every input order
                nv = 0; npaths = 0
                try:
                    for perm in perms:
                        if mode == 'Weighted' and perm != perms[0] and perm != perms[-1]:
                            continue   # `new` does not branch on the mode; all orders are covered under RoundRobin
                        res, viol = check_new(rep, db, N, list(flags), mode, perm)
                        npaths += len(res)
                        for key, text, model, ws in viol:
                            nv += 1
                            if key in seen_keys: seen_keys[key] += 1; continue
                            seen_keys[key] = 1
                            pcs = [pc for k_, v_, pc, l_ in res]
                            rep.violation(make_replay(rep, key, text, model, N, list(flags), mode, perm, ws, None, nrep)); nrep += 1
                    rep.add(Obligation(f'new N={N} flags={list(flags)} mode={mode}', 'violated' if nv else 'discharged', paths=npaths, orders=len(perms)))
                except Unmodelled as u:
                    rep.add(Obligation(f'new N={N} flags={list(flags)} mode={mode}', 'inconclusive', str(u)))
                if not any(flags):
                    continue
                # (2) view_leader on the real schedule, canonical order and reversed order
                try:
                    nv = 0; npaths = 0
                    for perm in {perms[0], perms[-1]}:
                        res, viol, ex = check_leader(rep, db, N, list(flags), mode, perm)
                        npaths += len(res)
                        for key, text, model, ws in viol:
                            nv += 1
                            if key in seen_keys: seen_keys[key] += 1; continue
                            seen_keys[key] = 1
                            if model is not None and mode == 'Weighted':
                                # find the path condition of this violation again to prefer small weights
                                for k_, v_, pc, l_ in res:
                                    if k_ == 'panic' and panic_key(v_) == key:
                                        model = small_model(pc, model, N, flags); break
                            rep.violation(make_replay(rep, key, text, model, N, list(flags), mode, perm, ws, None, nrep)); nrep += 1
                    rep.add(Obligation(f'view_leader N={N} flags={list(flags)} mode={mode}', 'violated' if nv else 'discharged', paths=npaths))
                except Unmodelled as u:
                    rep.add(Obligation(f'view_leader N={N} flags={list(flags)} mode={mode}', 'inconclusive', str(u)))
    rep.extra['violation_classes'] = seen_keys
    try:
        from props import c11_kernel
        c11_kernel.run(rep, db, tier)
    except Exception as u:
        rep.add(Obligation('hash-reduction kernel', 'inconclusive', f'{type(u).__name__}: {u}'[:600]))
    rep.extra['explanation'] = ('bounded symbolic execution of the real MIR of Schedule::new / view_leader / leader_weighted_eligibility; for each committee shape every u64 weight, view '
                                'and frequency is covered by the solver verdicts; outside the claim: N above the bound, statistical uniformity of Keccak')
