"""C16 — back-pressure of inbound consensus messages (`<&consensus::Network as rpc::Handler<rpc::consensus::Rpc>>::handle`, executed on its
real MIR): the RPC is answered only AFTER the request has left the node's inbound queue — acknowledged by the bft component, or
dropped by the queue's pruning (the acknowledgement channel disconnects) — so that a validator can have at most INFLIGHT unanswered
messages in the node (C15 decides the INFLIGHT bound). Obligations: the message is handed to the consensus queue exactly once, with
the sender of a fresh acknowledgement channel; `Ok(Resp)` is returned only on a path where the wait on THAT channel finished; while
the wait is pending the handler is pending; a cancelled context gives an error."""
import time
from mirsym.core import (Exec, explore, Agg, Ref, Cell, Opaque, Unmodelled, BoundExceeded, UNIT)
from mirsym import env, models as M
from mirsym.models import ok, err, ready, pending, BoxV, deref_all
from mirsym.mk import Mk, fld
from props import coro
from props.coro import EnvFuture, CANCELED
from props.c11 import panic_key
import framework as F

NET = 'zksync_consensus_network'


class Tx:
    def __init__(self, i): self.i = i
    def py_clone(self, ex): return self


class Rx:
    def __init__(self, i): self.i = i
    def py_clone(self, ex): return self


class LazySelf:
    """&Network: only `gossip.consensus_sender` is ever touched"""
    def __init__(self, path='self'): self.path = path
    def py_clone(self, ex): return self


def run(rep, db, tier):
    name = 'consensus RPC handler: answered only after the request left the inbound queue (acknowledged or pruned)'
    t0 = time.time()
    ex = Exec(db, loop_bound=6)
    env.install(ex); coro.install_futures(ex)
    n_before = len(ex.user_models)
    cur = [None]; log = lambda: cur[0]['log']
    mk = Mk(db, NET)
    def channel(e, n, a):
        s = cur[0]; s['n'] += 1; log().append(('oneshot', s['n'])); return M.tup(Tx(s['n']), Rx(s['n']))
    ex.model(r'(tokio::sync|zksync_concurrency)::oneshot::channel(::<.*>)?', channel)
    def queue_send(e, n, a):
        req = deref_all(a[1])
        ack = fld(req, 'ack') if isinstance(req, Agg) else None
        log().append(('queued', getattr(deref_all(ack), 'i', None), fld(req, 'msg') if isinstance(req, Agg) else None)); return UNIT
    ex.model(r'zksync_concurrency::sync::prunable_mpsc::Sender::<.*>::send', queue_send)
    def rx_recv(e, n, a):
        rx = deref_all(a[0])
        def respond(e2):
            c = e2.choose(4, 'ack_outcome')
            if c == 0: log().append(('still_queued', rx.i)); return pending()
            if c == 1: log().append(('wait_cancelled', rx.i)); return ready(err(CANCELED))
            if c == 2: log().append(('pruned', rx.i)); return ready(ok(err(Agg('adt', 'Disconnected', 0, []))))
            log().append(('acked', rx.i)); return ready(ok(ok(UNIT)))
        return EnvFuture('ack wait', respond)
    ex.model(r'(tokio::sync|zksync_concurrency)::oneshot::Receiver::<.*>::recv_or_disconnected', rx_recv)
    mine = ex.user_models[n_before:]; del ex.user_models[n_before:]; ex.user_models[0:0] = mine; ex._um_cache = {}
    keys = db.find(r"<&zksync_consensus_network::consensus::Network as zksync_consensus_network::rpc::Handler<zksync_consensus_network::rpc::consensus::Rpc>>::handle", kinds=('fn', 'inst'))
    if not keys:
        rep.add(F.Obligation(name, 'inconclusive', 'handler body not found in the dump')); return
    key = keys[0]
    try:
        net_t = mk.ty(r'zksync_consensus_network::consensus::Network'); gos_t = mk.ty(r'zksync_consensus_network::gossip::Network')
        req_t = mk.ty(r'zksync_consensus_network::rpc::consensus::Req')
    except Unmodelled as u:
        rep.add(F.Obligation(name, 'inconclusive', str(u)[:400])); return
    viol = {}; answered = 0

    def body(ex):
        cur[0] = dict(log=[], n=0)
        gos = Agg('adt', gos_t, 0, [Opaque('g_' + f['name']) for f in gos_t['info']['variants'][0]['fields']])
        net = Agg('adt', net_t, 0, [BoxV(gos) if f['name'] == 'gossip' else Opaque('n_' + f['name']) for f in net_t['info']['variants'][0]['fields']])
        msg = Opaque('signed consensus message')
        req = Agg('adt', req_t, 0, [msg])
        fut = ex.call_key(key, [Ref(Cell(Ref(Cell(net)))), Ref(Cell(Opaque('ctx'))), req])
        while isinstance(fut, Agg) and isinstance(fut.name, str) and fut.name.endswith('Pin') and fut.fields: fut = fut.fields[0]
        r = coro.poll_value(ex, fut if isinstance(fut, (Ref, BoxV)) else Ref(Cell(fut)))
        return r, msg, list(cur[0]['log'])
    try:
        res = explore(ex, body, budget_s=300)
    except (Unmodelled, BoundExceeded, KeyError) as u:
        rep.absorb_stats(ex.stats); rep.add(F.Obligation(name, 'inconclusive', f'{type(u).__name__}: {u}'[:700])); return
    rep.absorb_stats(ex.stats)
    for kind, val, pc, _ in res:
        if kind == 'panic':
            viol.setdefault('rpc:' + panic_key(val), f'the consensus RPC handler panics: {val[0]} at {val[1]}'); continue
        r, msg, lg = val
        evs = [e[0] for e in lg]
        queued = [e for e in lg if e[0] == 'queued']
        if r.variant == 1:
            # pending: only while the acknowledgement is outstanding
            if 'still_queued' not in evs: viol.setdefault('rpc:stuck', f'the handler is pending although nothing it waits for is outstanding (events {evs})')
            continue
        out = r.fields[0]
        if out.variant == 0:
            answered += 1; rep.nontrivial += 1
            done = [e for e in lg if e[0] in ('acked', 'pruned')]
            okk = len(queued) == 1 and queued[0][2] is msg and queued[0][1] is not None and len(done) == 1 and done[0][1] == queued[0][1] and 'still_queued' not in evs
            if not okk: viol.setdefault('rpc:answered-early', f'the consensus RPC is answered although the request has not (yet) left the inbound queue through the acknowledgement channel it was queued with — the sender is not held back and can flood the node (events {evs})')
        else:
            if 'wait_cancelled' not in evs: viol.setdefault('rpc:spurious-error', f'the consensus RPC fails although the context was not cancelled (events {evs})')
    for k, text in viol.items():
        rep.violation(F.Violation(rep.prop, k, text, None, None))
    if answered == 0 and not viol:
        rep.add(F.Obligation(name, 'inconclusive', 'no path answers the RPC (vacuous)')); return
    rep.add(F.Obligation(name, 'violated' if viol else 'discharged', paths=len(res), wall_s=round(time.time() - t0, 1)))
