"""C15 — the per-connection half: the RPC server loop (`<rpc::Server<R, H> as ServerTrait>::serve`, rpc/mod.rs:191-243) and
`Service::add_server`, executed on their real MIR for every RPC instantiation in the dump (the bodies are reachable only
through the `dyn ServerTrait` vtable; mirdump collects vtable methods of unsizing coercions for this). The scope inside
`serve` is sequentialised; the stream queue, the frame functions and the handler are answered by contract.

Obligations on the effect log:
 - one task per reservation: the loop takes a reserved stream from the queue for every task it spawns, and never serves on
   a stream it did not reserve (the stream queue — `max_streams` sub-streams, one limiter permit per OPEN, C14 / C15 —
   is therefore what bounds concurrency and rate);
 - one request per opened stream: a task opens its stream once, receives AT MOST ONE request on it (bounded by the handler's
   `max_req_size()`), calls the handler at most once and only with a received request, sends at most one response and only
   after the handler succeeded, and then ends (dropping the stream): a client cannot have several requests served on one
   OPEN, i.e. per limiter permit;
 - a failure at any stage ends the task without the later stages and does not end the server loop;
 - `add_server` creates the stream queue with exactly `R::INFLIGHT` sub-streams (the constant read from the RPC's source
   file) and the configured rate."""
import re, time
import z3
from mirsym.core import (Exec, explore, solve, Num, Agg, Ref, Cell, Opaque, Unmodelled, BoundExceeded, UNIT)
from mirsym import env, models as M
from mirsym.models import some, none, ok, err, ready, pending, BoxV, deref_all
from mirsym.mk import Mk, fld
from props import coro
from props.coro import EnvFuture, CANCELED
from props.c11 import panic_key
from props.c19_runner import LazyStruct
import framework as F

NET = 'zksync_consensus_network'
SERVE = r'<zksync_consensus_network::rpc::Server<(?P<rpc>[^,]+), (?P<h>.+)> as zksync_consensus_network::rpc::ServerTrait>::serve::<.*>'


class ScopeV:
    def __init__(self): self.tasks = []
    def py_clone(self, ex): return self


def install(ex, db, cur):
    env.install(ex); env.install_ideal_crypto(ex); coro.install_futures(ex)
    n_before = len(ex.user_models)
    log = lambda: cur[0]['log']
    ex.model(r'zksync_concurrency::scope::Scope::<.*>::new', lambda e, n, a: ScopeV())

    def spawn(e, n, a):
        sc = deref_all(a[0]); s = cur[0]
        s['spawned'] += 1; tid = s['spawned']
        log().append(('spawn', tid)); sc.tasks.append((tid, Cell(a[1])))
        # the task runs to completion at once or later — here: at once (tasks of one connection do not share state)
        s['current'] = tid
        r = coro.poll_value(e, Ref(sc.tasks[-1][1]))
        log().append(('task-end', tid, 'pending' if r.variant == 1 else ('ok' if r.fields[0].variant == 0 else 'err')))
        s['current'] = None
        return Opaque('join handle')
    ex.model(r'zksync_concurrency::scope::Scope::<.*>::(spawn|spawn_bg)(::<.*>)?', spawn)

    def scope_run(e, n, a):
        sc = deref_all(a[0]); clo = a[1]
        def respond(e2):
            root = Cell(e2.call_closure(clo, [Ref(Cell(Opaque('scope_ctx'))), Ref(Cell(sc))]))
            r = coro.poll_value(e2, Ref(root))
            if r.variant == 1: return pending()
            return ready(r.fields[0])
        return EnvFuture('scope.run', respond)
    ex.model(r'zksync_concurrency::scope::Scope::<.*>::run(::<.*>)?', scope_run)

    def reserve(e, n, a):
        def respond(e2):
            s = cur[0]; s['reservations'] += 1
            if s['reservations'] > s['max_streams']: return ready(err(CANCELED))
            log().append(('reserve', s['reservations']))
            return ready(ok(Opaque(('reserved', s['reservations']))))
        return EnvFuture('queue.reserve', respond)
    ex.model_path('zksync_consensus_network::mux::reusable_stream::StreamQueue::reserve', reserve)

    def open_(e, n, a):
        rs = a[0]
        def respond(e2):
            s = cur[0]
            c = e2.choose(3, 'open')
            if c == 0: return ready(err(CANCELED))
            if c == 1: log().append(('open-disconnected', s['current'])); return ready(ok(err(Agg('adt', 'Disconnected', 0, []))))
            log().append(('open', s['current'], rs.tag if isinstance(rs, Opaque) else None))
            st_t = cur[0]['stream_t']
            stream = Agg('adt', st_t, 0, [Opaque(('read', s['current'])), Opaque(('write', s['current']))])
            return ready(ok(ok(stream)))
        return EnvFuture('stream.open', respond)
    ex.model_path('zksync_consensus_network::mux::reusable_stream::ReservedStream::open', open_)

    def recv(e, n, a):
        rd = deref_all(a[1]); mx = a[2]
        def respond(e2):
            s = cur[0]
            log().append(('recv', s['current'], rd.tag if isinstance(rd, Opaque) else None, mx))
            if e2.choose(2, 'recv') == 0: return ready(err(Opaque('anyhow::Error')))
            return ready(ok(Agg('tuple', None, 0, [Opaque(('request', s['current'])), e2.fresh('req_size')])))
        return EnvFuture('mux_recv_proto', respond)
    ex.model(r'zksync_consensus_network::frame::mux_recv_proto::<.*>', recv)

    def handle(e, n, a):
        req = a[2] if len(a) > 2 else None
        def respond(e2):
            s = cur[0]
            log().append(('handle', s['current'], req.tag if isinstance(req, Opaque) else None))
            if e2.choose(2, 'handler') == 0: return ready(err(Opaque('anyhow::Error')))
            return ready(ok(Opaque(('response', s['current']))))
        return coro.pin(BoxV(EnvFuture('handler.handle', respond)))
    ex.model(r'<.* as zksync_consensus_network::rpc::Handler<.*>>::handle(::<.*>)?|.*<impl zksync_consensus_network::rpc::Handler<.*> for .*>::handle(::<.*>)?', handle)

    def max_req(e, n, a):
        return cur[0]['max_req']
    ex.model(r'<.* as zksync_consensus_network::rpc::Handler<.*>>::max_req_size|.*<impl zksync_consensus_network::rpc::Handler<.*> for .*>::max_req_size', max_req)

    def send(e, n, a):
        wr = deref_all(a[1])
        def respond(e2):
            s = cur[0]
            log().append(('send', s['current'], wr.tag if isinstance(wr, Opaque) else None))
            if e2.choose(2, 'send') == 0: return ready(err(Opaque('anyhow::Error')))
            return ready(ok(e2.fresh('resp_size')))
        return EnvFuture('mux_send_proto', respond)
    ex.model(r'zksync_consensus_network::frame::mux_send_proto::<.*>', send)
    ex.model(r'anyhow::Ok::<.*>', lambda e, n, a: ok(a[0]))
    ex.model(r'zksync_concurrency::ctx::Ctx::now', lambda e, n, a: Opaque('instant'))
    ex.model(r'<(zksync_concurrency::time|std::time|time::instant|time)::Instant as std::ops::Sub>::sub', lambda e, n, a: Opaque('duration'))
    ex.model(r'<.* as zksync_concurrency::metrics::LatencyHistogramExt>::observe_latency', lambda e, n, a: UNIT)
    ex.model(r'zksync_consensus_network::rpc::metrics::.*|<zksync_consensus_network::rpc::metrics::.*', lambda e, n, a: Opaque('metrics'))
    ex.model(r'<anyhow::Error as std::fmt::(Debug|Display)>::fmt', lambda e, n, a: ok(UNIT))
    mine = ex.user_models[n_before:]; del ex.user_models[n_before:]; ex.user_models[0:0] = mine; ex._um_cache = {}


def check_serve(rep, db, key, label):
    name = f'RPC server loop [{label}]: one task per reserved stream, at most one request served per opened stream'
    t0 = time.time()
    ex = Exec(db, loop_bound=8)
    cur = [None]
    install(ex, db, cur)
    mk = Mk(db, NET)
    try:
        stream_t = mk.ty(r'zksync_consensus_network::mux::transient_stream::Stream')
        rec = db.body(key)
        self_t = db.ty(rec['crate'], db.ty(rec['crate'], rec['body']['locals'][1]['ty'])['info']['to'])
    except (KeyError, Unmodelled) as u:
        rep.add(F.Obligation(name, 'inconclusive', str(u)[:400])); return

    def body(ex):
        s = dict(log=[], spawned=0, reservations=0, max_streams=2, current=None, stream_t=stream_t, max_req=ex.fresh('max_req_size')); cur[0] = s
        srv = LazyStruct(ex, db, NET, self_t, 'server')
        fut = ex.call_key(key, [Ref(Cell(srv)), Ref(Cell(Opaque('ctx')))])
        # async_trait: Pin<Box<dyn Future>>
        while isinstance(fut, Agg) and fut.kind == 'adt' and len(fut.fields) == 1 and not (fut.kind == 'coroutine'): fut = fut.fields[0]
        r = coro.poll_value(ex, fut if isinstance(fut, Ref) else Ref(Cell(fut)))
        return r, list(s['log']), s['max_req']
    try:
        res = explore(ex, body, budget_s=600)
    except (Unmodelled, BoundExceeded, KeyError) as u:
        rep.absorb_stats(ex.stats); rep.add(F.Obligation(name, 'inconclusive', f'{type(u).__name__}: {u}'[:800])); return
    rep.absorb_stats(ex.stats)
    viol = {}; served = 0

    def need(pc, k, text, cond):
        if k in viol: return
        st, m = solve(pc, z3.Not(cond))
        if st == 'sat': viol[k] = (text, m)
        elif st != 'unsat': raise Unmodelled('solver unknown')
    for kind, val, pc, _ in res:
        if kind == 'panic':
            st, m = solve(pc, None)
            if st == 'sat': viol.setdefault('server:' + panic_key(val), (f'the RPC server loop panics: {val[0]} at {val[1]}', m))
            continue
        r, log, max_req = val
        spawns = [e for e in log if e[0] == 'spawn']; reserves = [e for e in log if e[0] == 'reserve']
        need(pc, 'server:task-without-reservation', 'the server spawns a serving task without having reserved a stream for it (the INFLIGHT / rate limits of the stream queue are bypassed)', z3.BoolVal(len(spawns) <= len(reserves)))
        need(pc, 'server:reservation-not-served', 'a reserved stream is not handed to a serving task (the stream stays blocked)', z3.BoolVal(len(spawns) >= len(reserves)))
        for tid in [e[1] for e in spawns]:
            evs = [e for e in log if len(e) > 1 and e[1] == tid and e[0] in ('open', 'open-disconnected', 'recv', 'handle', 'send')]
            kinds = [e[0] for e in evs]
            opens = [e for e in evs if e[0] == 'open']
            need(pc, 'server:stream-reuse', 'a serving task opens more than one transient stream, or a stream reserved for another task', z3.BoolVal(len(opens) <= 1 and all(o[2] == ('reserved', tid) for o in opens)))
            n_recv = kinds.count('recv'); n_handle = kinds.count('handle'); n_send = kinds.count('send')
            if n_handle: served += 1; rep.nontrivial += 1
            need(pc, 'server:several-requests-per-stream', 'more than one request is received / handled / answered on one opened stream: a client gets several requests served per OPEN, i.e. per limiter permit', z3.BoolVal(n_recv <= 1 and n_handle <= 1 and n_send <= 1))
            order_ok = kinds == [k for k in ('open', 'recv', 'handle', 'send') if k in kinds] or kinds == ['open-disconnected']
            need(pc, 'server:stage-order', f'the stages of serving a request run out of order or after a failed stage ({kinds})', z3.BoolVal(order_ok and (('recv' not in kinds) or ('open' in kinds)) and (('handle' not in kinds) or ('recv' in kinds)) and (('send' not in kinds) or ('handle' in kinds))))
            for e in evs:
                if e[0] == 'recv':
                    need(pc, 'server:request-size-unbounded', 'the request is received with a size bound other than the handler\'s max_req_size()', (e[3].e == max_req.e) if hasattr(e[3], 'e') else z3.BoolVal(False))
                    need(pc, 'server:foreign-stream', 'the request is read from a stream other than the one this task opened', z3.BoolVal(e[2] == ('read', tid)))
                if e[0] == 'send':
                    need(pc, 'server:foreign-stream', 'the response is written to a stream other than the one this task opened', z3.BoolVal(e[2] == ('write', tid)))
                if e[0] == 'handle':
                    need(pc, 'server:foreign-request', 'the handler is called with something other than the request received on this stream', z3.BoolVal(e[2] == ('request', tid)))
            ends = [e for e in log if e[0] == 'task-end' and e[1] == tid]
            need(pc, 'server:task-fails-scope', 'a failed request makes the serving task return an error (it would cancel the whole connection scope)', z3.BoolVal(bool(ends) and ends[0][2] in ('ok',)))
    for k, (text, m) in viol.items():
        rep.violation(F.Violation(rep.prop, k, f'[{label}] ' + text, None, None, ', '.join(f'{d.name()}={m[d]}' for d in m.decls() if d.arity() == 0 and '!' not in d.name())[:300] if m is not None else ''))
    if served == 0 and not viol:
        rep.add(F.Obligation(name, 'inconclusive', 'no explored path serves a request (vacuous)')); return
    rep.add(F.Obligation(name, 'violated' if viol else 'discharged', paths=len(res), wall_s=round(time.time() - t0, 1)))
    rep.samples.append(f'RPC server loop [{label}]: {len(res)} paths, {served} serve a request')


def check_add_server(rep, db, key, label, rpc_path):
    name = f'Service::add_server [{label}]: stream queue created with R::INFLIGHT sub-streams and the given rate'
    t0 = time.time()
    # expected constant from the RPC's source file
    mod = rpc_path.split('::')[-2] if rpc_path.endswith('::Rpc') else None
    want = None
    try:
        src = open(f'{F.NODE}/components/network/src/rpc/{mod}.rs').read()
        m = re.search(r'const INFLIGHT: u32 = (\d+);', src)
        want = int(m.group(1)) if m else None
    except Exception:
        pass
    if want is None:
        rep.add(F.Obligation(name, 'inconclusive', f'INFLIGHT constant of {rpc_path} not found in the source')); return
    ex = Exec(db, loop_bound=8)
    cur = [dict(log=[])]
    env.install(ex); coro.install_futures(ex)
    n_before = len(ex.user_models)
    def sq_new(e, n, a):
        cur[0]['log'].append(('queue', a[1], a[2])); return BoxV(Opaque('stream queue'))
    ex.model_path('zksync_consensus_network::mux::reusable_stream::StreamQueue::new', sq_new)
    mine = ex.user_models[n_before:]; del ex.user_models[n_before:]; ex.user_models[0:0] = mine; ex._um_cache = {}
    mk = Mk(db, NET)
    try:
        svc_t = mk.ty(r'zksync_consensus_network::rpc::Service')
        mux_t = mk.ty(r'zksync_consensus_network::mux::Mux')
    except (KeyError, Unmodelled) as u:
        rep.add(F.Obligation(name, 'inconclusive', str(u)[:300])); return

    def body(ex):
        cur[0] = dict(log=[])
        mfs = mux_t['info']['variants'][0]['fields']
        mvals = dict(cfg=BoxV(Opaque('cfg')), accept=M.MapV([], True, 'map'), connect=M.MapV([], True, 'map'))
        if set(f['name'] for f in mfs) != set(mvals): raise Unmodelled(f'Mux fields changed: {[f["name"] for f in mfs]}')
        mux = Agg('adt', mux_t, 0, [mvals[f['name']] for f in mfs])
        sfs = svc_t['info']['variants'][0]['fields']
        svals = dict(mux=mux, servers=M.VecV([]))
        if set(f['name'] for f in sfs) != set(svals): raise Unmodelled(f'Service fields changed: {[f["name"] for f in sfs]}')
        svc = Agg('adt', svc_t, 0, [svals[f['name']] for f in sfs])
        rate = Opaque('configured rate')
        r = ex.call_key(key, [svc, Ref(Cell(Opaque('ctx'))), Opaque('handler'), rate])
        return list(cur[0]['log']), r
    try:
        res = explore(ex, body, budget_s=120)
    except (Unmodelled, BoundExceeded, KeyError) as u:
        rep.absorb_stats(ex.stats); rep.add(F.Obligation(name, 'inconclusive', f'{type(u).__name__}: {u}'[:600])); return
    rep.absorb_stats(ex.stats)
    viol = {}
    done = 0
    for kind, val, pc, _ in res:
        if kind == 'panic': continue        # double registration panics by design
        log, r = val; rep.nontrivial += 1; done += 1
        qs = [e for e in log if e[0] == 'queue']
        if len(qs) != 1: viol['server:queue-count'] = f'add_server creates {len(qs)} stream queues'; continue
        st, m = solve(pc, qs[0][1].e != want) if hasattr(qs[0][1], 'e') else ('sat', None)
        if st == 'sat': viol['server:inflight'] = f'add_server creates the stream queue with a number of sub-streams other than R::INFLIGHT = {want}'
        if not (isinstance(qs[0][2], Opaque) and qs[0][2].tag == 'configured rate'): viol['server:rate'] = 'add_server does not pass the configured rate to the stream queue'
    for k, text in viol.items():
        rep.violation(F.Violation(rep.prop, k, f'[{label}] ' + text, None, None, label))
    if done == 0 and not viol:
        rep.add(F.Obligation(name, 'inconclusive', f'no path registers the server (vacuous): {[ (k_, str(v_)[:300]) for k_, v_, _p, _l in res][:2]}')); return
    rep.add(F.Obligation(name, 'violated' if viol else 'discharged', paths=len(res), wall_s=round(time.time() - t0, 1)))


def run(rep, db, tier):
    found = {}
    for n_, ks in db.by_name.items():
        m = re.fullmatch(SERVE, n_)
        if m and not n_.endswith('}'):
            for k in ks:
                if db.by_key[k][3] == 'inst': found[n_] = (k, m.group('rpc'), m.group('h'))
    if not found:
        rep.add(F.Obligation('RPC server loop', 'inconclusive', 'no instance of <rpc::Server<R, H> as ServerTrait>::serve in the dump (vtable instances missing?)')); return
    items = sorted(found.items(), key=lambda kv: kv[0])
    for n_, (k, rpc, h) in items:
        label = rpc.replace('zksync_consensus_network::rpc::', '')
        check_serve(rep, db, k, label)
    adds = {}
    for n_, ks in db.by_name.items():
        m = re.fullmatch(r"zksync_consensus_network::rpc::Service::<'_>::add_server::<(?P<rpc>[^,]+), (?P<h>.+)>", n_)
        if m:
            for k in ks:
                if db.by_key[k][3] == 'inst': adds[m.group('rpc')] = k
    for rpc, k in sorted(adds.items()):
        check_add_server(rep, db, k, rpc.replace('zksync_consensus_network::rpc::', ''), rpc)
