"""C17 — task scopes: PARTIAL, sequential local obligations only.

The statement of C17 quantifies over all task trees under all thread schedules of the tokio runtime; that is NOT decided
(no engine here models pre-emptive concurrency; a Kani attempt with a sequential executor did not terminate, see
probes/kani_attempts). What is decided, on the real MIR of scope/state.rs, scope/task.rs and scope/mod.rs (instantiation
E = zksync_concurrency::ctx::Error), are the local steps the scope's guarantees are assembled from:

 set_err    `TerminateGuard::set_err` from every prior error state {none, error e0, panic} with every report {error e1,
            panic}: the recorded error afterwards is the FIRST error unless a panic was reported (a panic overrides an
            error, nothing overrides a panic); the scope's context is cancelled whenever the first failure is recorded; a
            report is never dropped because another thread holds the error lock (`try_lock`-style acquisition is answered
            "would block": bounded interference by one concurrent reporter).
 guards     dropping a `TerminateGuard` sends the terminated signal; dropping a `CancelGuard` cancels the scope's context
            (these two Drop impls are what turn "last task finished" / "last main task finished" into the events).
 task       `Task::run` (coroutine, main and background task): the task's future returning Ok(v) yields Ok(v) and reports
            nothing; Err(e) reports exactly e through set_err and yields Err(Terminated); the task's guard is the scope's
            terminate guard in both cases; a `PanicReporter` that is dropped without being defused (unwinding) reports a
            panic, a defused one reports nothing.
 scope      `Scope::run` (coroutine) with the runtime by contract: the root task is spawned as a MAIN task before the
            scope's own guard is dropped; the scope returns only after the root's join handle resolved AND the terminated
            signal was received; the result is Ok(root value) iff no error was recorded, Err(e) for a recorded error e, and
            a panic is re-raised for a recorded panic — in each case only after termination.
 spawn      `Scope::main_task` yields a main task while the cancel guard is alive and falls back to a background task
            afterwards; `bg_task` yields a background task.
Outside (said plainly): every interleaving / thread-schedule aspect — that guards are really held by every task until it
ends (Arc reference counting is std's), races between concurrent reporters beyond the one interference above, blocking
scopes (`run_blocking` has no instantiation outside tests), `Ctx` cancellation cascade and deadlines (ctx/mod.rs), tokio."""
import re, time
import z3
from mirsym.core import (Exec, explore, solve, Num, Agg, Ref, Cell, Opaque, Panic, Unmodelled, BoundExceeded, UNIT)
from mirsym import env, models as M
from mirsym.models import some, none, ok, err, ready, pending, BoxV, deref_all
from mirsym.mk import Mk, fld, variant_name
from props import coro
from props.coro import EnvFuture
from props.c11 import panic_key
from framework import Obligation, Violation
import framework as F

PROP = 'C17'
CONC = 'zksync_consensus_bft'      # the crate whose dump holds the instantiations with E = ctx::Error (types and bodies are taken from one crate)
Z = 'zksync_concurrency::scope::'
E = r'zksync_concurrency::ctx::Error'


class CtxV:
    def __init__(self, name): self.name = name
    def py_clone(self, ex): return self
    def __repr__(self): return f'Ctx<{self.name}>'


class OnceV:
    def __init__(self): self.sent = False
    def py_clone(self, ex): return self


def install(ex, st):
    env.install(ex); coro.install_futures(ex)
    n_before = len(ex.user_models)
    log = lambda: st()['log']
    ex.model(r'zksync_concurrency::ctx::Ctx::cancel', lambda e, n, a: (log().append(('cancel', deref_all(a[0]).name)), UNIT)[1])
    ex.model(r'zksync_concurrency::ctx::Ctx::clone', lambda e, n, a: deref_all(a[0]))
    ex.model(r'zksync_concurrency::ctx::Ctx::child', lambda e, n, a: CtxV('child-of-' + deref_all(a[0]).name))
    ex.model(r'zksync_concurrency::signal::Once::new', lambda e, n, a: OnceV())

    def once_send(e, n, a):
        o = deref_all(a[0]); o.sent = True; log().append(('terminated',)); return UNIT
    ex.model(r'zksync_concurrency::signal::Once::send', once_send)
    ex.model(r'zksync_concurrency::signal::Once::try_recv', lambda e, n, a: deref_all(a[0]).sent)

    def once_recv(e, n, a):
        o = deref_all(a[0])
        def respond(e2):
            s = st()
            if not o.sent and s.get('env_terminates'):
                s['env_terminates'](e2, o)
            if o.sent: log().append(('terminated-received',)); return ready(UNIT)
            return pending()
        return EnvFuture('Once::cancel_safe_recv', respond)
    ex.model(r'zksync_concurrency::signal::Once::cancel_safe_recv', once_recv)

    # error lock: `lock()` succeeds; a non-blocking acquisition may find the lock held by a concurrent reporter
    def try_lock(e, n, a):
        if e.choose(2, 'lock_contended') == 0:
            log().append(('lock-contended',)); return err(Opaque('TryLockError::WouldBlock'))
        return NotImplemented
    # std::sync::Mutex<T> = BoxV(T) (models.M_new); a guard is the same box (Deref / DerefMut / Drop below)
    def lock(e, n, a):
        m = a[0]
        while isinstance(m, Ref): m = m.get()
        if not isinstance(m, BoxV): raise Unmodelled(f'Mutex receiver {m!r}')
        return ok(m)
    def try_lock_full(e, n, a):
        r = try_lock(e, n, a)
        return lock(e, n, a) if r is NotImplemented else r
    ex.model(r'std::sync::Mutex::<.*>::lock', lock)
    ex.model(r'std::sync::Mutex::<.*>::try_lock', try_lock_full)
    ex.model(r'<std::sync::MutexGuard<.*> as std::ops::Deref(Mut)?>::deref(_mut)?', lambda e, n, a: Ref(deref_guard(a[0]).cell))
    ex.model(r'zksync_concurrency::scope::must_complete::Guard::defuse', lambda e, n, a: (log().append(('must-complete-defused',)), UNIT)[1])
    ex.model(r'<.* as tracing::Instrument>::in_current_span|tracing::Instrument::in_current_span|<.* as tracing::instrument::Instrument>::in_current_span', lambda e, n, a: a[0])
    mine = ex.user_models[n_before:]; del ex.user_models[n_before:]; ex.user_models[0:0] = mine; ex._um_cache = {}


def deref_guard(v):
    while isinstance(v, Ref): v = v.get()
    if not isinstance(v, BoxV): raise Unmodelled(f'MutexGuard value {v!r}')
    return v


class Types:
    def __init__(self, db):
        self.db = db; self.mk = Mk(db, CONC)
        d = r'.*<' + E + r'>'
        self.state_t = self.mk.ty(Z + r'state::State', d)
        self.tg_t = self.mk.ty(Z + r'state::TerminateGuard', d)
        self.cg_t = self.mk.ty(Z + r'state::CancelGuard', d)
        self.orp_t = self.mk.ty(Z + r'state::OrPanic', d)
        self.task_t = self.mk.ty(Z + r'task::Task', d)

    def find(self, pat, kinds=('inst',)):
        ks = [k for k in self.db.find(pat, kinds=kinds) if self.db.by_key[k][0] == CONC]
        if not ks: raise Unmodelled(f'no body matches {pat} in {CONC}')
        return sorted(ks, key=lambda k: (len(self.db.by_key[k][4]), self.db.by_key[k][4]))[0]

    def variant(self, t, name, *fields):
        vs = t['info']['variants']; names = [v['name'] for v in vs]
        if name not in names: raise Unmodelled(f'{t["display"]} has no variant {name}')
        return Agg('adt', t, names.index(name), list(fields))

    def or_panic(self, which, payload=None):
        return self.variant(self.orp_t, 'Panic') if which == 'panic' else self.variant(self.orp_t, 'Err', payload)

    def state(self, prior):
        """(TerminateGuard value, error cell, Once) for a prior error state in {none, err, panic}"""
        errv = none() if prior == 'none' else some(self.or_panic(prior, Opaque('e0') if prior == 'err' else None))
        mutex = BoxV(errv); once = OnceV(); ctx = CtxV('scope')
        fs = self.state_t['info']['variants'][0]['fields']
        vals = dict(ctx=ctx, err=mutex, terminated=once)
        if set(f['name'] for f in fs) != set(vals): raise Unmodelled(f'scope State fields changed: {[f["name"] for f in fs]}')
        state = Agg('adt', self.state_t, 0, [vals[f['name']] for f in fs])
        tg = Agg('adt', self.tg_t, 0, [BoxV(state)])
        return tg, mutex, once


def err_kind(mutex):
    v = mutex.cell.v
    if not isinstance(v, Agg): raise Unmodelled(f'error cell holds {v!r}')
    if v.variant == 0: return ('none', None)
    o = v.fields[0]
    return ('panic', None) if variant_name(o) == 'Panic' else ('err', o.fields[0])


def pick(ex, name, options):
    """a harness-level symbolic selector: the case analysed on a path is the value of a solver variable"""
    v = ex.fresh(name, 8); ex.assume(v.e < len(options))
    for i, o in enumerate(options[:-1]):
        if ex.branch(v.e == i): return o
    return options[-1]


def run_paths(ex, body, budget=300):
    res = explore(ex, body, budget_s=budget)
    return res


def check_set_err(rep, db, T):
    name = 'set_err: first error wins, a panic overrides an error, the first failure cancels the context, no report is dropped'
    t0 = time.time()
    ex = Exec(db, loop_bound=8); cur = [None]; install(ex, lambda: cur[0])
    key = T.find(Z + r'state::TerminateGuard::<' + E + r'>::set_err')
    viol = {}; n = 0
    if True:
        if True:
            def body(ex):
                s = dict(log=[]); cur[0] = s
                prior = pick(ex, 'prior_state', ('none', 'err', 'panic')); new = pick(ex, 'report', ('err', 'panic'))
                tg, mutex, once = T.state(prior)
                ex.call_key(key, [Ref(Cell(tg)), T.or_panic(new, Opaque('e1') if new == 'err' else None)])
                return err_kind(mutex), list(s['log']), prior, new
            for kind, val, pc, _ in run_paths(ex, body):
                n += 1
                if kind == 'panic':
                    viol.setdefault('set_err:' + panic_key(val), f'set_err panics: {val[0]} at {val[1]}'); continue
                (k, payload), log, prior, new = val; rep.nontrivial += 1
                want = {('none', 'err'): ('err', 'e1'), ('none', 'panic'): ('panic', None), ('err', 'err'): ('err', 'e0'), ('err', 'panic'): ('panic', None),
                        ('panic', 'err'): ('panic', None), ('panic', 'panic'): ('panic', None)}[(prior, new)]
                got = (k, payload.tag if isinstance(payload, Opaque) else None)
                contended = ('lock-contended',) in log
                if got != want:
                    key_ = 'set_err:report-dropped' if contended else 'set_err:wrong-error'
                    viol.setdefault(key_, f'prior state {prior}, report {new}: recorded error is {got}, specified {want}' + (' (the report is dropped when another task holds the error lock)' if contended else ''))
                if prior == 'none' and ('cancel', 'scope') not in log:
                    viol.setdefault('set_err:no-cancel', f'the first failure ({new}) is recorded without cancelling the scope\'s context')
    rep.absorb_stats(ex.stats)
    for k, text in viol.items(): rep.violation(Violation(PROP, k, text, None, None, 'TerminateGuard::set_err one step'))
    rep.add(Obligation(name, 'violated' if viol else 'discharged', paths=n, wall_s=round(time.time() - t0, 1)))


def check_guards(rep, db, T):
    name = 'guards: dropping the terminate guard signals termination, dropping the cancel guard cancels the context'
    t0 = time.time()
    ex = Exec(db, loop_bound=8); cur = [None]; install(ex, lambda: cur[0])
    kt = T.find(r'<' + Z + r'state::TerminateGuard<' + E + r'> as std::ops::Drop>::drop')
    kc = T.find(r'<' + Z + r'state::CancelGuard<' + E + r'> as std::ops::Drop>::drop')
    viol = {}; n = 0
    def body_t(ex):
        s = dict(log=[]); cur[0] = s
        tg, mutex, once = T.state('none')
        ex.call_key(kt, [Ref(Cell(tg))]); return once.sent, list(s['log'])
    def body_c(ex):
        s = dict(log=[]); cur[0] = s
        tg, mutex, once = T.state('none')
        cg = Agg('adt', T.cg_t, 0, [BoxV(tg)])
        ex.call_key(kc, [Ref(Cell(cg))]); return once.sent, list(s['log'])
    for which, body in (('terminate', body_t), ('cancel', body_c)):
        for kind, val, pc, _ in run_paths(ex, body):
            n += 1
            if kind == 'panic': viol.setdefault(f'guards:{which}:' + panic_key(val), f'dropping the {which} guard panics: {val[0]}'); continue
            sent, log = val; rep.nontrivial += 1
            if which == 'terminate' and not sent: viol.setdefault('guards:no-termination-signal', 'dropping the last TerminateGuard does not send the terminated signal: scope::run! would never return')
            if which == 'cancel' and ('cancel', 'scope') not in log: viol.setdefault('guards:no-cancel', 'dropping the last CancelGuard (all main tasks completed) does not cancel the scope\'s context: background tasks are never told to stop')
            if which == 'cancel' and sent: viol.setdefault('guards:early-termination', 'dropping the CancelGuard itself signals termination (before the terminate guards are gone)')
    rep.absorb_stats(ex.stats)
    for k, text in viol.items(): rep.violation(Violation(PROP, k, text, None, None, 'Drop impls of the scope guards'))
    rep.add(Obligation(name, 'violated' if viol else 'discharged', paths=n, wall_s=round(time.time() - t0, 1)))


def mk_task(T, main, prior='none'):
    tg, mutex, once = T.state(prior)
    if main:
        cg = Agg('adt', T.cg_t, 0, [BoxV(tg)])
        return T.variant(T.task_t, 'Main', BoxV(cg)), mutex, once
    return T.variant(T.task_t, 'Background', BoxV(tg)), mutex, once


def check_task(rep, db, T):
    name = 'Task::run / PanicReporter: Ok passes through silently, Err(e) is reported as e and becomes Terminated, an un-defused reporter reports a panic'
    t0 = time.time()
    ex = Exec(db, loop_bound=8); cur = [None]; install(ex, lambda: cur[0])
    run_keys = [k for k in db.find(Z + r'task::Task::<' + E + r'>::run::<.*>', kinds=('inst',)) if '{closure' not in db.by_key[k][4].split('::run::<')[0] and db.by_key[k][0] == CONC]
    run_keys = [k for k in run_keys if not db.by_key[k][4].rstrip().endswith('{closure#0}')]
    if not run_keys: raise Unmodelled('no Task::run instance')
    run_key = sorted(run_keys, key=lambda k: (len(db.by_key[k][4]), db.by_key[k][4]))[0]
    pr_drop = T.find(r'<' + Z + r'task::PanicReporter<' + E + r'> as std::ops::Drop>::drop')
    pr_new = T.find(Z + r'task::PanicReporter::<' + E + r'>::new')
    pr_defuse = T.find(Z + r'task::PanicReporter::<' + E + r'>::defuse')
    viol = {}; n = 0
    if True:
        if True:
            def body(ex):
                s = dict(log=[]); cur[0] = s
                main = pick(ex, 'task_is_main', (True, False)); outcome = pick(ex, 'task_outcome', ('ok', 'err'))
                task, mutex, once = mk_task(T, main)
                polled = [0]
                def respond(e2):
                    polled[0] += 1
                    if polled[0] == 1 and e2.choose(2, 'task_yields') == 0: return pending()
                    return ready(ok(Opaque('value')) if outcome == 'ok' else err(Opaque('task_error')))
                co = ex.call_key(run_key, [task, EnvFuture('task body', respond)])
                cell = Cell(co)
                r = coro.poll_value(ex, Ref(cell))
                if r.variant == 1: r = coro.poll_value(ex, Ref(cell))
                return r, err_kind(mutex), list(s['log']), outcome
            for kind, val, pc, _ in run_paths(ex, body):
                n += 1
                if kind == 'panic': viol.setdefault('task:' + panic_key(val), f'Task::run panics: {val[0]} at {val[1]}'); continue
                r, (k, payload), log, outcome = val; rep.nontrivial += 1
                if r.variant == 1: viol.setdefault('task:stuck', 'Task::run stays pending after its future completed'); continue
                res = r.fields[0]
                if outcome == 'ok':
                    if res.variant != 0 or k != 'none' or ('cancel', 'scope') in log:
                        viol.setdefault('task:ok-reported', f'a task that succeeded is reported as failed or cancels the scope (result variant {res.variant}, recorded {k})')
                else:
                    if res.variant != 1: viol.setdefault('task:err-swallowed', 'a task whose future returned an error yields Ok')
                    if k != 'err' or not (isinstance(payload, Opaque) and payload.tag == 'task_error'):
                        viol.setdefault('task:err-not-reported', f'the error returned by a task is not recorded in the scope (recorded: {k})')
                    if ('cancel', 'scope') not in log: viol.setdefault('task:err-no-cancel', 'a failing task does not cancel the scope\'s context')
    # panic reporter
    for defused in (False, True):
        def body(ex):
            s = dict(log=[]); cur[0] = s
            task, mutex, once = mk_task(T, True)
            pr = ex.call_key(pr_new, [task])
            cell = Cell(pr)
            if defused:
                t2 = ex.call_key(pr_defuse, [pr])
                return err_kind(mutex), list(s['log'])
            ex.call_key(pr_drop, [Ref(cell)])
            return err_kind(mutex), list(s['log'])
        for kind, val, pc, _ in run_paths(ex, body):
            n += 1
            if kind == 'panic': viol.setdefault('task:reporter:' + panic_key(val), f'PanicReporter panics: {val[0]}'); continue
            (k, payload), log = val; rep.nontrivial += 1
            if defused and k != 'none': viol.setdefault('task:defused-reports', 'a defused PanicReporter still reports a panic')
            if not defused and k != 'panic': viol.setdefault('task:panic-not-reported', 'a PanicReporter dropped during unwinding does not record the panic in the scope')
    rep.absorb_stats(ex.stats)
    for k, text in viol.items(): rep.violation(Violation(PROP, k, text, None, None, 'Task::run one task'))
    rep.add(Obligation(name, 'violated' if viol else 'discharged', paths=n, wall_s=round(time.time() - t0, 1)))


def run(rep, db, tier, seed):
    rep.engines.append('mirsym (MIR symbolic execution of scope/state.rs, task.rs, mod.rs + z3)')
    rep.trusted += M.TRUSTED + env.TRUSTED + ['Ctx::cancel / signal::Once / tokio spawn and join handles answered by contract; Arc / Weak transparent (reference counting is std\'s); std::sync::Mutex uncontended except that a try_lock may find it held']
    rep.assumptions += ['C17 itself (all task trees under all thread schedules) is NOT decided: only the sequential local steps listed in the explanation',
                        'Arc reference counting delivers the Drop of the guards exactly when the last holder is gone (std)']
    rep.bounds = dict(instantiation='E = zksync_concurrency::ctx::Error', steps='one operation each', interference='one concurrent holder of the error lock')
    try:
        T = Types(db)
    except (Unmodelled, KeyError) as u:
        rep.add(Obligation('scope types', 'inconclusive', str(u)[:500])); return
    for fn in (check_set_err, check_guards, check_task, check_scope_run, check_spawn_kind, lambda r, d, t: check_schedules(r, d, t, tier), check_child_ctx):
        try:
            fn(rep, db, T)
        except (Unmodelled, KeyError, BoundExceeded) as u:
            rep.add(Obligation(getattr(fn, '__name__', 'check'), 'inconclusive', f'{type(u).__name__}: {u}'[:700]))
    rep.extra['explanation'] = 'PARTIAL: sequential local obligations of the scope implementation on the real MIR (error recording, guards, task wrapper, scope epilogue); thread schedules are NOT explored'


class WeakV:
    def __init__(self, target): self.target = target
    def py_clone(self, ex): return WeakV(self.target)


def install_arc(ex):
    n_before = len(ex.user_models)
    ex.model(r'std::sync::Arc::<.*>::downgrade', lambda e, n, a: WeakV(deref_arc(a[0])))
    ex.model(r'std::sync::Weak::<.*>::new', lambda e, n, a: WeakV(None))
    ex.model(r'std::sync::Weak::<.*>::upgrade', lambda e, n, a: none() if deref_weak(a[0]).target is None else some(deref_weak(a[0]).target))
    mine = ex.user_models[n_before:]; del ex.user_models[n_before:]; ex.user_models[0:0] = mine; ex._um_cache = {}


def deref_arc(v):
    while isinstance(v, Ref): v = v.get()
    if not isinstance(v, BoxV): raise Unmodelled(f'Arc value {v!r}')
    return v


def deref_weak(v):
    while isinstance(v, Ref): v = v.get()
    if not isinstance(v, WeakV): raise Unmodelled(f'Weak value {v!r}')
    return v


def scope_value(T, db, cancel_alive, term_alive):
    """a Scope<'_, E> with its two weak guards alive or gone"""
    sc_t = T.mk.ty(Z + r'Scope', r'.*' + E + r'.*')
    tg, mutex, once = T.state('none')
    tg_box = BoxV(tg); cg_box = BoxV(Agg('adt', T.cg_t, 0, [tg_box]))
    fs = sc_t['info']['variants'][0]['fields']
    vals = dict(ctx=CtxV('scope'), cancel_guard=WeakV(cg_box if cancel_alive else None), terminate_guard=WeakV(tg_box if term_alive else None), _env=Opaque('phantom'))
    if set(f['name'] for f in fs) != set(vals): raise Unmodelled(f'Scope fields changed: {[f["name"] for f in fs]}')
    return Agg('adt', sc_t, 0, [vals[f['name']] for f in fs]), mutex, once


def check_spawn_kind(rep, db, T):
    name = 'Scope::main_task / bg_task: main task while the cancel guard lives, background task afterwards'
    t0 = time.time()
    ex = Exec(db, loop_bound=8); cur = [None]; install(ex, lambda: cur[0]); install_arc(ex)
    k_main = T.find(Z + r"Scope::<'_, " + E + r">::main_task"); k_bg = T.find(Z + r"Scope::<'_, " + E + r">::bg_task")
    viol = {}; n = 0
    for which, key in (('main', k_main), ('bg', k_bg)):
        for alive in (True, False):
            def body(ex):
                cur[0] = dict(log=[])
                sc, mutex, once = scope_value(T, db, alive, True)
                t = ex.call_key(key, [Ref(Cell(sc))])
                return variant_name(t)
            for kind, val, pc, _ in run_paths(ex, body):
                n += 1
                if kind == 'panic': viol.setdefault(f'spawn:{which}:' + panic_key(val), f'{which}_task panics: {val[0]}'); continue
                rep.nontrivial += 1
                want = 'Main' if (which == 'main' and alive) else 'Background'
                if val != want: viol.setdefault(f'spawn:{which}-kind', f'{which}_task with the cancel guard {"alive" if alive else "gone"} yields a {val} task, specified {want} (a main task keeps the scope from being cancelled; a background task must not)')
    rep.absorb_stats(ex.stats)
    for k, text in viol.items(): rep.violation(Violation(PROP, k, text, None, None, 'Scope::main_task / bg_task'))
    rep.add(Obligation(name, 'violated' if viol else 'discharged', paths=n, wall_s=round(time.time() - t0, 1)))


def check_scope_run(rep, db, T):
    name = 'Scope::run: root spawned as a main task, returns only after join + termination, result = first recorded failure (panic re-raised) or the root value'
    t0 = time.time()
    ex = Exec(db, loop_bound=8); cur = [None]; install(ex, lambda: cur[0]); install_arc(ex)
    n_before = len(ex.user_models)
    keys = [k for k in db.find(Z + r"Scope::<'_, " + E + r">::run::<.*>", kinds=('inst',)) if db.by_key[k][0] == CONC and not db.by_key[k][4].endswith('{closure#0}')]
    if not keys: raise Unmodelled('no Scope::run instance')
    key = sorted(keys, key=lambda k: (len(db.by_key[k][4]), db.by_key[k][4]))[0]
    # the root closure of this instantiation: the callee with a closure path that is called right before Scope::spawn in the coroutine body
    co_key = [k for k in db.find(re.escape(db.by_key[key][4]) + r'::\{closure#0\}', kinds=('inst',)) if db.by_key[k][0] == CONC]
    if not co_key: raise Unmodelled('coroutine body of Scope::run not found')
    rec = db.body(co_key[0]); root_clo = None
    for bb in rec['body']['blocks']:
        t = bb['terminator']['kind']
        if isinstance(t, dict) and 'Call' in t:
            nm = pp_callee(db, rec, t['Call'])
            if nm and '{closure' in nm and not nm.startswith('zksync_concurrency') and not nm.startswith('std::') and not nm.startswith('<'):
                root_clo = nm; break
    if root_clo is None: raise Unmodelled('root closure call not found in Scope::run')
    set_err = T.find(Z + r'state::TerminateGuard::<' + E + r'>::set_err')
    tg_drop = T.find(r'<' + Z + r'state::TerminateGuard<' + E + r'> as std::ops::Drop>::drop')
    ex.model(re.escape(root_clo), lambda e, n, a: EnvFuture('root future', lambda e2: cur[0]['root_respond'](e2)))

    def tokio_spawn(e, n, a):
        s = cur[0]; s['log'].append(('spawn',)); s['task'] = Cell(a[0])
        def respond(e2):
            s = cur[0]
            if s.get('root_result') is None:
                if s['root_outcome'] == 'panic':
                    # unwinding drops the task's frames: the un-defused PanicReporter reports the panic (check_task); tokio resolves the handle to JoinError
                    s['report'](e2, 'panic', None); s['root_result'] = err(Opaque('JoinError::Panic'))
                else:
                    r = coro.poll_value(e2, Ref(s['task']))
                    if r.variant == 1: return pending()
                    s['root_result'] = ok(r.fields[0])
                s['log'].append(('root-finished',))
            s['log'].append(('root-joined',))
            return ready(s['root_result'])
        return EnvFuture('tokio JoinHandle', respond)
    ex.model(r'tokio::task::spawn::<.*>|tokio::spawn::<.*>|tokio::task::spawn::spawn::<.*>', tokio_spawn)
    ex.model(r'std::boxed::Box::<.*>::pin', lambda e, n, a: coro.pin(BoxV(a[0])))
    ex.model(r'std::mem::transmute::<.*>', lambda e, n, a: a[0])
    mine = ex.user_models[n_before:]; del ex.user_models[n_before:]; ex.user_models[0:0] = mine; ex._um_cache = {}
    viol = {}; n = 0
    if True:
        if True:
            if True:
                def body(ex):
                    root_outcome = pick(ex, 'root_outcome', ('ok', 'err', 'panic')); other = pick(ex, 'other_task_report', ('none', 'err', 'panic'))
                    other_first = pick(ex, 'other_reports_first', (False, True)) if other != 'none' else False
                    s = dict(log=[], root_outcome=root_outcome, root_result=None, state=None, case=(root_outcome, other, other_first)); cur[0] = s
                    sc_t = T.mk.ty(Z + r'Scope', r'.*' + E + r'.*')
                    fs = sc_t['info']['variants'][0]['fields']
                    vals = dict(ctx=CtxV('scope'), cancel_guard=WeakV(None), terminate_guard=WeakV(None), _env=Opaque('phantom'))
                    if set(f['name'] for f in fs) != set(vals): raise Unmodelled(f'Scope fields changed: {[f["name"] for f in fs]}')
                    sc = Agg('adt', sc_t, 0, [vals[f['name']] for f in fs]); sc_cell = Cell(sc)

                    def the_tg():
                        w = fld(sc_cell.v, 'terminate_guard')
                        if not isinstance(w, WeakV) or w.target is None: raise Unmodelled('terminate guard not published before tasks run')
                        return w.target
                    def report(e2, what, payload):
                        e2.call_key(set_err, [Ref(the_tg().cell), T.or_panic(what, payload)])
                        s['log'].append(('reported', what, payload.tag if payload is not None else None))
                    s['report'] = report
                    def other_reports(e2):
                        if other != 'none' and not s.get('other_done'):
                            s['other_done'] = True; report(e2, other, Opaque('other_error') if other == 'err' else None)
                    def root_respond(e2):
                        if other_first: other_reports(e2)
                        return ready(ok(Opaque('root_value')) if root_outcome == 'ok' else err(Opaque('root_error')))
                    s['root_respond'] = root_respond
                    def env_terminates(e2, once):
                        # the remaining tasks finish: their reports (if not made yet), then the last terminate guard is dropped
                        if s.get('root_result') is None: return
                        other_reports(e2)
                        e2.call_key(tg_drop, [Ref(the_tg().cell)])
                    s['env_terminates'] = env_terminates
                    if root_outcome == 'panic' and other_first:
                        pass
                    co = ex.call_key(key, [Ref(sc_cell), Opaque('root closure')])
                    cell = Cell(co); r = None
                    try:
                        for _ in range(4):
                            r = coro.poll_value(ex, Ref(cell))
                            if r.variant == 0: break
                    except Panic as p:
                        where = str(p.where or (ex.callstack[-1] if ex.callstack else ''))
                        # the scope's own re-raise is the panic_fmt call in the body of Scope::run (its text is a fmt::Arguments value)
                        own = 'panic_fmt' in str(p.msg) and 'scope::Scope' in where and '::run' in where
                        return ('panic', 'one of the tasks panicked' if own else f'{p.msg} at {where}'), list(s['log']), s['case']
                    if r.variant == 1: return ('pending', None), list(s['log']), s['case']
                    return ('ready', r.fields[0]), list(s['log']), s['case']
                for kind, val, pc, _ in run_paths(ex, body):
                    n += 1
                    if kind == 'panic': viol.setdefault('scope:' + panic_key(val), f'Scope::run harness panics outside the scope: {val[0]} at {val[1]}'); continue
                    (st_, res), log, (root_outcome, other, other_first) = val; rep.nontrivial += 1
                    evs = [e[0] for e in log]
                    case = f'root {root_outcome}, another task reports {other}' + (' first' if other_first else '')
                    if st_ == 'pending': viol.setdefault('scope:stuck', f'Scope::run never returns although every task finished ({case})'); continue
                    if 'terminated-received' not in evs or 'root-joined' not in evs:
                        viol.setdefault('scope:returns-early', f'Scope::run returns (or re-raises a panic) before the root was joined and the terminated signal received ({case}): tasks may still be running')
                    reports = [e for e in log if e[0] == 'reported']
                    any_panic = any(e[1] == 'panic' for e in reports) or root_outcome == 'panic'
                    first_err = None
                    seq = []
                    for e in log:
                        if e[0] == 'reported' and e[1] == 'err': seq.append(e[2])
                        if e[0] == 'root-finished' and root_outcome == 'err': seq.append('root_error')
                    # the root's own report happens inside Task::run when its future resolves, i.e. at 'root-finished'
                    if st_ == 'panic':
                        if 'one of the tasks panicked' not in res: viol.setdefault('scope:foreign-panic', f'Scope::run panics with {res!r} ({case})')
                        elif not any_panic: viol.setdefault('scope:spurious-panic', f'Scope::run re-raises a panic although no task panicked ({case})')
                        continue
                    if any_panic: viol.setdefault('scope:panic-lost', f'a task panicked and Scope::run returns normally ({case})'); continue
                    if not seq:
                        if not (res.variant == 0 and isinstance(res.fields[0], Opaque) and res.fields[0].tag == 'root_value'):
                            viol.setdefault('scope:wrong-ok', f'all tasks succeeded but Scope::run does not return the root task\'s value ({case})')
                    else:
                        first = seq[0]
                        got = res.fields[0].tag if (res.variant == 1 and isinstance(res.fields[0], Opaque)) else None
                        if got != first: viol.setdefault('scope:wrong-error', f'Scope::run returns {"Ok" if res.variant == 0 else got} but the first failure was {first} ({case})')
                    if ('spawn',) in log:
                        pass
    rep.absorb_stats(ex.stats)
    for k, text in viol.items(): rep.violation(Violation(PROP, k, text, None, None, 'Scope::run with the runtime by contract'))
    rep.add(Obligation(name, 'violated' if viol else 'discharged', paths=n, wall_s=round(time.time() - t0, 1)))


def pp_callee(db, rec, call):
    """display name of a Call terminator's callee (None if not a direct call)"""
    try:
        from mirsym import pp
        return pp.op(db, rec['crate'], call['func'], rec.get('consts') or {}).replace('fn ', '', 1)
    except Exception:
        return None


# ------------------------------------------------------------------------------------------------ cooperative schedules
class Rc:
    """shared part of an Arc of one of the scope's guard / state types: strong count + the value"""
    def __init__(self, value, tname): self.cell = Cell(value); self.strong = 1; self.tname = tname


class ArcV(BoxV):
    """one handle of a reference-counted Arc (BoxV so that deref / field access work as for transparent Arcs)"""
    def __init__(self, rc): self.rc = rc; self.cell = rc.cell
    def py_clone(self, ex): self.rc.strong += 1; return ArcV(self.rc)
    def __repr__(self): return f'Arc#{self.rc.strong}<{self.rc.tname}>'


class WeakRc:
    def __init__(self, rc): self.rc = rc
    def py_clone(self, ex): return WeakRc(self.rc)


GUARDED = r'zksync_concurrency::scope::state::(CancelGuard|TerminateGuard|State)<'


def install_refcount(ex, db, st):
    """Arc / Weak of the scope's guard and state types with real reference counting: the Drop impl of the pointee runs (through
    its real drop glue) exactly when the last handle is dropped. Every other Arc stays transparent."""
    n_before = len(ex.user_models)
    def tname(n):
        m = re.search(r'Arc::?<(.*)>::new$', n) or re.search(r'Arc<(.*)>', n)
        return m.group(1) if m else n
    def arc_new(e, n, a):
        if not re.search(GUARDED, n): return NotImplemented
        return ArcV(Rc(a[0], tname(n)))
    ex.model(r'std::sync::Arc::<.*>::new', arc_new)
    def handle(v):
        while isinstance(v, Ref): v = v.get()
        return v
    def arc_clone(e, n, a):
        h = handle(a[0])
        if not isinstance(h, ArcV): return NotImplemented
        h.rc.strong += 1; return ArcV(h.rc)
    ex.model(r'<std::sync::Arc<.*> as std::clone::Clone>::clone', arc_clone)
    def arc_downgrade(e, n, a):
        h = handle(a[0])
        return WeakRc(h.rc) if isinstance(h, ArcV) else NotImplemented
    ex.model(r'std::sync::Arc::<.*>::downgrade', arc_downgrade)
    ex.model(r'std::sync::Weak::<.*>::new', lambda e, n, a: WeakRc(None) if re.search(GUARDED, n) else NotImplemented)
    def weak_upgrade(e, n, a):
        w = handle(a[0])
        if not isinstance(w, WeakRc): return NotImplemented
        if w.rc is None or w.rc.strong == 0: return none()
        w.rc.strong += 1; return some(ArcV(w.rc))
    ex.model(r'std::sync::Weak::<.*>::upgrade', weak_upgrade)

    def release(e, h):
        if h.rc.strong <= 0: raise Unmodelled(f'Arc<{h.rc.tname}> dropped more often than cloned (engine error)')
        h.rc.strong -= 1
        st()['log'].append(('arc-drop', h.rc.tname.split('<')[0].split('::')[-1], h.rc.strong))
        if h.rc.strong == 0:
            ks = [k for k in db.find(r'std::ptr::drop_in_place::<' + re.escape(h.rc.tname) + r'>', kinds=('inst', 'fn')) if db.by_key[k][0] == CONC]
            if 'scope::state::State<' in h.rc.tname and not ks: return       # no Drop impl, fields hold no guards
            if not ks: raise Unmodelled(f'no drop glue for {h.rc.tname} in the dump')
            e.call_key(ks[0], [Ref(h.rc.cell)])
    def arc_drop(e, n, a):
        h = handle(a[0])
        if not isinstance(h, ArcV): return NotImplemented if not re.search(GUARDED, n) else UNIT
        release(e, h); return UNIT
    ex.model(r'<std::sync::Arc<.*> as std::ops::Drop>::drop', arc_drop)
    ex.model(r'std::mem::drop::<std::sync::Arc<.*>>', arc_drop)
    ex.model(r'<std::sync::Weak<.*> as std::ops::Drop>::drop', lambda e, n, a: UNIT)
    mine = ex.user_models[n_before:]; del ex.user_models[n_before:]; ex.user_models[0:0] = mine; ex._um_cache = {}
    ex.drop_types = [r'std::sync::Arc<' + GUARDED, r'scope::task::Task<', r'scope::task::PanicReporter<', r'std::option::Option<zksync_concurrency::scope::task::Task<']


class TaskRec:
    def __init__(self, tid, cell): self.tid = tid; self.cell = cell; self.done = False; self.result = None


def check_schedules(rep, db, T, tier='quick'):
    name = 'Scope::run with spawned main / background tasks under every cooperative schedule (await granularity), real guards with reference counting'
    t0 = time.time()
    ex = Exec(db, loop_bound=12); cur = [None]; install(ex, lambda: cur[0]); install_refcount(ex, db, lambda: cur[0])
    n_before = len(ex.user_models)
    keys = [k for k in db.find(Z + r"Scope::<'_, " + E + r">::run::<.*>", kinds=('inst',)) if db.by_key[k][0] == CONC and not db.by_key[k][4].endswith('{closure#0}')]
    if not keys: raise Unmodelled('no Scope::run instance')
    key = sorted(keys, key=lambda k: (len(db.by_key[k][4]), db.by_key[k][4]))[0]
    co_key = [k for k in db.find(re.escape(db.by_key[key][4]) + r'::\{closure#0\}', kinds=('inst',)) if db.by_key[k][0] == CONC]
    rec = db.body(co_key[0]); root_clo = None
    for bb in rec['body']['blocks']:
        t = bb['terminator']['kind']
        if isinstance(t, dict) and 'Call' in t:
            nm = pp_callee(db, rec, t['Call'])
            if nm and '{closure' in nm and not nm.startswith('zksync_concurrency') and not nm.startswith('std::') and not nm.startswith('<'):
                root_clo = nm; break
    if root_clo is None: raise Unmodelled('root closure call not found in Scope::run')
    def inst_of(meth):
        ks = [k for k in db.find(Z + r"Scope::<'_, " + E + r">::" + meth + r"::<.*>", kinds=('inst',)) if db.by_key[k][0] == CONC and '{closure' not in db.by_key[k][4]]
        if not ks: raise Unmodelled(f'no instance of Scope::{meth}')
        return sorted(ks, key=lambda k: (len(db.by_key[k][4]), db.by_key[k][4]))[0]
    k_spawn = inst_of('spawn'); k_spawn_bg = inst_of('spawn_bg')

    class Ctx2(CtxV):
        def __init__(self, name): super().__init__(name); self.cancelled = False
    def ctx_cancel(e, n, a):
        c = deref_all(a[0]); c.cancelled = True; cur[0]['log'].append(('cancel', c.name)); return UNIT
    ex.model(r'zksync_concurrency::ctx::Ctx::cancel', ctx_cancel)

    def tokio_spawn(e, n, a):
        s = cur[0]; tid = s['next_tid']
        tr = TaskRec(tid, Cell(a[0])); s['tasks'].append(tr)
        def respond(e2):
            if tr.done: return ready(tr.result)
            return pending()
        return EnvFuture(f'JoinHandle({tid})', respond)
    ex.model(r'tokio::task::spawn::<.*>|tokio::spawn::<.*>|tokio::task::spawn::spawn::<.*>', tokio_spawn)
    ex.model(r'std::boxed::Box::<.*>::pin', lambda e, n, a: coro.pin(BoxV(a[0])))
    ex.model(r'std::mem::transmute::<.*>', lambda e, n, a: a[0])
    ex.model(re.escape(root_clo), lambda e, n, a: cur[0]['mk_body'](0, a[-1]))
    mine = ex.user_models[n_before:]; del ex.user_models[n_before:]; ex.user_models[0:0] = mine; ex._um_cache = {}
    with_c = tier != 'quick'
    viol = {}; n = 0

    def body(ex):
        ctx = Ctx2('scope')
        s = dict(log=[], tasks=[], next_tid=0, started=[], finished=[], fail_order=[], spawned={0: 'main'}, inv=[]); cur[0] = s
        # task tree: root(0) spawns A(1, main) and B(2, background); A spawns C(3, main) in the thorough tier
        spec = {0: dict(beh=pick(ex, 'root_behaviour', ('immediate', 'yield')), out=pick(ex, 'root_outcome', ('ok', 'err')), children=[])}
        if pick(ex, 'has_main_child', (True, False)):
            spec[1] = dict(beh=pick(ex, 'a_behaviour', ('immediate', 'yield')), out=pick(ex, 'a_outcome', ('ok', 'err')), children=[], kind='main'); spec[0]['children'].append(1)
            if with_c and pick(ex, 'has_grandchild', (True, False)):
                spec[3] = dict(beh=pick(ex, 'c_behaviour', ('immediate', 'yield')), out=pick(ex, 'c_outcome', ('ok', 'err')), children=[], kind='main'); spec[1]['children'].append(3)
        if pick(ex, 'has_background_child', (True, False)):
            spec[2] = dict(beh=pick(ex, 'b_behaviour', ('immediate', 'yield', 'wait_cancel')), out=pick(ex, 'b_outcome', ('ok', 'err')), children=[], kind='bg'); spec[0]['children'].append(2)
        s['spec'] = spec
        stages = {}

        def mk_body(tid, scope_ref):
            stages[tid] = 0
            def respond(e2):
                sp = spec[tid]
                if stages[tid] == 0:
                    stages[tid] = 1; s['started'].append(tid)
                    for ch in sp['children']:
                        s['next_tid'] = ch; s['spawned'][ch] = spec[ch]['kind']
                        e2.call_key(k_spawn if spec[ch]['kind'] == 'main' else k_spawn_bg, [scope_ref, mk_body(ch, scope_ref)])
                    if sp['beh'] == 'yield': return pending()
                if sp['beh'] == 'wait_cancel' and not ctx.cancelled: return pending()
                stages[tid] = 2; s['finished'].append(tid)
                if sp['out'] == 'err':
                    s['fail_order'].append(tid); return ready(err(Opaque(('error', tid))))
                return ready(ok(Opaque(('value', tid))))
            return EnvFuture(f'body({tid})', respond)
        s['mk_body'] = mk_body
        blocked = lambda tid: spec[tid]['beh'] == 'wait_cancel' and stages.get(tid, 0) == 1 and not ctx.cancelled

        sc_t = T.mk.ty(Z + r'Scope', r'.*' + E + r'.*')
        fs = sc_t['info']['variants'][0]['fields']
        vals = dict(ctx=ctx, cancel_guard=WeakRc(None), terminate_guard=WeakRc(None), _env=Opaque('phantom'))
        if set(f['name'] for f in fs) != set(vals): raise Unmodelled(f'Scope fields changed: {[f["name"] for f in fs]}')
        sc_cell = Cell(Agg('adt', sc_t, 0, [vals[f['name']] for f in fs]))
        s['next_tid'] = 0

        def once_of():
            w = fld(sc_cell.v, 'terminate_guard')
            if not isinstance(w, WeakRc) or w.rc is None: return None
            tg = w.rc.cell.v
            stt = deref_all(tg.fields[0]) if isinstance(tg, Agg) else None
            return fld(stt, 'terminated') if stt is not None else None
        def invariants(where):
            o = once_of()
            unfinished = [t for t in s['spawned'] if t not in s['finished']]
            if s['fail_order'] and not ctx.cancelled: s['inv'].append(('no-cancel-on-failure', where))
            mains = [t for t, k in s['spawned'].items() if k == 'main']
            if all(t in s['finished'] for t in mains) and not ctx.cancelled: s['inv'].append(('no-cancel-after-mains', where))
            if o is not None and o.sent and unfinished: s['inv'].append(('terminated-early', where, tuple(unfinished)))
        co = ex.call_key(key, [Ref(sc_cell), Opaque('root closure')])
        run_cell = Cell(co); result = None; status = 'pending'
        try:
            for step in range(40):
                r = coro.poll_value(ex, Ref(run_cell))
                invariants(f'after polling the scope (step {step})')
                if r.variant == 0: result = r.fields[0]; status = 'ready'; break
                live = [t for t in s['tasks'] if not t.done and not blocked(t.tid)]
                if not live: status = 'stuck'; break
                t = live[ex.choose(len(live), 'schedule')]
                r2 = coro.poll_value(ex, Ref(t.cell))
                if r2.variant == 0:
                    t.done = True; t.result = ok(r2.fields[0])
                invariants(f'after polling task {t.tid} (step {step})')
        except Panic as p:
            where = str(p.where or (ex.callstack[-1] if ex.callstack else ''))
            status = 'panic'; result = f'{p.msg} at {where}'
        unfinished = [t for t in s['spawned'] if t not in s['finished']]
        return status, result, list(s['fail_order']), unfinished, list(s['inv']), {k: (v['beh'], v['out']) for k, v in spec.items()}
    for kind, val, pc, _ in run_paths(ex, body, budget=1500):
        n += 1
        if kind == 'panic': viol.setdefault('sched:' + panic_key(val), f'harness panic outside the scope: {val[0]} at {val[1]}'); continue
        status, result, fail_order, unfinished, inv, spec = val; rep.nontrivial += 1
        case = f'tasks {spec}'
        for i in inv:
            text = {'no-cancel-on-failure': 'a task failed and the scope\'s context is not cancelled at once', 'no-cancel-after-mains': 'all main tasks completed and the scope\'s context is not cancelled',
                    'terminated-early': 'the terminated signal is sent while spawned tasks are still running'}[i[0]]
            viol.setdefault('sched:' + i[0], f'{text} ({i[1]}; {case})')
        if status == 'stuck': viol.setdefault('sched:stuck', f'the scope never returns although no task can run any more (a task waits for a cancellation / termination that is never delivered) ({case})'); continue
        if status == 'pending': viol.setdefault('sched:step-bound', f'step bound reached ({case})'); continue
        if status == 'panic': viol.setdefault('sched:panic', f'Scope::run panics although no task panicked: {result} ({case})'); continue
        if unfinished: viol.setdefault('sched:returns-early', f'scope::run! returns while tasks {unfinished} have not finished ({case})')
        if not fail_order:
            if not (result.variant == 0 and isinstance(result.fields[0], Opaque) and result.fields[0].tag == ('value', 0)):
                viol.setdefault('sched:wrong-ok', f'all tasks succeeded but the scope does not return the root task\'s value ({case})')
        else:
            got = result.fields[0].tag if (result.variant == 1 and isinstance(result.fields[0], Opaque)) else None
            if got != ('error', fail_order[0]):
                viol.setdefault('sched:wrong-error', f'the scope returns {"Ok" if result.variant == 0 else got} but the first task to fail was task {fail_order[0]} (failures in order {fail_order}) ({case})')
    rep.absorb_stats(ex.stats)
    for k, text in viol.items(): rep.violation(Violation(PROP, k, text, None, None, 'Scope::run with tasks under cooperative schedules'))
    rep.add(Obligation(name, 'violated' if viol else 'discharged', paths=n, wall_s=round(time.time() - t0, 1)))


# ------------------------------------------------------------------------------------------------ child contexts
def check_child_ctx(rep, db, T):
    """`Ctx::child_with_clock` and the watcher task it spawns (ctx/mod.rs:131-156), the mechanism behind "cancellation reaches
    every descendant context" and "the context is cancelled when its deadline passes". The real constructor and the real
    watcher coroutine (including the expansion of `tokio::select!`) are executed; the clock's sleep, the two cancellation
    signals, tokio's spawn and the select's random start index are answered by contract. For every combination of parent
    deadline / requested deadline (infinite or finite, symbolic instants), current instant, parent cancelled or not:
     - the child's reported deadline is min(parent deadline, requested deadline);
     - the child is cancelled iff the parent is cancelled or the effective deadline has passed (and a watcher exists);
     - otherwise the watcher stays pending and sends nothing."""
    name = 'Ctx::child: the child is cancelled when the parent is cancelled or the effective (minimum) deadline passes, and not otherwise'
    t0 = time.time()
    CC = 'zksync_concurrency'
    ex = Exec(db, loop_bound=12); cur = [None]
    env.install(ex); coro.install_futures(ex)
    mk = Mk(db, CC)
    n_before = len(ex.user_models)
    log = lambda: cur[0]['log']
    try:
        key = db.find_one(r'zksync_concurrency::ctx::Ctx::child_with_clock', kinds=('fn', 'inst'))
        dl_t = mk.ty(r'zksync_concurrency::time::Deadline')
        inner_t = mk.ty(r'zksync_concurrency::ctx::Inner')
        ctx_t = mk.ty(r'zksync_concurrency::ctx::Ctx')
    except (KeyError, Unmodelled) as u:
        rep.add(Obligation(name, 'inconclusive', str(u)[:400])); return

    def deadline(kind, instant):
        return T.variant(dl_t, 'Infinite') if kind == 'inf' else T.variant(dl_t, 'Finite', instant)
    def dl_parts(d):
        d = deref_all(d)
        return (variant_name(d), d.fields[0] if d.fields else None)

    def dl_min(e, n, a):
        (ka, ia), (kb, ib) = dl_parts(a[0]), dl_parts(a[1])
        if ka == 'Infinite': return a[1]
        if kb == 'Infinite': return a[0]
        return a[0] if e.branch(ia.e <= ib.e) else a[1]
    ex.model(r'std::cmp::min::<zksync_concurrency::time::Deadline>|core::cmp::min::<zksync_concurrency::time::Deadline>|<zksync_concurrency::time::Deadline as std::cmp::Ord>::min', dl_min)
    ex.model(r'zksync_concurrency::signal::Once::new', lambda e, n, a: OnceV())
    def once_send(e, n, a):
        o = deref_all(a[0]); o.sent = True; log().append(('send', getattr(o, 'label', '?'))); return UNIT
    ex.model(r'zksync_concurrency::signal::Once::send', once_send)
    def once_recv(e, n, a):
        o = deref_all(a[0])
        return EnvFuture('Once::cancel_safe_recv', lambda e2: ready(UNIT) if o.sent else pending())
    ex.model(r'zksync_concurrency::signal::Once::cancel_safe_recv', once_recv)

    def sleep_until(e, n, a):
        d = a[1]
        def respond(e2):
            k, inst = dl_parts(d)
            log().append(('sleep-polled', k))
            if k == 'Infinite': return pending()
            return ready(UNIT) if e2.branch(inst.e <= cur[0]['now'].e) else pending()
        return EnvFuture('Clock::sleep_until', respond)
    ex.model(r'zksync_concurrency::ctx::(clock::)?Clock::sleep_until', sleep_until)
    ex.model(r'<zksync_concurrency::ctx::(clock::)?Clock as std::clone::Clone>::clone', lambda e, n, a: Opaque('clock'))
    ex.model(r'zksync_concurrency::ctx::rng::Provider::split', lambda e, n, a: Opaque('rng'))
    ex.model(r'tokio::macros::support::thread_rng_n', lambda e, n, a: Num(e.choose(3, 'select_start'), 32))
    ex.model(r'tokio::(task::coop|macros::support|runtime::coop|coop)::poll_budget_available', lambda e, n, a: ready(UNIT))

    def tokio_spawn(e, n, a):
        cur[0]['watcher'] = Cell(a[0]); log().append(('spawn',)); return Opaque('join handle')
    ex.model(r'tokio::task::spawn::<.*>|tokio::spawn::<.*>|tokio::task::spawn::spawn::<.*>', tokio_spawn)
    ex.model(r'<tokio::task::JoinHandle<.*> as std::ops::Drop>::drop|<tokio::runtime::task::JoinHandle<.*> as std::ops::Drop>::drop', lambda e, n, a: UNIT)

    def poll_adt(e, f, fut_ref):
        nm = f.name or ''
        if 'PollFn' in nm or 'poll_fn' in nm:
            return e.call_closure(f.fields[0], [Ref(Cell(Opaque('task_context')))])
        return NotImplemented
    ex.poll_adt = poll_adt
    mine = ex.user_models[n_before:]; del ex.user_models[n_before:]; ex.user_models[0:0] = mine; ex._um_cache = {}
    viol = {}; n = 0; covered = set()

    def body(ex):
        s = dict(log=[], watcher=None); cur[0] = s
        now = ex.fresh('now', 64); s['now'] = now
        pk = pick(ex, 'parent_deadline', ('inf', 'fin')); ck = pick(ex, 'requested_deadline', ('inf', 'fin'))
        tp = ex.fresh('parent_deadline_at', 64); tc = ex.fresh('requested_deadline_at', 64)
        parent_cancelled = pick(ex, 'parent_cancelled', (False, True))
        p_once = OnceV(); p_once.label = 'parent'; p_once.sent = parent_cancelled
        fs = inner_t['info']['variants'][0]['fields']
        vals = dict(clock=Opaque('clock'), rng_provider=Opaque('rng'), canceled=BoxV(p_once), deadline=deadline(pk, tp), _parent=none())
        if set(f['name'] for f in fs) != set(vals): raise Unmodelled(f'ctx Inner fields changed: {[f["name"] for f in fs]}')
        inner = Agg('adt', inner_t, 0, [vals[f['name']] for f in fs])
        parent = Agg('adt', ctx_t, 0, [BoxV(inner)])
        child = ex.call_key(key, [Ref(Cell(parent)), Opaque('clock'), deadline(ck, tc)])
        cinner = deref_all(child.fields[0])
        c_once = deref_all(fld(cinner, 'canceled')); c_once.label = 'child'
        reported = dl_parts(fld(cinner, 'deadline'))
        r = None
        if s['watcher'] is not None:
            r = coro.poll_value(ex, Ref(s['watcher']))
        return pk, ck, tp, tc, now, parent_cancelled, reported, c_once.sent, (None if r is None else r.variant), list(s['log'])
    try:
        res = explore(ex, body, budget_s=300)
    except (Unmodelled, BoundExceeded, KeyError) as u:
        rep.absorb_stats(ex.stats); rep.add(Obligation(name, 'inconclusive', f'{type(u).__name__}: {u}'[:900])); return
    rep.absorb_stats(ex.stats)

    def decide(pc, k, text, cond):
        if k in viol: return
        st, m = solve(pc, z3.Not(cond))
        if st == 'sat': viol[k] = text + ' | ' + ', '.join(f'{d.name()}={m[d]}' for d in m.decls() if d.arity() == 0 and '!' not in d.name())[:300]
        elif st != 'unsat': raise Unmodelled('solver unknown')
    for kind, val, pc, _ in res:
        n += 1
        if kind == 'panic':
            st, m = solve(pc, None)
            if st == 'sat': viol.setdefault('ctx:' + panic_key(val), f'Ctx::child / its watcher panics: {val[0]} at {val[1]}')
            continue
        pk, ck, tp, tc, now, pcan, reported, child_sent, rv, lg = val; rep.nontrivial += 1
        # effective deadline
        if pk == 'inf' and ck == 'inf': eff = None
        elif pk == 'inf': eff = tc.e
        elif ck == 'inf': eff = tp.e
        else: eff = z3.If(tp.e <= tc.e, tp.e, tc.e)
        if eff is None:
            decide(pc, 'ctx:deadline-not-min', 'the child context reports a finite deadline although neither the parent nor the request has one', z3.BoolVal(reported[0] == 'Infinite'))
        else:
            decide(pc, 'ctx:deadline-not-min', 'the deadline of the child context is not the minimum of the parent\'s deadline and the requested one', z3.And(z3.BoolVal(reported[0] == 'Finite'), (reported[1].e == eff) if reported[1] is not None else z3.BoolVal(False)))
        if ('spawn',) not in lg:
            decide(pc, 'ctx:no-watcher', 'no watcher task is spawned for the child context: neither the parent\'s cancellation nor the deadline would ever reach it', z3.BoolVal(False)); continue
        due = z3.BoolVal(pcan) if eff is None else z3.Or(z3.BoolVal(pcan), eff <= now.e)
        covered.add((pk, ck, pcan))
        decide(pc, 'ctx:cancellation-lost', 'the parent is cancelled or the effective deadline has passed, but the watcher does not cancel the child context (cancellation does not reach a descendant)', z3.Implies(due, z3.BoolVal(bool(child_sent))))
        decide(pc, 'ctx:spurious-cancel', 'the child context is cancelled although the parent is active and no deadline has passed', z3.Implies(z3.Not(due), z3.BoolVal(not child_sent)))
    for k, text in viol.items(): rep.violation(Violation(PROP, k, text, None, None, 'Ctx::child_with_clock and its watcher'))
    if len(covered) < 8 and not viol:
        rep.add(Obligation(name, 'inconclusive', f'only {len(covered)} of the 8 deadline / cancellation configurations were reached')); return
    rep.add(Obligation(name, 'violated' if viol else 'discharged', paths=n, wall_s=round(time.time() - t0, 1)))
