"""Two-step sequences of replica handlers (C05 / C03 / C02 / C06 obligations of the SECOND step).

The one-step explorations start from a replica state written down field by field from the reachable-state invariant. Two kinds
of change escape them by construction: (i) state that one handler leaves behind and ANOTHER handler relies on (a cached,
derived value that is refreshed in some places only), and (ii) a change of the state's representation (a new field), which
makes the hand-written pre-state impossible to build. Here the pre-state of the step under test is PRODUCED BY THE REAL CODE:

    durable snapshot (symbolic, satisfying the invariant)  --StateMachine::start-->  state 0
    state 0  --handler A on an accepted, well-signed input (only paths that return Ok with a cooperating engine)-->  state 1
    state 1  --handler B on an arbitrary input-->  state 2          <- every step obligation of replica_checks.check_path

so every field of the state machine — known to this harness or not — has the value the implementation itself gave it. The
obligations are those of the one-step check (they are statements about one step from a reachable state; state 1 is reachable
by construction). There is no executable replay for a two-message history yet: violations carry the solver witness.
Bounds: N = 2, no vote caches in state 0 (a restart empties them), A restricted to its accepting paths and to plain
justifications (a commit certificate, or a timeout certificate whose votes report nothing); state 0 holds a commit certificate and no
timeout certificate; the second input is well signed by a validator (refused inputs are the one-step check's subject). Quick tier:
state 0 in phase Prepare without a high vote, 4 (A, B) pairs; thorough tier: phase Prepare / Timeout, with / without a high vote, 14 pairs."""
import time
import z3
from mirsym.core import (Exec, explore, solve, Num, Agg, Ref, Cell, Opaque, Panic, Unmodelled, BoundExceeded, Infeasible, num_cmp, to_z3_bool, UNIT)
from mirsym import models as M, symgen
from mirsym.models import some, none, ok, err, ready, BoxV, VecV, MapV
from mirsym.mk import fld
from props import replica as R, coro, replica_checks as RC
from props.coro import EnvFuture
from props.c11 import panic_key
import framework as F

_DB = [None]
# (A, B): first step (accepting paths only), step under test
PAIRS_QUICK = [('on_proposal', 'on_new_view'), ('on_proposal', 'start_timeout'), ('on_new_view', 'on_proposal'), ('start_timeout', 'on_proposal')]
PAIRS_THOROUGH = PAIRS_QUICK + [('on_proposal', 'on_proposal'), ('on_proposal', 'on_timeout'), ('on_proposal', 'on_commit'), ('on_new_view', 'on_new_view'), ('on_new_view', 'start_timeout'),
                                ('on_new_view', 'on_timeout'), ('on_new_view', 'on_commit'), ('start_timeout', 'on_new_view'), ('start_timeout', 'start_timeout'), ('start_timeout', 'on_timeout')]


def set_field(agg, name, value):
    fs = agg.ty['info']['variants'][agg.variant]['fields']
    for i, f in enumerate(fs):
        if f['name'] == name:
            agg.fields[i] = value; return True
    return False


def run_pair(arg):
    A, B, budget, wanted, wide = arg
    wanted = set(wanted)
    db = _DB[0]
    ex = Exec(db, loop_bound=60); ex.hash_order_insertion = True
    holder = [None]
    R.install(ex, db, lambda: holder[0])
    backup_box = [None]

    def get_state(e, n, a):
        return EnvFuture('get_state', lambda e2: ready(ok(backup_box[0])))
    ex.model_path('zksync_consensus_engine::manager::EngineManager::get_state', get_state)
    start_key = db.find_one(R.SM + r'StateMachine::start', kinds=('fn',))
    N = 2
    t0 = time.time()

    def body(ex):
        w = R.World(ex, db, N); holder[0] = w; w.light = False
        mk = w.mkr
        # ---- durable snapshot satisfying the reachable-state invariant (same epoch); phase Prepare or Timeout, optional high vote
        view = w.num('st_view')
        ph = (0, 2)[ex.choose(2, 'st_phase')] if wide else 0
        st = dict(view=view, phase=ph, hv=None, cqc=None, tqc=None)
        hv = none(); cqc = none(); tqc = none()
        if wide and ex.choose(2, 'st_hv') == 0:
            hvv, st['hv'] = w.replica_commit('st_hv'); hv = some(hvv); ex.assume(st['hv']['view'].e <= view.e)
        if True:
            c, st['cqc'] = w.commit_qc('st_cqc', own=True); cqc = some(c)
        if False:
            t, st['tqc'] = w.timeout_qc('st_tqc', own=True, with_votes=False); tqc = some(t); ex.assume(st['tqc']['view'].e < view.e)
        just = [view.e == 0]
        if st['tqc'] is not None: just.append(st['tqc']['view'].e + 1 == view.e)
        if st['cqc'] is not None: just.append(st['cqc']['view'].e + 1 >= view.e)
        ex.assume(z3.Or(*just))
        backup = mk.adt(R.V + r'v2::state::ChonkyV2State', epoch=mk.tuple_struct(R.V + r'consensus::EpochNumber', w.e0), view_number=mk.tuple_struct(R.V + r'consensus::ViewNumber', view),
                        phase=mk.adt(R.V + r'v2::consensus::Phase', R.PHASES[ph]), high_vote=hv, high_commit_qc=cqc, high_timeout_qc=tqc, proposals=VecV([]))
        backup_box[0] = mk.adt(R.V + r'state::ReplicaState', 'V2', _0=backup)
        w.proposer_watch = M.WatchV(none())
        r0 = coro.run_async(ex, start_key, [Ref(Cell(Opaque('ctx'))), BoxV(w.config()), Opaque('outbound'), Opaque('inbound'), w.proposer_watch])
        if r0 == 'pending' or r0.variant != 0: raise Infeasible()
        w.sm_cell = Cell(r0.fields[0]); w.pre = st; w.has_cache = False
        # ---- step A: an input that is accepted (well signed, by a validator), engine cooperating
        w.log = []
        w.pre_snapshot = w.snapshot()
        argsA, infoA = RC.build_input(ex, w, A, N, pfx='in')
        if 'author' in infoA:
            if infoA['author'] >= N: raise Infeasible()
            ex.assume(infoA['sig_ok'])
        if infoA.get('just_kind') == 'Timeout' and (infoA['just'].get('hv') is not None or infoA['just'].get('hq') is not None):
            raise Infeasible()          # first step: plain justifications only (bound of the sequence exploration)
        rA = R.run_handler(ex, db, w, A, argsA)
        evsA = [e[0] for e in w.log]
        if rA == 'pending' or rA.variant != 0 or 'persist_failed' in evsA or 'env_fail' in evsA: raise Infeasible()
        # ---- step B from the state step A produced
        mid = w.snapshot()
        pre2 = dict(view=mid['view'], phase=mid['phase'], hv=None, cqc=None, tqc=None)
        w.pre = pre2; w.pre_snapshot = mid; w.log = []
        set_field(w.sm_cell.v, 'view_timeout', Opaque('deadline0'))
        argsB, infoB = RC.build_input(ex, w, B, N, pfx='in2')
        if 'author' in infoB:
            # the second input is well signed by a validator (refused inputs are the one-step check's subject)
            if infoB['author'] >= N: raise Infeasible()
            ex.assume(infoB['sig_ok'])
        rB = R.run_handler(ex, db, w, B, argsB)
        obs = RC.check_path(ex, w, B, rB, list(w.log), pre2, infoB)
        return rB, obs, evsA, [e[0] for e in w.log]
    out = dict(pair=f'{A}>{B}', viol=[], status='discharged')
    try:
        res = explore(ex, body, max_paths=400000, budget_s=budget)
    except BoundExceeded as b:
        out.update(status='inconclusive', detail=str(b)[:400], stats=F.stats_dict(ex.stats)); return out
    except (Unmodelled, KeyError) as u:
        out.update(status='inconclusive', detail=f'{type(u).__name__}: {u}'[:600], stats=F.stats_dict(ex.stats)); return out
    seen = set(); nontriv = 0
    for kind, val, pc, log in res:
        if kind == 'panic':
            st_, m = solve(pc, None)
            if st_ == 'sat':
                k = panic_key(val)
                if k not in seen and 'C10' in wanted:
                    seen.add(k); out['viol'].append(dict(prop='C10', key=f'seq[{A}>{B}]:{k}', text=f'{B} after {A} panics: {val[0]} at {val[1]}', witness=RC.witness(m)))
            continue
        rB, obs, evsA, evsB = val
        nontriv += 1
        for prop, key, text, cond in obs:
            k2 = f'seq[{A}>{B}]:{key}'
            if k2 in seen or prop not in wanted: continue
            if z3.is_true(z3.simplify(cond)): continue
            st_, m = solve(pc, z3.Not(cond))
            if st_ == 'sat':
                seen.add(k2)
                out['viol'].append(dict(prop=prop, key=k2, text=f'{text} (second step of the sequence restart, accepted {A}, then {B}; N={N}; events of the first step {evsA}, of the second {evsB})', witness=RC.witness(m)))
            elif st_ != 'unsat':
                out['status'] = 'inconclusive'; out['detail'] = f'solver: {m}'
    if out['viol']: out['status'] = 'violated'
    out.update(paths=len(res), nontrivial=nontriv, stats=F.stats_dict(ex.stats), wall_s=round(time.time() - t0, 1))
    return out


def run(rep, db, tier, props):
    _DB[0] = db; RC._DB[0] = db
    pairs = PAIRS_QUICK if tier == 'quick' else PAIRS_THOROUGH
    budget = 1200 if tier == 'quick' else 5000
    outs = F.parallel_map(run_pair, [(a, b, budget, tuple(props), tier != 'quick') for a, b in pairs], workers=min(len(pairs), 12))
    for o in outs:
        if 'stats' in o: F.absorb_stats_dict(rep, o['stats'])
        name = f'two-step sequence restart -> accepted {o["pair"].split(">")[0]} -> {o["pair"].split(">")[1]} (state produced by the real code)'
        if o['status'] == 'inconclusive':
            rep.add(F.Obligation(name, 'inconclusive', o.get('detail', ''))); continue
        if not o.get('nontrivial'):
            rep.add(F.Obligation(name, 'inconclusive', 'no path reaches the second step (vacuous)')); continue
        rep.nontrivial += o.get('nontrivial', 0)
        for v in o['viol']:
            if v['prop'] not in props: continue
            if ':state-invariant-broken' in v['key']:
                rep.add(F.Obligation('inductiveness of the assumed pre-state invariant (' + v['key'] + ')', 'inconclusive', v['text'] + ' | witness: ' + v['witness'])); continue
            rep.violation(F.Violation(rep.prop, v['key'], v['text'] + ' | no executable replay for two-message histories: solver witness only | witness: ' + v['witness'], None, None))
        rep.add(F.Obligation(name, 'violated' if [v for v in o['viol'] if v['prop'] in props and ':state-invariant-broken' not in v['key']] else 'discharged', paths=o.get('paths'), wall_s=o.get('wall_s')))
        if len(rep.samples) < 10: rep.samples.append(f'sequence {o["pair"]}: {o.get("paths")} complete paths')
    return outs
