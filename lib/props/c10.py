"""C10 — no input from the network can crash a node (engines M + K).

 (a) decoder totality sweep (M): every `ProtoFmt::read` body of the workspace is executed from its real MIR on a fully
     symbolic proto message (scalars symbolic, Option both ways, repeated fields of length 0..2, oneof variants all,
     byte strings of symbolic length); any reachable panic / failed assert / unreachable!() is a violation.
     Key, signature and hash byte decoding (`ByteFmt::decode`) is a nondeterministic Ok/Err; the converters of
     std_conv.rs (timestamps, durations, socket addresses, bit vectors, rates) are decided bit-precisely by Kani.
 (b) well-signed absurd messages (M): view/epoch extraction used before any verification
     (ConsensusMsg::view_number, LeaderProposal/ReplicaNewView::view, ProposalJustification::view,
     bft::inbound_selection_function, inbound_filter_predicate) on messages with arbitrary u64 numbers.
 (c) frame / header handling (K + M): see c10_frames (mux header codec, frame dispatch, length-prefixed frames).
"""
import re, time
import z3
from mirsym.core import (Exec, explore, solve, Num, Agg, Ref, Cell, Opaque, Panic, Unmodelled, BoundExceeded, num_cmp, UNIT)
from mirsym import env, models as M, symgen
from mirsym.models import some, none, ok, err
from mirsym.mk import Mk, fld
from framework import Obligation, Violation
import framework as F
import replay
from props.c11 import panic_key

PROP = 'C10'
READ_RX = r'(<.* as zksync_protobuf::(proto_fmt::)?ProtoFmt>::read|zksync_protobuf::std_conv::<impl zksync_protobuf::(proto_fmt::)?ProtoFmt for .*>::read|<.* as zksync_protobuf::(repr::)?ProtoRepr>::read)'
_KT = r'(bit_vec::BitVec|std::net::SocketAddr|time::duration::Duration|time::Duration|zksync_concurrency::time::Utc|zksync_concurrency::limiter::Rate)'
KANI_DECIDED = rf'zksync_protobuf::std_conv::<impl zksync_protobuf::(proto_fmt::)?ProtoFmt for {_KT}>::read|<{_KT} as zksync_protobuf::(proto_fmt::)?ProtoFmt>::read'


def install(ex):
    env.install(ex); env.install_ideal_crypto(ex)
    cnt = [0]

    def nondet_decode(e, n, a):
        cnt[0] += 1
        if e.choose(2, 'decode') == 0:
            return ok(Opaque(('decoded', cnt[0])))
        return err(Opaque('anyhow::Error'))
    ex.model(r'<.* as zksync_consensus_crypto::ByteFmt>::decode', nondet_decode)
    ex.model(KANI_DECIDED, nondet_decode)
    ex.model(r'zksync_consensus_roles::validator::messages::genesis::GenesisRaw::(with_hash|hash)', lambda e, n, a: Opaque('genesis+hash') if n.endswith('with_hash') else Opaque('genesis_hash'))
    ex.model(r'zksync_protobuf::(proto_fmt::)?(canonical|encode|canonical_raw)(::<.*>)?', lambda e, n, a: symgen.BytesV(e.fresh('enc_len')))
    symgen.install_bytes(ex)
    ex.model(r'core::str::<impl str>::parse::<.*>|<.* as std::str::FromStr>::from_str', nondet_decode)
    ex.model(r'<std::string::String as std::clone::Clone>::clone', lambda e, n, a: a[0].get())


_DB = [None]


def sweep_one(arg):
    """worker: one decoder; returns picklable dict"""
    name, tier = arg
    db = _DB[0]
    budget = 40 if tier == 'quick' else 240
    key = db.find_one(re.escape(name), kinds=('fn',))
    rec = db.body(key)
    crate = rec['crate']
    arg_ts = [db.ty(crate, rec['body']['locals'][1]['ty'])]
    t0 = time.time()
    res = None; last = ''
    for depth, mlen in ((3, 2), (2, 1), (1, 1)):
        ex = Exec(db, loop_bound=40)
        install(ex)

        def body(ex, depth=depth, mlen=mlen):
            g = symgen.SymGen(ex, db, crate, max_depth=depth, max_len=mlen)
            vs = [g.of(t) for t in arg_ts]
            ex.log.append(('shape', list(g.shape)))
            return ex.call_key(key, vs)
        try:
            res = explore(ex, body, max_paths=20000, budget_s=budget)
            break
        except BoundExceeded as b:
            res = None; last = str(b); continue
        except Unmodelled as u:
            res = None; last = str(u); break
    out = dict(name=name, stats=F.stats_dict(ex.stats), depth=depth, mlen=mlen, wall_s=round(time.time() - t0, 1))
    if res is None:
        out.update(status='inconclusive', detail=last[:500]); return out
    viol = []
    for kind, val, pc, log in res:
        if kind != 'panic': continue
        st, m = solve(pc, None)
        if st != 'sat': continue
        k = f'decoder-panic:{type_of_read(name)}:{val[0].split(":")[0][:50]}'
        if any(v['key'] == k for v in viol): continue
        shape = next((x[1] for x in log if x[0] == 'shape'), [])
        wit = ', '.join(f'{d.name()}={m[d]}' for d in m.decls() if d.arity() == 0 and d.name().startswith('in_'))[:300]
        viol.append(dict(key=k, text=f'{name} panics on a decodable input: {val[0]} at {val[1]} | shape {shape} | {wit}', replay_src=replay_decoder(name, rec, db, m, shape)))
    out.update(status='violated' if viol else 'discharged', paths=len(res), viol=viol,
               nontrivial=sum(1 for kind, val, pc, log in res if kind == 'ok' and isinstance(val, Agg) and val.variant == 0))
    # ---- second pass, compositional: the decoders of NESTED messages are answered by contract (Ok(arbitrary value of the
    # decoded type) or Err; each of them is swept on its own), so the decoder's own logic — loops over repeated fields,
    # parallel lists, indexing, map insertion — is reached with nested messages PRESENT. Depth-limited generation alone
    # makes deep nested messages undecodable (missing fields), and then code behind a successful nested decode is never run.
    try:
        out2 = compositional_pass(db, name, key, rec, crate, arg_ts, budget)
        out['paths'] += out2['paths']; out['nontrivial'] = max(out['nontrivial'], out2['nontrivial']); out['compositional'] = dict(paths=out2['paths'], accepted=out2['nontrivial'])
        for k2, v2 in out2['stats'].items():
            if isinstance(v2, (int, float)): out['stats'][k2] = out['stats'].get(k2, 0) + v2
        for v in out2['viol']:
            if not any(x['key'] == v['key'] for x in out['viol']): out['viol'].append(v)
        if out['viol']: out['status'] = 'violated'
    except (Unmodelled, BoundExceeded, KeyError) as u:
        out['compositional'] = dict(skipped=f'{type(u).__name__}: {u}'[:300])
    return out


def compositional_pass(db, name, key, rec, crate, arg_ts, budget):
    from props import c09
    ex = Exec(db, loop_bound=40)
    install(ex)
    n_before = len(ex.user_models)
    cnt = [0]

    def nested_read(e, n, a):
        k2 = None
        try: k2 = e.db.find_one(re.escape(n), kinds=('fn', 'inst'))
        except KeyError: return NotImplemented
        r2 = e.db.body(k2)
        rt = e.db.ty(r2['crate'], r2['body']['locals'][0]['ty'])
        targs = [x['ty'] for x in rt['info'].get('args', []) if isinstance(x, dict) and 'ty' in x]
        if not targs: return NotImplemented
        cnt[0] += 1
        if e.choose(2, 'nested_decode') == 1: return err(Opaque('anyhow::Error'))
        g = c09.Gen(e, e.db, r2['crate'], max_depth=0, max_len=1, prefix=f'nested{cnt[0]}')
        try:
            return ok(g.of_type(targs[0], 0, f'nested{cnt[0]}'))
        except Unmodelled:
            return ok(Opaque(('decoded', cnt[0])))
    ex.model(READ_RX, nested_read)
    mine = ex.user_models[n_before:]; del ex.user_models[n_before:]; ex.user_models[0:0] = mine; ex._um_cache = {}

    def body(ex):
        g = symgen.SymGen(ex, db, crate, max_depth=1, max_len=2)      # nested messages present but shallow: their decoders are answered by contract
        vs = [g.of(t) for t in arg_ts]
        ex.log.append(('shape', list(g.shape)))
        return ex.call_key(key, vs)
    res = explore(ex, body, max_paths=20000, budget_s=budget)
    viol = []
    for kind, val, pc, log in res:
        if kind != 'panic': continue
        st, m = solve(pc, None)
        if st != 'sat': continue
        k = f'decoder-panic:{type_of_read(name)}:{val[0].split(":")[0][:50]}'
        if any(v['key'] == k for v in viol): continue
        shape = next((x[1] for x in log if x[0] == 'shape'), [])
        lens = [x for x in shape if '.len=' in x][:8]
        viol.append(dict(key=k, text=f'{name} panics on a decodable input (nested messages decoded by contract): {val[0]} at {val[1]} | repeated fields {lens}', replay_src=None))
    return dict(paths=len(res), viol=viol, stats=F.stats_dict(ex.stats),
                nontrivial=sum(1 for kind, val, pc, log in res if kind == 'ok' and isinstance(val, Agg) and val.variant == 0))


def sweep(rep, db, tier):
    keys = db.find(READ_RX, kinds=('fn',))
    names = [n for n in sorted({db.by_key[k][4] for k in keys}) if '{closure' not in n and not re.fullmatch(KANI_DECIDED, n)]
    _DB[0] = db
    outs = F.parallel_map(sweep_one, [(n, tier) for n in names])
    total_paths = 0
    for o in outs:
        F.absorb_stats_dict(rep, o['stats'])
        short = o['name'].replace('zksync_consensus_', '').replace('zksync_protobuf::', 'pb::')
        if o['status'] == 'inconclusive':
            rep.add(Obligation(f'decoder {short}', 'inconclusive', o['detail'])); continue
        total_paths += o['paths']; rep.nontrivial += o['nontrivial']
        for v in o['viol']:
            path = None; repro = None
            if v['replay_src']:
                rr = replay.run_replay(f'c10_{len(rep.violations) + len(rep.known_hits)}', v['replay_src']); rep.replayed += 1
                path = rr['path']; repro = rr['reproduced']
            rep.violation(Violation(PROP, v['key'], v['text'], path, repro is True if v['replay_src'] else None))
        rep.add(Obligation(f'decoder {short}', o['status'], paths=o['paths'], depth=o['depth'], wall_s=o['wall_s'], accepting_paths=o.get('nontrivial'), compositional=o.get('compositional')))
        if len(rep.samples) < 6: rep.samples.append(f'{short}: {o["paths"]} paths over a symbolic proto message (depth {o["depth"]}, repeated <= {o["mlen"]})')
    return total_paths


def type_of_read(name):
    m = re.search(r'<(.*) as zksync_protobuf', name) or re.search(r'ProtoFmt for (.*)>::read', name)
    return (m.group(1) if m else name).split('::')[-1]


REPLAY_TEMPLATES = {
    'GenesisRaw': '''// generated by /verif/lib/props/c10.py — replay of a decoder panic (property C10)
use zksync_protobuf::ProtoFmt;
use zksync_consensus_roles::{proto::validator as proto, validator};
#[test]
fn replay() {
    let p = proto::Genesis { chain_id: Some(1), fork_number: Some(0), first_block: Some(0), protocol_version: Some(%(protocol_version)s), validators_schedule: None };
    // decoding must return a value or an error, never panic
    let r = std::panic::catch_unwind(|| <validator::GenesisRaw as ProtoFmt>::read(&p).is_ok());
    assert!(r.is_ok(), "GenesisRaw::read panicked");
}
''',
}


def replay_decoder(name, rec, db, m, shape):
    t = type_of_read(name)
    if t in ('GenesisRaw', 'Genesis'):
        pv = None
        for d in m.decls():
            if 'protocol_version' in d.name(): pv = m[d].as_long()
        if pv is None: return None
        return REPLAY_TEMPLATES['GenesisRaw'] % dict(protocol_version=pv)
    return None


VIEW_FUNCS = [
    (r'zksync_consensus_roles::validator::messages::consensus::ConsensusMsg::view_number', 'ConsensusMsg'),
]


def absurd_messages(rep, db, tier):
    """(b) view extraction on arbitrary (validly signed) messages: uses the generic generator on the message types"""
    CR = 'zksync_consensus_roles'
    targets = [
        (r'.*::consensus::ConsensusMsg::view_number', CR),
        (r'.*::v2::leader_proposal::LeaderProposal::view', CR),
        (r'.*::v2::replica_new_view::ReplicaNewView::view', CR),
        (r'.*::v2::leader_proposal::ProposalJustification::view', CR),
        (r'.*::v2::consensus::ChonkyMsg::view_number', CR),
        (r'.*::consensus::ConsensusMsg::label', CR),
        # the block range a gossip peer announces (push_block_store_state) is used unauthenticated: verify(), then contains() in the fetch queue
        (r'zksync_consensus_engine::block_store::BlockStoreState::verify', 'zksync_consensus_engine'),
        (r'zksync_consensus_engine::block_store::BlockStoreState::contains', 'zksync_consensus_engine'),
        (r'zksync_consensus_engine::block_store::Last::number', 'zksync_consensus_engine'),
    ]
    for pat, crate in targets:
        try:
            key = db.find_one(pat, kinds=('fn',))
        except KeyError as e_:
            rep.add(Obligation(f'absurd {pat}', 'inconclusive', str(e_))); continue
        rec = db.body(key)
        arg_ts = [db.ty(rec['crate'], rec['body']['locals'][i]['ty']) for i in range(1, rec['body']['arg_count'] + 1)]
        ex = Exec(db, loop_bound=40)
        install(ex)
        gen_opaque(ex)

        def body(ex):
            g = symgen.SymGen(ex, db, rec['crate'], max_depth=2, max_len=1)
            vs = [g.of(t) for t in arg_ts]
            ex.log.append(('shape', list(g.shape)))
            return ex.call_key(key, vs)
        short = rec['name'].split('::messages::')[-1]
        try:
            res = explore(ex, body, max_paths=20000, budget_s=120)
        except Unmodelled as u:
            rep.add(Obligation(f'absurd {short}', 'inconclusive', str(u)[:500])); continue
        rep.absorb_stats(ex.stats)
        npan = 0
        for kind, val, pc, log in res:
            if kind != 'panic': rep.nontrivial += 1; continue
            st, m = solve(pc, None)
            if st != 'sat': continue
            npan += 1
            k = f'absurd-panic:{short.split("::")[-2]}::{short.split("::")[-1]}:{val[0].replace("assertion failed: ", "")[:40]}'
            if any(v.key == k for v in rep.violations) or any(v.key == k for _, v in rep.known_hits): continue
            shape = next((x[1] for x in log if x[0] == 'shape'), [])
            src = replay_view(short, shape) if 'block_store' not in rec['name'] else replay_range(rec['name'].split('::')[-1])
            path = None; repro = None
            if src:
                rr = replay.run_replay(f'c10_{len(rep.violations) + len(rep.known_hits)}', src); rep.replayed += 1
                path = rr['path']; repro = rr['reproduced']
            rep.violation(Violation(PROP, k, f'{rec["name"]} panics on a well-formed message with an extreme view number: {val[0]} at {val[1]} | shape {shape}', path, repro is True if src else None))
        rep.add(Obligation(f'absurd-message {short}', 'violated' if npan else 'discharged', paths=len(res)))


def gen_opaque(ex):
    """message parts that the view functions never inspect are opaque"""
    pass


def replay_view(short, shape):
    return '''// generated by /verif/lib/props/c10.py — replay: view extraction on a certificate for view u64::MAX (property C10)
use zksync_consensus_roles::validator::{self, v2::*, BlockNumber, EpochNumber, ViewNumber, Payload};
#[test]
fn replay() {
    let genesis: validator::GenesisHash = rand::Rng::gen(&mut rand::thread_rng());
    let view = View { genesis, number: ViewNumber(u64::MAX), epoch: EpochNumber(0) };
    let qc = CommitQC { message: ReplicaCommit { view, proposal: BlockHeader { number: BlockNumber(0), payload: Payload(vec![]).hash() } }, signers: Signers::new(1), signature: Default::default() };
    let just = ProposalJustification::Commit(qc);
    let r = std::panic::catch_unwind(move || { let _ = LeaderProposal { proposal_payload: None, justification: just }.view(); });
    assert!(r.is_ok(), "view() panicked on a certificate for view u64::MAX");
}
'''


def replay_range(method):
    call = {'contains': 'st.contains(BlockNumber(u64::MAX)); let _ = st.contains(BlockNumber(0))', 'verify': 'st.verify()', 'number': 'st.last.as_ref().map(|l| l.number())'}.get(method)
    if call is None: return None
    return '''// generated by /verif/lib/props/c10.py — replay: a peer-announced block range with extreme numbers (property C10)
use zksync_consensus_engine::{BlockStoreState, Last};
use zksync_consensus_roles::validator::BlockNumber;
#[test]
fn replay() {
    for (first, last) in [(0u64, u64::MAX), (u64::MAX, u64::MAX), (u64::MAX, 0), (1, u64::MAX - 1)] {
        let st = BlockStoreState { first: BlockNumber(first), last: Some(Last::PreGenesis(BlockNumber(last))) };
        let r = std::panic::catch_unwind(move || { let _ = %s; });
        assert!(r.is_ok(), "BlockStoreState::%s panicked on first={first} last={last}");
        let st = BlockStoreState { first: BlockNumber(first), last: None };
        let r = std::panic::catch_unwind(move || { let _ = %s; });
        assert!(r.is_ok(), "BlockStoreState::%s panicked on first={first} last=None");
    }
}
''' % (call, method, call, method)


def run(rep, db, tier, seed):
    rep.engines.append('mirsym (MIR symbolic execution + z3)')
    rep.trusted += M.TRUSTED + env.TRUSTED + ['ByteFmt::decode of keys / signatures / hashes and str::parse return an arbitrary Ok/Err (their implementations, incl. blst/ed25519 FFI, are not executed)',
                                               'prost/quick-protobuf wire parsing (bytes -> proto struct) is outside: the sweep starts from an arbitrary proto struct']
    rep.bounds = dict(repeated_fields='<= 2 elements (1 at nesting depth fallback)', nesting_depth='<= 3 (Option = None / empty Vec beyond)', scalars='fully symbolic', byte_strings='symbolic length < 2^32, opaque content')
    # ---- validly signed but semantically absurd consensus messages must not panic a HANDLER either: the one-step exploration of the
    # replica handlers (shared with C03 / C05) is run for its panic paths only. It runs in a background thread (its work is done by
    # forked worker processes) while the sweeps and the Kani part below proceed; joined before the verdict.
    import multiprocessing as mp
    def handlers_child(q):
        try:
            import framework as F2
            from props import replica_checks as RC
            rep2 = F2.Report(PROP, tier, seed)
            RC.run_all(rep2, db, tier, ('C10',))
            q.put(dict(viol=[(v.key, v.text, v.replay_path, v.reproduced) for v in rep2.violations],
                       obl=[(o.name, o.status, getattr(o, 'detail', '') or '', o.extra.get('paths') if hasattr(o, 'extra') else None) for o in rep2.obligations],
                       stats=dict(paths=rep2.paths, queries=rep2.queries, solver_s=rep2.solver_s, steps=rep2.steps, functions=rep2.functions, models=rep2.models),
                       nontrivial=rep2.nontrivial, replayed=rep2.replayed))
        except BaseException as u:      # noqa
            q.put(dict(error=f'{type(u).__name__}: {u}'))
    hq = mp.get_context('fork').Queue()
    hproc = mp.get_context('fork').Process(target=handlers_child, args=(hq,), daemon=False)
    hproc.start()          # forked before this process makes its first solver call
    n = sweep(rep, db, tier)
    absurd_messages(rep, db, tier)
    from props import c10_frames
    c10_frames.run(rep, db, tier)
    try:
        from props import c10_timefmt
        c10_timefmt.run(rep, db, tier)
    except Exception as u:
        rep.add(Obligation('decoded timestamps / durations stay usable', 'inconclusive', f'{type(u).__name__}: {u}'[:600]))
    try:
        from props import c10_frameio
        c10_frameio.run(rep, db, 'thorough')      # every instantiation (a few paths each)
    except Exception as u:
        rep.add(Obligation('length-prefixed frame bound', 'inconclusive', f'{type(u).__name__}: {u}'[:600]))
    from props import kani_part
    kani_part.run(rep, PROP, tier)
    # verification entry points reachable with decoded, not yet authenticated data must be total as well (decided in C04's harnesses)
    try:
        from props import c04
        for N in ([2] if tier == 'quick' else [2, 3]):
            for entry in ('final_block', 'replica_timeout_high_qc', 'leader_proposal'):
                viol, npaths = c04.check_commit_verify(rep, db, N, entry)
                pan = [v for v in viol if v[0].startswith('panic@')]
                for key, text, m, info, expected in pan:
                    k = f'verify-panic:{entry}:{key}'
                    if any(v.key == k for v in rep.violations): continue
                    from props import c04_replay
                    path = None; repro = None
                    try:
                        rr = replay.run_replay(f'c10_v{len(rep.violations)}', c04_replay.gen(info['kind'], m, info, expected)); rep.replayed += 1
                        path = rr['path']; repro = rr['reproduced']
                    except Exception:
                        pass
                    rep.violation(Violation(PROP, k, f'verification of a decoded (unauthenticated) certificate panics: {text}', path, repro is True))
                rep.add(Obligation(f'verify totality via {entry} N={N}', 'violated' if pan else 'discharged', paths=npaths))
            viol, npaths = c04.check_timeout_verify(rep, db, N, 1, 'timeout_qc')
            pan = [v for v in viol if v[0].startswith('panic@')]
            for key, text, m, info, expected in pan:
                rep.violation(Violation(PROP, f'verify-panic:timeout_qc:{key}', f'verification of a decoded (unauthenticated) timeout certificate panics: {text}', None, None))
            rep.add(Obligation(f'verify totality via timeout_qc N={N}', 'violated' if pan else 'discharged', paths=npaths))
    except Unmodelled as u:
        rep.add(Obligation('verify totality', 'inconclusive', str(u)[:400]))
    try:
        hres = hq.get(timeout=5400)
    except Exception as u:
        hres = dict(error=f'no result from the handler exploration: {type(u).__name__}')
    hproc.join(30)
    if 'error' in hres:
        rep.add(Obligation('replica handlers: no panic on any input', 'inconclusive', hres['error'][:600]))
    else:
        F.absorb_stats_dict(rep, hres['stats']); rep.nontrivial += hres['nontrivial']; rep.replayed += hres['replayed']
        for key, text, path, repro in hres['viol']:
            rep.violation(Violation(PROP, key, text, path, repro))
        for name, status, detail, paths in hres['obl']:
            rep.add(Obligation('no panic: ' + name, status, detail))
    rep.extra['explanation'] = 'totality of every ProtoFmt::read body and of the pre-verification view extraction over all symbolic proto messages within the nesting/length bound; std_conv converters and the mux header codec decided bit-precisely by Kani'
