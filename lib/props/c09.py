"""C09 — wire encoding is lossless and canonical (engines K + M; PARTIAL claim).

Decided:
 (K) value-level losslessness of the hand-written scalar converters of protobuf/src/std_conv.rs on the real code:
     read(build(x)) == x for Duration, Utc, SocketAddr (v4 / v6, all ports), BitVec of every length 0..17 with every
     content, limiter::Rate (Kani harnesses of the `stdconv` crate).
 (M) struct-level losslessness: for every workspace type T with a ProtoFmt impl, `T::read(&x.build()) == Ok(x)` for a
     fully symbolic x (Options both ways, repeated fields / maps of <= 2 entries, enum variants all), executed on the
     real MIR of build and read. Leaf codecs are ideal: ByteFmt::encode/decode of keys, signatures and hashes and the
     std_conv converters (decided by K) are inverse bijections on opaque values. Map-valued fields (TimeoutQC vote
     map) are generated as sorted association lists; since read() re-inserts entry by entry, the check also shows the
     decoded map is the same sorted map (construction-order independence of the value).
NOT decided (outside, said plainly): byte-level canonicity — canonical_raw, the prost / quick-protobuf wire encoding and
"every alternative serialisation normalises to the canonical bytes" depend on a run-time descriptor pool and on
parsers whose loops grow with the input; neither engine reaches them.
"""
import re, time
import z3
from mirsym.core import (Exec, explore, solve, Num, Agg, Ref, Cell, Opaque, Panic, Unmodelled, BoundExceeded, num_cmp, to_z3_bool, UNIT)
from mirsym import env, models as M, symgen
from mirsym.models import some, none, ok, err, values_equal, values_lt_eq, MapV, VecV, BitVecV, BoxV
from mirsym.mk import Mk, fld
from framework import Obligation, Violation
import framework as F
from props.c11 import panic_key
from props import c10

PROP = 'C09'
BUILD_RX = r'(<.* as zksync_protobuf::(proto_fmt::)?ProtoFmt>::build|<.* as zksync_protobuf::(repr::)?ProtoRepr>::build)'
OPAQUE_PATH = re.compile(r'(zksync_consensus_crypto::.*|core::net::.*|std::net::.*|zksync_concurrency::time::Utc|time::duration::Duration|time::Duration|zksync_concurrency::limiter::Rate)$')


class Gen(symgen.SymGen):
    """domain-type generator: crypto / time / address leaves are opaque symbolic identities; maps sorted and distinct"""
    def of(self, t, depth=0, hint='v'):
        info = t['info']; path = info.get('path') or ''
        if info.get('k') == 'adt':
            if OPAQUE_PATH.search(path):
                return Opaque(z3.Int(self.fresh_name(hint + '_id')))
            if path.endswith('bit_vec::BitVec'):
                n = self.ex.choose(3, 'bits')
                return BitVecV([z3.Bool(self.fresh_name(f'{hint}_bit{i}')) for i in range(n)])
            m = re.search(r'collections::btree::(map::BTreeMap|set::BTreeSet)$', path)
            if m:
                targs = [a['ty'] for a in info.get('args', []) if isinstance(a, dict) and 'ty' in a]
                n = 0 if depth > self.max_depth else self.ex.choose(self.max_len + 1, 'maplen')
                ents = []
                for i in range(n):
                    k = self.of_type(targs[0], depth + 1, f'{hint}_k{i}')
                    v = self.of_type(targs[1], depth + 1, f'{hint}_v{i}') if 'Map' in m.group(1) else UNIT
                    if ents:
                        lt, _ = values_lt_eq(self.ex, ents[-1][0], k)
                        self.ex.assume(to_z3_bool(lt))
                    ents.append((k, v))
                return MapV(ents, True, 'map' if 'Map' in m.group(1) else 'set')
            if path.endswith('schedule::Schedule'):
                # a Schedule is valid only as produced by Schedule::new (derived fields): generate it through the real constructor
                vi_t = None
                for f in info['variants'][0]['fields']:
                    if f['name'] == 'vec':
                        vt = self.db.ty(self.crate, f['ty'])
                        vi_t = [a['ty'] for a in vt['info']['args'] if isinstance(a, dict) and 'ty' in a][0]
                    if f['name'] == 'leader_selection': ls_t = f['ty']
                n = 1 + self.ex.choose(2, 'validators')
                infos = [self.of_type(vi_t, depth + 1, f'{hint}_val{i}') for i in range(n)]
                sel = self.of_type(ls_t, depth + 1, f'{hint}_sel')
                key = self.db.find_one(r'.*schedule::Schedule::new::<std::vec::Vec<.*ValidatorInfo>>', kinds=('inst',))
                r = self.ex.call_key(key, [VecV(infos), sel])
                if r.variant == 1:
                    from mirsym.core import Infeasible
                    raise Infeasible()
                return r.fields[0]
            if path.endswith('GenesisRaw'):
                v = super().of(t, depth, hint)
                pv = fld(fld(v, 'protocol_version'), '0')
                self.ex.assume(pv.e == 2)       # only protocol version 2 can be encoded (documented domain)
                return v
        return super().of(t, depth, hint)


def install(ex):
    env.install(ex); env.install_ideal_crypto(ex); symgen.install_bytes(ex)
    # ideal leaf codecs: encode / decode and the std_conv converters are inverse bijections on opaque values
    ex.model(r'<.* as zksync_consensus_crypto::(fmt::)?ByteFmt>::encode', lambda e, n, a: symgen.BytesV(e.fresh('enc_len'), ident=('enc', M.deref_all(a[0]).tag)) if isinstance(M.deref_all(a[0]), Opaque) else NotImplemented)
    def decode(e, n, a):
        v = M.deref_all(a[0])
        if isinstance(v, symgen.BytesV) and isinstance(v.ident, tuple) and v.ident[0] == 'enc': return ok(Opaque(v.ident[1]))
        return NotImplemented
    ex.model(r'<.* as zksync_consensus_crypto::(fmt::)?ByteFmt>::decode', decode)
    KT = c10._KT
    ex.model(rf'zksync_protobuf::std_conv::<impl zksync_protobuf::(proto_fmt::)?ProtoFmt for {KT}>::build|<{KT} as zksync_protobuf::(proto_fmt::)?ProtoFmt>::build',
             lambda e, n, a: Opaque(('conv', M.deref_all(a[0]).tag)) if isinstance(M.deref_all(a[0]), Opaque) else (Opaque(('convbits', id(M.deref_all(a[0])), M.deref_all(a[0]))) if isinstance(M.deref_all(a[0]), BitVecV) else NotImplemented))
    def conv_read(e, n, a):
        v = M.deref_all(a[0])
        if isinstance(v, Opaque) and isinstance(v.tag, tuple) and v.tag[0] == 'conv': return ok(Opaque(v.tag[1]))
        if isinstance(v, Opaque) and isinstance(v.tag, tuple) and v.tag[0] == 'convbits': return ok(BitVecV(list(v.tag[2].bits)))
        return NotImplemented
    ex.model(c10.KANI_DECIDED, conv_read)
    ex.model(r'zksync_consensus_roles::validator::messages::genesis::GenesisRaw::with_hash', lambda e, n, a: NotImplemented)
    ex.model(r'zksync_protobuf::(proto_fmt::)?(canonical|encode|canonical_raw)(::<.*>)?', lambda e, n, a: Opaque(('canonical', id(a[0]))))
    ex.model(r'zksync_consensus_crypto::keccak256::Keccak256::new', lambda e, n, a: Opaque(('keccak', M.deref_all(a[0]).tag if isinstance(M.deref_all(a[0]), Opaque) else id(a[0]))))


_DB = [None]


def one(arg):
    bname, tier = arg
    db = _DB[0]
    bkey = db.find_one(re.escape(bname), kinds=('fn',))
    rname = bname[:-len('build')] + 'read'
    try:
        rkey = db.find_one(re.escape(rname), kinds=('fn',))
    except KeyError:
        return dict(name=bname, status='skipped', detail='no read counterpart')
    brec = db.body(bkey); crate = brec['crate']
    self_t = db.ty(crate, db.ty(crate, brec['body']['locals'][1]['ty'])['info']['to'])
    t0 = time.time(); res = None; last = ''
    budget = 40 if tier == 'quick' else 200
    for depth, mlen in ((3, 2), (2, 1), (1, 1)):
        ex = Exec(db, loop_bound=40); ex.hash_order_insertion = True
        install(ex)

        def body(ex, depth=depth, mlen=mlen):
            g = Gen(ex, db, crate, max_depth=depth, max_len=mlen, prefix='x')
            x = g.of(self_t)
            ex.log.append(('shape', list(g.shape)))
            proto = ex.call_key(bkey, [Ref(Cell(x))])
            y = ex.call_key(rkey, [Ref(Cell(proto))])
            return x, y
        try:
            res = explore(ex, body, max_paths=20000, budget_s=budget); break
        except BoundExceeded as b: last = str(b); res = None; continue
        except Unmodelled as u: last = str(u); res = None; break
        except KeyError as ke:
            last = f'lookup: {ke}'; res = None; break
        except Exception as ex_:
            import traceback
            last = f'{type(ex_).__name__}: {ex_} ' + traceback.format_exc()[-300:]; res = None; break
    out = dict(name=bname, stats=F.stats_dict(ex.stats), depth=depth, wall_s=round(time.time() - t0, 1))
    if res is None and ('no symbolic generator' in last):
        out.update(status='skipped', detail='value domain not generated: ' + last[:200]); return out
    if res is None:
        out.update(status='inconclusive', detail=last[:500]); return out
    viol = []
    tname = c10.type_of_read(rname)
    for kind, val, pc, log in res:
        shape = next((x[1] for x in log if x[0] == 'shape'), [])
        if kind == 'panic':
            st, m = solve(pc, None)
            if st == 'sat' and not viol: viol.append(dict(key=f'roundtrip-panic:{tname}', text=f'{tname}: build/read panics on a valid value: {val[0]} at {val[1]} | shape {shape}'))
            continue
        x, y = val
        if y.variant == 1:
            st, m = solve(pc, None)
            if st == 'sat' and not any(v['key'].startswith('roundtrip-err') for v in viol):
                viol.append(dict(key=f'roundtrip-err:{tname}', text=f'{tname}: read(build(x)) returns Err for a valid value | shape {shape} | ' + wit(m)))
            continue
        try:
            eq = values_equal(ex, x, y.fields[0])
        except Unmodelled as u:
            out.update(status='inconclusive', detail=f'comparison: {u}'[:400]); return out
        st, m = solve(pc, z3.Not(to_z3_bool(eq)))
        if st == 'sat':
            if not any(v['key'].startswith('roundtrip-lossy') for v in viol):
                viol.append(dict(key=f'roundtrip-lossy:{tname}', text=f'{tname}: read(build(x)) != x | shape {shape} | ' + wit(m)))
        elif st != 'unsat':
            out.update(status='inconclusive', detail='solver unknown'); return out
    out.update(status='violated' if viol else 'discharged', viol=viol, paths=len(res), nontrivial=sum(1 for k, v, p, l in res if k == 'ok' and v[1].variant == 0))
    return out


def wit(m):
    if m is None: return ''
    return ', '.join(f'{d.name()}={m[d]}' for d in sorted(m.decls(), key=lambda d: d.name()) if d.arity() == 0 and d.name().startswith('x_'))[:300]


def run(rep, db, tier, seed):
    rep.engines.append('mirsym (MIR symbolic execution + z3)')
    rep.trusted += M.TRUSTED + env.TRUSTED + ['leaf codecs ideal: ByteFmt encode/decode of keys, signatures, hashes are inverse bijections on opaque values; std_conv converters likewise (decided by the Kani part)',
                                               'symbolic values: repeated fields / maps of <= 2 entries, nesting depth <= 3; GenesisRaw only with protocol_version = 2']
    rep.assumptions += ['byte-level canonicity (canonical_raw, prost / quick-protobuf, alternative serialisations) is NOT decided by this check']
    _DB[0] = db
    keys = db.find(BUILD_RX, kinds=('fn',))
    SKIP = {'Genesis': 'Genesis caches a hash derived from its GenesisRaw; the round trip of GenesisRaw is checked instead'}
    names = [n for n in sorted({db.by_key[k][4] for k in keys}) if '{closure' not in n and c10.type_of_read(n[:-5] + 'read') not in SKIP]
    rep.extra['skipped_types'] = dict(SKIP)
    outs = F.parallel_map(one, [(n, tier) for n in names])
    rep.bounds = dict(types=len(names), repeated='<= 2', depth='<= 3')
    for o in outs:
        short = o['name'].replace('zksync_consensus_', '').replace('zksync_protobuf::', 'pb::').replace(' as pb::ProtoFmt>::build', '>')
        if o['status'] == 'skipped':
            rep.extra['skipped_types'][o['name']] = o['detail']; continue
        if 'stats' in o: F.absorb_stats_dict(rep, o['stats'])
        if o['status'] == 'inconclusive':
            rep.add(Obligation(f'round trip {short}', 'inconclusive', o['detail'])); continue
        rep.nontrivial += o.get('nontrivial', 0)
        for v in o['viol']:
            rep.violation(Violation(PROP, v['key'], v['text'], None, None))
        rep.add(Obligation(f'round trip {short}', o['status'], paths=o['paths'], depth=o['depth'], wall_s=o['wall_s']))
        if len(rep.samples) < 8: rep.samples.append(f'{short}: {o["paths"]} paths, read(build(x)) == x decided on each')
    import os
    if not os.environ.get('C09_SKIP_KANI'):
        from props import kani_part
        kani_part.run(rep, PROP, tier)
    from props import c09_canon
    c09_canon.run(rep, db, tier)
    try:
        from props import c09_bls
        c09_bls.run(rep, db, tier)
    except Exception as u:
        rep.add(Obligation('identity aggregate signature round trip', 'inconclusive', f'{type(u).__name__}: {u}'[:600]))
    rep.extra['explanation'] = 'value-level losslessness of every ProtoFmt build/read pair on the real MIR (ideal leaf codecs) and of the std_conv converters by Kani; byte-level canonicity is outside the claim'
