"""C10 — length-prefixed protobuf frames (`network/src/frame.rs`): `recv_proto` and `mux_recv_proto`, every
instantiation found in the dump, executed as coroutines with the transport answered by contract (arbitrary bytes, short
reads, errors). Obligations: the 4-byte length announced by the peer is compared with the caller's maximum BEFORE any
buffer of that size is allocated — every allocation whose size depends on peer input is <= max_size —, an oversized or
truncated frame is an error, nothing panics."""
import time
import z3
from mirsym.core import (Exec, explore, solve, Num, Agg, Ref, Cell, Opaque, Unmodelled, BoundExceeded, num_cmp, num_arith, to_z3_bool, UNIT)
from mirsym import env, models as M, symgen
from mirsym.models import some, none, ok, err, ready, pending, VecV, deref_all
from props import coro
from props.coro import EnvFuture, CANCELED
from props.c11 import panic_key
from framework import Obligation, Violation


class BufV:
    """noise::bytes::Buffer by contract: capacity fixed at construction, filled length symbolic, content opaque"""
    def __init__(self, cap): self.cap = cap; self.len = Num(0, 64)
    def py_clone(self, ex): return self


def install(ex, st):
    env.install(ex); env.install_ideal_crypto(ex); coro.install_futures(ex); symgen.install_bytes(ex)
    n_before = len(ex.user_models)
    log = lambda: st()['log']

    def buf_new(e, n, a):
        log().append(('alloc', a[0])); return BufV(a[0])
    ex.model_path('zksync_consensus_network::noise::bytes::Buffer::new', buf_new)
    ex.model_path('zksync_consensus_network::noise::bytes::Buffer::capacity', lambda e, n, a: num_arith('Sub', deref_all(a[0]).cap, deref_all(a[0]).len))
    ex.model_path('zksync_consensus_network::noise::bytes::Buffer::len', lambda e, n, a: deref_all(a[0]).len)
    ex.model_path('zksync_consensus_network::noise::bytes::Buffer::as_slice', lambda e, n, a: Ref(Cell(symgen.BytesV(deref_all(a[0]).len))))

    def prefix(e, n, a):
        k = st().setdefault('prefixes', 0); st()['prefixes'] = k + 1
        bs = [e.fresh(f'len_byte{i}', 8) for i in range(4)]
        st()['len_bytes'] = bs
        return VecV(bs)
    ex.model_path('zksync_consensus_network::noise::bytes::Buffer::prefix', prefix)

    def mux_read_exact(e, n, a):
        buf = deref_all(a[2])
        def respond(e2):
            c = e2.choose(3, 'mux_read')
            if c == 0: return ready(err(Opaque('anyhow::Error')))
            if c == 1:
                buf.len = buf.cap                           # completely filled
            else:
                part = e2.fresh('partial_len'); e2.assume(part.e < buf.cap.e); buf.len = part     # stream ended early
            return ready(ok(UNIT))
        return EnvFuture('ReadStream::read_exact', respond)
    ex.model(r'zksync_consensus_network::mux::transient_stream::ReadStream::read_exact', mux_read_exact)

    def io_read_exact(e, n, a):
        tgt = deref_all(a[2])
        def respond(e2):
            c = e2.choose(3, 'io_read')
            if c == 0: return ready(err(CANCELED))
            if c == 1: return ready(ok(err(Opaque('io::Error'))))
            if isinstance(tgt, VecV):
                bs = [e2.fresh(f'len_byte{i}', 8) for i in range(len(tgt.items))]
                for i, b in enumerate(bs): tgt.items[i] = b
                if len(bs) == 4: st()['len_bytes'] = bs
            return ready(ok(ok(UNIT)))
        return EnvFuture('io::read_exact', respond)
    ex.model_path('zksync_concurrency::io::read_exact', io_read_exact)

    def from_elem(e, n, a):
        log().append(('alloc', a[1])); return symgen.BytesV(a[1])
    ex.model(r'std::vec::from_elem::<u8>|alloc::vec::from_elem::<u8>|<u8 as std::vec::spec_from_elem::SpecFromElem>::from_elem.*|<u8 as alloc::vec::spec_from_elem::SpecFromElem>::from_elem.*', from_elem)
    ex.model(r'<std::vec::Vec<u8> as std::ops::Index(Mut)?<std::ops::RangeFull>>::index(_mut)?|<std::vec::Vec<u8> as std::ops::Deref(Mut)?>::deref(_mut)?', lambda e, n, a: a[0] if isinstance(deref_all(a[0]), symgen.BytesV) else NotImplemented)
    ex.model(r'zksync_protobuf::proto_fmt::decode::<.*>|zksync_protobuf::decode::<.*>', lambda e, n, a: ok(Opaque('decoded message')) if e.choose(2, 'decode') else err(Opaque('anyhow::Error')))
    mine = ex.user_models[n_before:]; del ex.user_models[n_before:]
    ex.user_models[0:0] = mine; ex._um_cache = {}


def check_instance(rep, db, key, name, mux):
    ex = Exec(db, loop_bound=10)
    cur = [None]
    install(ex, lambda: cur[0])

    def body(ex):
        s = dict(log=[]); cur[0] = s
        max_size = ex.fresh('max_size')
        stream = Opaque('stream')
        r = coro.run_async(ex, key, [Ref(Cell(Opaque('ctx'))), Ref(Cell(stream)), max_size])
        return r, max_size, list(s['log']), s.get('len_bytes')
    res = explore(ex, body, budget_s=300)
    rep.absorb_stats(ex.stats)
    viol = {}; nontriv = 0

    def need(pc, k, text, cond):
        if k in viol: return
        st, m = solve(pc, z3.Not(cond))
        if st == 'sat': viol[k] = (text, m)
        elif st != 'unsat': raise Unmodelled('solver unknown')
    for kind, val, pc, _ in res:
        if kind == 'panic':
            st, m = solve(pc, None)
            if st == 'sat': viol.setdefault('frame-io:' + panic_key(val), (f'{name} panics: {val[0]} at {val[1]}', m))
            continue
        r, max_size, log, lb = val
        allocs = [e[1] for e in log if e[0] == 'alloc']
        for a in allocs:
            if a.concrete: continue
            nontriv += 1; rep.nontrivial += 1
            need(pc, 'frame-io:allocation-before-bound', f'{name} allocates a buffer whose size is chosen by the peer and exceeds the caller\'s maximum (the length prefix is not checked before the allocation)', a.e <= max_size.e)
        if lb is not None and r != 'pending' and r.variant == 0:
            announced = sum((b.e * (256 ** i) for i, b in enumerate(lb)), z3.IntVal(0))
            need(pc, 'frame-io:oversized-accepted', f'{name} returns a message although the announced length exceeds the caller\'s maximum', announced <= max_size.e)
    if nontriv == 0 and not viol:
        raise Unmodelled(f'{name}: no path allocates the message buffer (vacuous)')
    return viol, len(res)


def run(rep, db, tier):
    t0 = time.time()
    targets = []
    for pat, mux in ((r'zksync_consensus_network::frame::mux_recv_proto::<.*>', True), (r'zksync_consensus_network::frame::recv_proto::<.*>', False)):
        ks = [k for k in db.find(pat, kinds=('inst',)) if '{closure' not in db.by_key[k][4]]
        ks.sort(key=lambda k: db.by_key[k][4])
        if not ks:
            rep.add(Obligation(f'length-prefixed frames: {pat}', 'inconclusive', 'no instantiation in the dump')); continue
        targets += [(k, mux) for k in (ks if tier == 'thorough' else ks[:2])]
    seen = set()
    for k, mux in targets:
        name = db.by_key[k][4].replace('zksync_consensus_network::', '')
        try:
            viol, n = check_instance(rep, db, k, name, mux)
            for key, (text, m) in viol.items():
                if key in seen: continue
                seen.add(key)
                rep.violation(Violation('C10', key, text, None, None, ', '.join(f'{d.name()}={m[d]}' for d in m.decls() if d.arity() == 0 and '!' not in d.name())[:300] if m is not None else ''))
            rep.add(Obligation(f'length-prefixed frame bound: {name[:90]}', 'violated' if viol else 'discharged', paths=n))
        except (Unmodelled, KeyError, BoundExceeded) as u:
            rep.add(Obligation(f'length-prefixed frame bound: {name[:90]}', 'inconclusive', f'{type(u).__name__}: {u}'[:600]))
    rep.samples.append(f'frame.rs: {len(targets)} instantiations of recv_proto / mux_recv_proto, symbolic length prefix and maximum')
