"""C12 — connections are admitted only for authenticated, expected, unique peers (engine M).

 (A) handshakes: the coroutine MIR of consensus::handshake::{inbound,outbound} and gossip::handshake::{inbound,outbound}
     is executed with the received handshake message fully symbolic (claimed key, signed session id, genesis, signature)
     under the ideal signature model: a presented signature verifies only for the (session id, key) pair the key's owner
     actually signed. Obligation: Ok(conn) <=> the frame I/O succeeded AND the signed session id is THIS stream's id AND
     the genesis matches AND the signature is genuinely by the claimed key over this id AND (outbound) the key is the
     dialled peer; the returned identity is the claimed key. Hence a transcript recorded on, or relayed through, another
     session (different id) is refused.
 (B) pools: PoolWatch::{insert,remove} (coroutines) from an arbitrary pool with extra_count = |current \\ allowed| <=
     extra_limit: Ok iff the key is absent and (allowed or quota left); the invariant is preserved; Err changes nothing;
     with extra_limit = 0 only allowed keys are admitted. Concurrency: a second complete insert by another task is
     interleaved at the acquisition of the pool lock (everything read before is stale) — the invariant must still hold.
Outside: uniqueness of noise session ids (snow), the accept loops, TCP-level behaviour.
"""
import re, time
import z3
from mirsym.core import (Exec, explore, solve, Num, Agg, Ref, Cell, Opaque, Panic, Unmodelled, num_cmp, b_and, to_z3_bool, UNIT)
from mirsym import env, models as M
from mirsym.models import some, none, ok, err, ready, pending, BoxV, VecV, MapV, deref_all, values_equal
from mirsym.mk import Mk, fld
from framework import Obligation, Violation
from props import coro, c02, c04
from props.coro import EnvFuture, CANCELED
from props.c11 import panic_key

PROP = 'C12'
NET = 'zksync_consensus_network'


def zb(x): return to_z3_bool(x)


def install_handshake(ex, db, st):
    c04.install(ex); coro.install_futures(ex)
    # session ids are byte strings; the real 32-byte noise id is scaled to SID_LEN symbolic bytes
    ex.model(r'zksync_consensus_network::noise::stream::Stream::id', lambda e, n, a: Opaque('my_session_hash'))
    ex.model(r'<zksync_consensus_crypto::keccak256::Keccak256 as zksync_consensus_crypto::(fmt::)?ByteFmt>::encode', lambda e, n, a: VecV(my_session_bytes()))
    ex.model(r'zksync_consensus_network::noise::stream::Stream::stats', lambda e, n, a: Opaque('stats'))
    ex.model(r'zksync_concurrency::ctx::Ctx::(with_timeout|with_deadline)', lambda e, n, a: Opaque('ctx'))

    def send_proto(e, n, a):
        def respond(e2):
            if e2.choose(2, 'send_fails') == 0: st()['io_ok'] = False; return ready(err(Opaque('ctx::Error')))
            st()['sent'] = deref_all(a[2]); return ready(ok(UNIT))
        return EnvFuture('send_proto', respond)
    ex.model_path('zksync_consensus_network::frame::send_proto', send_proto)

    def recv_proto(e, n, a):
        def respond(e2):
            if e2.choose(2, 'recv_fails') == 0: st()['io_ok'] = False; return ready(err(Opaque('ctx::Error')))
            return ready(ok(st()['incoming']))
        return EnvFuture('recv_proto', respond)
    ex.model_path('zksync_consensus_network::frame::recv_proto', recv_proto)
    ex.model(r'<.* as zksync_concurrency::error::Wrap>::(wrap|with_wrap)(::<.*>)?', lambda e, n, a: a[0])

    def sign_msg(e, n, a):
        key = Opaque(('key', 'me'))
        return Agg('adt', 'Signed', 0, [a[1], key, c04.GhostSig(a[1], key, True)])
    ex.model_path('zksync_consensus_roles::validator::keys::secret_key::SecretKey::sign_msg', sign_msg)
    ex.model_path('zksync_consensus_roles::node::keys::SecretKey::sign_msg', sign_msg)
    ex.model(r'zksync_consensus_roles::(validator::keys::secret_key|node::keys)::SecretKey::public', lambda e, n, a: Opaque(('key', 'me')))

    def node_verify(e, n, a):
        # node::Signed::verify / node::PublicKey::verify: same ideal model
        s = deref_all(a[0])
        sig = s.fields[2] if isinstance(s, Agg) else s
        return NotImplemented
    # node::Signed<SessionId>::verify -> key.verify(&msg.hash(), &sig): answered by the ghost signature
    def node_signed_verify(e, n, a):
        s = deref_all(a[0])
        msg, key, sig = fld(s, 'msg'), fld(s, 'key'), fld(s, 'sig')
        c = b_and(sig.ok, values_equal(e, c04.strip_msg(msg), sig.msg), values_equal(e, key, sig.key))
        return ok(UNIT) if e.branch(c) else err(Opaque('InvalidSignatureError'))
    ex.model(r'zksync_consensus_roles::node::messages::Signed::<.*>::verify', node_signed_verify)


SID_LEN = 2


def my_session_bytes():
    return [Num(z3.Int(f'my_session_b{i}'), 8) for i in range(SID_LEN)]


def check_handshake(rep, db, which, side):
    ex = Exec(db, loop_bound=12)
    cur = [None]
    install_handshake(ex, db, lambda: cur[0])
    mkn = Mk(db, NET)
    key = db.find_one(rf'zksync_consensus_network::{which}::handshake::{side}', kinds=('fn',))
    rec = db.body(key)
    KEYS = ['me', 'peer', 'other']

    def body(ex):
        st = dict(io_ok=True, sent=None); cur[0] = st
        g0 = z3.Int('g0'); g_in = z3.Int('g_in')
        # the session id the peer sent: 0..SID_LEN+1 symbolic bytes; the one its signature really covers: same length, own bytes
        L = ex.choose(SID_LEN + 2, 'sid_len')
        in_b = [Num(z3.Int(f'sid_in_b{i}'), 8) for i in range(L)]; sg_b = [Num(z3.Int(f'sid_signed_b{i}'), 8) for i in range(L)]
        for x in in_b + sg_b + my_session_bytes(): ex.assume(z3.And(x.e >= 0, x.e < 256))
        sid_is_mine = z3.And(z3.BoolVal(L == SID_LEN), *[a.e == b.e for a, b in zip(in_b, my_session_bytes())]) if L == SID_LEN else z3.BoolVal(False)
        signed_is_sent = z3.And(*[a.e == b.e for a, b in zip(in_b, sg_b)]) if L else z3.BoolVal(True)
        ki = KEYS[ex.choose(3, 'claimed_key')]
        sig_ok = z3.Bool('sig_by_key_owner')
        roles = 'validator' if which == 'consensus' else 'node'
        hs_t = mkn.ty(rf'zksync_consensus_network::{which}::handshake::Handshake')
        sid_t = None
        sid = Agg('adt', 'SessionId', 0, [VecV(in_b)])
        signed_sid = Agg('adt', 'SessionId', 0, [VecV(sg_b)])
        keyv = Opaque(('key', ki))
        # the `Signed` value: typed when the type table knows it (fields by name), else positional (msg, key, sig)
        try:
            signed = mkn.adt(rf'zksync_consensus_roles::{roles}::messages::(msg::)?Signed', display=r'.*Signed<.*SessionId>', msg=sid, key=keyv, sig=c04.GhostSig(signed_sid, keyv, sig_ok))
        except Unmodelled:
            signed = Agg('adt', 'Signed', 0, [sid, keyv, c04.GhostSig(signed_sid, keyv, sig_ok)])
        vals = {}
        for f in hs_t['info']['variants'][0]['fields']:
            if f['name'] == 'session_id': vals[f['name']] = signed
            elif f['name'] == 'genesis': vals[f['name']] = Opaque(g_in)
            elif f['name'] == 'is_static': vals[f['name']] = z3.Bool('in_is_static')
            else: vals[f['name']] = Opaque(('in_' + f['name']))
        st['incoming'] = Agg('adt', hs_t, 0, [vals[f['name']] for f in hs_t['info']['variants'][0]['fields']])
        args = [Ref(Cell(Opaque('ctx')))]
        if which == 'consensus':
            args.append(Ref(Cell(Opaque('my_secret_key'))))
        else:
            args.append(Ref(Cell(gossip_cfg(ex, db, mkn))))
        args += [Opaque(g0), Ref(Cell(Opaque('stream')))]
        if side == 'outbound': args.append(Ref(Cell(Opaque(('key', 'peer')))))
        if len(args) != rec['body']['arg_count']:
            raise Unmodelled(f'{which}::handshake::{side} signature changed ({rec["body"]["arg_count"]} args)')
        r = coro.run_async(ex, key, args)
        genuine = z3.And(g_in == g0, sid_is_mine, sig_ok, signed_is_sent)
        if side == 'outbound': genuine = z3.And(genuine, z3.BoolVal(ki == 'peer'))
        return r, genuine, ki, st
    res = explore(ex, body, budget_s=600); rep.absorb_stats(ex.stats)
    viol = []
    for kind, val, pc, log in res:
        if kind == 'panic':
            st_, m = solve(pc, None)
            if st_ == 'sat': viol.append((panic_key(val), f'{which}::handshake::{side} panics: {val[0]} at {val[1]}', m))
            continue
        r, genuine, ki, st = val; rep.nontrivial += 1
        if r == 'pending': continue
        if r.variant == 0:
            conn = r.fields[0]
            st_, m = solve(pc, z3.Not(genuine))
            if st_ == 'sat': viol.append((f'handshake-accepts:{which}:{side}', f'{which}::handshake::{side} accepts a peer that did not prove possession of the claimed key for THIS session (wrong session id, chain, signer or peer)', m))
            elif st_ != 'unsat': raise Unmodelled('solver unknown')
            # identity attributed = claimed key
            got = conn
            while isinstance(got, (Agg, BoxV)) and not isinstance(got, Opaque):
                if isinstance(got, BoxV): got = got.cell.v; continue
                if (got.name or '').endswith('Connection'): got = fld(got, 'key'); continue
                break
            if isinstance(got, Opaque) and isinstance(got.tag, tuple) and got.tag[0] == 'key' and got.tag[1] != ki:
                viol.append((f'handshake-identity:{which}:{side}', f'{which}::handshake::{side} attributes the connection to {got.tag[1]} while {ki} was authenticated', None))
        else:
            # completeness: a genuine peer is refused only because of an I/O failure
            st_, m = solve(pc, z3.And(genuine, z3.BoolVal(st['io_ok'])))
            if st_ == 'sat': viol.append((f'handshake-rejects:{which}:{side}', f'{which}::handshake::{side} refuses a genuine peer although the frame exchange succeeded', m))
            elif st_ != 'unsat': raise Unmodelled('solver unknown')
    return viol, len(res)


def gossip_cfg(ex, db, mkn):
    """network Config as far as the gossip handshake reads it"""
    cfg_t = mkn.ty(r'zksync_consensus_network::config::Config')
    g_t = None
    vals = {}
    for f in cfg_t['info']['variants'][0]['fields']:
        if f['name'] == 'gossip':
            gt = db.ty(NET, f['ty'])
            gv = {}
            for gf in gt['info']['variants'][0]['fields']:
                if gf['name'] == 'key': gv[gf['name']] = Opaque('my_node_secret_key')
                elif gf['name'] == 'static_inbound': gv[gf['name']] = MapV([], False, 'set')
                elif gf['name'] == 'static_outbound': gv[gf['name']] = MapV([], False, 'map')
                else: gv[gf['name']] = Opaque('cfg_' + gf['name'])
            vals['gossip'] = Agg('adt', gt, 0, [gv[x['name']] for x in gt['info']['variants'][0]['fields']])
        elif f['name'] == 'build_version': vals[f['name']] = none()
        else: vals[f['name']] = Opaque('cfg_' + f['name'])
    return Agg('adt', cfg_t, 0, [vals[f['name']] for f in cfg_t['info']['variants'][0]['fields']])


# ------------------------------------------------------------------------------------------------ pools
def install_pool(ex, db, st):
    env.install(ex); env.install_ideal_crypto(ex); coro.install_futures(ex)

    def watch_lock(e, n, a):
        wv = deref_all(a[0])
        while not isinstance(wv, M.WatchV):
            if isinstance(wv, Agg) and len(wv.fields) >= 1: wv = deref_all(wv.fields[0])
            else: raise Unmodelled('Watch::lock receiver')
        def respond(e2):
            s = st()
            if s.get('interfere') and not s.get('done'):
                s['done'] = True
                if e2.choose(2, 'interference') == 0:
                    ok2 = coro.run_async(e2, s['insert_key'], [Ref(Cell(s['pool_watch'])), s['other_key'], Opaque('conn_other')])
                    s['other_result'] = ok2
            return ready(wv)
        return EnvFuture('watch.lock', respond)
    ex.model_path('zksync_consensus_network::watch::Watch::lock', watch_lock)
    ex.model(r'(tokio|zksync_concurrency)::sync::watch::Sender::<.*>::borrow', lambda e, n, a: coro.WatchRef(deref_all(a[0])))
    ex.model(r'<(tokio|zksync_concurrency)::sync::watch::Ref<.*> as std::ops::Deref>::deref', lambda e, n, a: Ref(deref_all(a[0]).watch.cell))
    ex.model(r'<(tokio|zksync_concurrency)::sync::MutexGuard<.*> as std::ops::Deref(Mut)?>::deref(_mut)?', lambda e, n, a: a[0])

    def send_if_modified(e, n, a):
        wv = deref_all(a[0])
        return e.call_closure(a[1], [Ref(wv.cell)])
    ex.model(r'(tokio|zksync_concurrency)::sync::watch::Sender::<.*>::send_if_modified(::<.*>)?', send_if_modified)
    ex.model(r'zksync_consensus_network::watch::Watch::<.*>::subscribe', lambda e, n, a: coro.WatchReceiver(find_watch(a[0])))


def find_watch(v):
    wv = deref_all(v)
    while not isinstance(wv, M.WatchV):
        if isinstance(wv, Agg) and len(wv.fields) >= 1: wv = deref_all(wv.fields[0])
        else: raise Unmodelled('no watch')
    return wv


KEYSET = [('a0', True), ('a1', True), ('x0', False), ('x1', False)]


def check_pool(rep, db, op, interfere):
    ex = Exec(db, loop_bound=16); ex.hash_order_insertion = True
    cur = [None]
    install_pool(ex, db, lambda: cur[0])
    mkn = Mk(db, NET)
    ins = db.find(r'zksync_consensus_network::pool::PoolWatch::<.*>::insert', kinds=('inst',))
    rem = db.find(r'zksync_consensus_network::pool::PoolWatch::<.*>::remove', kinds=('inst',))
    if not ins or not rem: raise Unmodelled('no PoolWatch instances in the dump')
    ins_key = sorted(ins, key=lambda k: db.by_key[k][4])[0]
    inst_name = db.by_key[ins_key][4]
    rem_key = [k for k in rem if db.by_key[k][4].split('::remove')[0] == inst_name.split('::insert')[0]][0]
    rec = db.body(ins_key)
    pw_t = db.ty(rec['crate'], db.ty(rec['crate'], rec['body']['locals'][1]['ty'])['info']['to'])
    watch_t = db.ty(rec['crate'], pw_t['info']['variants'][0]['fields'][0]['ty'])
    pool_t = None
    for a_ in watch_t['info'].get('args', []):
        if isinstance(a_, dict) and 'ty' in a_: pool_t = db.ty(rec['crate'], a_['ty'])

    def body(ex):
        st = dict(interfere=interfere, insert_key=ins_key); cur[0] = st
        limit = ex.fresh('extra_limit'); ex.assume(limit.e <= 4)
        present = {k: (ex.choose(2, f'has_{k}') == 0) for k, _ in KEYSET}
        extras = sum(1 for k, al in KEYSET if present[k] and not al)
        ex.assume(limit.e >= extras)
        allowed = MapV([(Opaque(('key', k)), UNIT) for k, al in KEYSET if al], False, 'set')
        current = MapV([(Opaque(('key', k)), Opaque(('conn', k))) for k, al in KEYSET if present[k]], False, 'map')
        fs = pool_t['info']['variants'][0]['fields']
        vals = dict(extra_limit=limit, extra_count=Num(extras, 64), allowed=allowed, current=current)
        if set(f['name'] for f in fs) != set(vals): raise Unmodelled(f'Pool fields changed: {[f["name"] for f in fs]}')
        pool = Agg('adt', pool_t, 0, [vals[f['name']] for f in fs])
        watch = M.WatchV(pool)
        wfs = watch_t['info']['variants'][0]['fields']
        w = Agg('adt', watch_t, 0, [watch] + [Opaque('w')] * (len(wfs) - 1))
        pw = Agg('adt', pw_t, 0, [w]); st['pool_watch'] = pw
        kname, kal = KEYSET[ex.choose(len(KEYSET), 'op_key')]
        if interfere:
            oname, oal = KEYSET[ex.choose(len(KEYSET), 'other_key')]
            st['other_key'] = Opaque(('key', oname))
        if op == 'insert':
            r = coro.run_async(ex, ins_key, [Ref(Cell(pw)), Opaque(('key', kname)), Opaque(('conn_new', kname))])
        else:
            r = coro.run_async(ex, rem_key, [Ref(Cell(pw)), Ref(Cell(Opaque(('key', kname))))])
        post = watch.cell.v
        return r, present, extras, limit, kname, kal, post, dict(st)
    res = explore(ex, body, budget_s=900); rep.absorb_stats(ex.stats)
    viol = []
    for kind, val, pc, log in res:
        if kind == 'panic':
            st_, m = solve(pc, None)
            if st_ == 'sat': viol.append((panic_key(val), f'PoolWatch::{op} panics: {val[0]} at {val[1]}', m))
            continue
        r, present, extras, limit, kname, kal, post, st = val; rep.nontrivial += 1
        if r == 'pending': continue
        pc_cur = fld(post, 'current'); cnt = fld(post, 'extra_count'); lim2 = fld(post, 'extra_limit')
        keys_now = [k.tag[1] for k, c in pc_cur.entries]
        allowed_names = {k for k, al in KEYSET if al}
        extras_now = sum(1 for k in keys_now if k not in allowed_names)
        inv = z3.And(cnt.e == extras_now, cnt.e <= lim2.e, z3.BoolVal(len(keys_now) == len(set(keys_now))))
        if interfere:
            if 'other_result' not in st: continue
            st_, m = solve(pc, z3.Not(inv))
            if st_ == 'sat': viol.append((f'pool-concurrent-{op}', f'two overlapping PoolWatch inserts break the pool invariant (an identity admitted twice or the quota exceeded): the checks are not made inside the critical section', m))
            elif st_ != 'unsat': raise Unmodelled('solver unknown')
            continue
        if op == 'insert':
            should = z3.And(z3.BoolVal(not present[kname]), z3.Or(z3.BoolVal(kal), limit.e > extras))
            is_ok = r.variant == 0
            want_keys = sorted([k for k in present if present[k]] + ([kname] if is_ok else []))
            good = z3.And(inv, should if is_ok else z3.Not(should), z3.BoolVal(sorted(keys_now) == want_keys))
        else:
            want_keys = sorted(k for k in present if present[k] and k != kname)
            good = z3.And(inv, z3.BoolVal(sorted(keys_now) == want_keys))
        st_, m = solve(pc, z3.Not(good))
        if st_ == 'sat': viol.append((f'pool-{op}', f'PoolWatch::{op}: admission decision or resulting pool differs from the specification (one entry per key, quota for non-allowed keys, Err leaves the pool unchanged)', m))
        elif st_ != 'unsat': raise Unmodelled('solver unknown')
    return viol, len(res)


def check_pool_history(rep, db, max_ops):
    """Representation-independent pool check: the pool is built by the REAL `PoolWatch::new`, driven by a sequence of up to
    `max_ops` real insert / remove operations with keys from KEYSET (2 allowed, 2 others) and a symbolic quota; a ghost
    set of admitted keys is kept by the specification (insert succeeds iff the key is absent and is either allowed or the
    number of admitted non-allowed keys is below the quota; remove deletes the key). After EVERY operation the result and
    the keys reported by the real pool must equal the ghost. Unlike the one-step check this does not depend on how the pool
    represents its bookkeeping (e.g. a derived counter)."""
    ex = Exec(db, loop_bound=16); ex.hash_order_insertion = True
    cur = [None]
    install_pool(ex, db, lambda: cur[0])
    ins = db.find(r'zksync_consensus_network::pool::PoolWatch::<.*>::insert', kinds=('inst',))
    if not ins: raise Unmodelled('no PoolWatch instances in the dump')
    ins_key = sorted(ins, key=lambda k: db.by_key[k][4])[0]
    prefix = db.by_key[ins_key][4].split('::insert')[0]
    def inst(meth):
        ks = [k for k in db.find(re.escape(prefix) + '::' + meth, kinds=('inst',)) if db.by_key[k][4].split('::' + meth)[0] == prefix and '{closure' not in db.by_key[k][4]]
        if not ks: raise Unmodelled(f'no instance of {prefix}::{meth} in the dump')
        return ks[0]
    rem_key = inst('remove'); new_key = inst('new')
    rec = db.body(ins_key)
    pw_t = db.ty(rec['crate'], db.ty(rec['crate'], rec['body']['locals'][1]['ty'])['info']['to'])
    watch_t = db.ty(rec['crate'], pw_t['info']['variants'][0]['fields'][0]['ty'])
    wfs = watch_t['info']['variants'][0]['fields']
    ex.model(r'zksync_consensus_network::watch::Watch::<.*>::new', lambda e, n, a: Agg('adt', watch_t, 0, [M.WatchV(a[0])] + [Opaque('w')] * (len(wfs) - 1)))
    mine = ex.user_models[-1:]; del ex.user_models[-1:]; ex.user_models[0:0] = mine; ex._um_cache = {}
    allowed_names = {k for k, al in KEYSET if al}

    def body(ex):
        st = dict(interfere=False, insert_key=ins_key); cur[0] = st
        limit = ex.fresh('extra_limit'); ex.assume(limit.e <= 3)
        allowed = MapV([(Opaque(('key', k)), UNIT) for k, al in KEYSET if al], False, 'set')
        pw = ex.call_key(new_key, [allowed, limit])
        watch = find_watch(pw)
        ghost = []; events = []
        n_ops = 1 + ex.choose(max_ops, 'n_ops')
        for i in range(n_ops):
            is_ins = ex.choose(2, f'op{i}') == 0
            kname, kal = KEYSET[ex.choose(len(KEYSET), f'key{i}')]
            if is_ins:
                r = coro.run_async(ex, ins_key, [Ref(Cell(pw)), Opaque(('key', kname)), Opaque(('conn', kname, i))])
                if r == 'pending': return None
                extras = sum(1 for k in ghost if k not in allowed_names)
                should = (kname not in ghost) and (True if kal else None)
                if kname in ghost: want = z3.BoolVal(False)
                elif kal: want = z3.BoolVal(True)
                else: want = limit.e > extras
                got_ok = r.variant == 0
                events.append(('insert', kname, got_ok, want, None))
                if got_ok: ghost = ghost + [kname] if kname not in ghost else ghost + [kname]
            else:
                r = coro.run_async(ex, rem_key, [Ref(Cell(pw)), Ref(Cell(Opaque(('key', kname))))])
                if r == 'pending': return None
                ghost = [k for k in ghost if k != kname]
                events.append(('remove', kname, True, z3.BoolVal(True), None))
            pool = watch.cell.v
            keys_now = sorted(k.tag[1] for k, c in fld(pool, 'current').entries)
            events[-1] = events[-1][:4] + (keys_now,)
            events[-1] = events[-1] + (sorted(ghost),)
        return limit, events
    res = explore(ex, body, budget_s=1200); rep.absorb_stats(ex.stats)
    viol = []
    for kind, val, pc, log in res:
        if kind == 'panic':
            st_, m = solve(pc, None)
            if st_ == 'sat': viol.append((panic_key(val), f'PoolWatch panics after a sequence of inserts / removes: {val[0]} at {val[1]}', m))
            continue
        if val is None: continue
        limit, events = val; rep.nontrivial += 1
        conds = []
        for op, kname, got_ok, want, keys_now, ghost in events:
            conds.append(want if got_ok else z3.Not(want))
            conds.append(z3.BoolVal(keys_now == ghost))
        st_, m = solve(pc, z3.Not(z3.And(*conds)))
        if st_ == 'sat':
            trace = '; '.join(f'{op}({k})->{"Ok" if g else "Err"} pool={kn}' for op, k, g, w, kn, gh in events)
            viol.append(('pool-history', f'a sequence of real PoolWatch operations admits or refuses differently from the specification (one entry per key; keys outside the allowed set only up to the quota; only allowed keys with quota 0): {trace}', m))
        elif st_ != 'unsat': raise Unmodelled('solver unknown')
    return viol, len(res)


def witness(m):
    if m is None: return ''
    return 'witness: ' + ', '.join(f'{d.name()}={m[d]}' for d in sorted(m.decls(), key=lambda d: d.name()) if d.arity() == 0 and '!' not in d.name())[:400]


def run(rep, db, tier, seed):
    rep.engines.append('mirsym (MIR symbolic execution + z3)')
    rep.trusted += M.TRUSTED + env.TRUSTED + ['ideal signatures: a presented signature verifies only for the (session id, key) pair the key owner signed', 'frame::send_proto / recv_proto answered by contract (arbitrary decoded handshake or I/O error); noise session id opaque',
                                               'Watch = mutex-guarded cell; interference modelled as one complete insert by another task at the lock acquisition']
    rep.assumptions += ['uniqueness of noise session ids per encrypted session (snow) is assumed', 'the accept loops and TCP behaviour are outside']
    rep.bounds = dict(handshake='one handshake, received message fully symbolic', pool='4 keys (2 allowed, 2 extra), extra_limit symbolic <= 4, one operation (+ one interfering insert)')
    seen = {}
    def handle(name, fn, *a):
        t0 = time.time()
        try:
            viol, n = fn(rep, db, *a)
            for key, text, m in viol:
                if key in seen: continue
                seen[key] = 1
                rep.violation(Violation(PROP, key, text + ' | ' + witness(m), None, None))
            rep.add(Obligation(name, 'violated' if viol else 'discharged', paths=n, wall_s=round(time.time() - t0, 1)))
            rep.samples.append(f'{name}: {n} feasible paths')
        except (Unmodelled, KeyError) as u:
            rep.add(Obligation(name, 'inconclusive', str(u)[:600]))
    for which in ('consensus', 'gossip'):
        for side in ('inbound', 'outbound'):
            handle(f'{which} handshake {side}', check_handshake, which, side)
    handle('PoolWatch::insert one step', check_pool, 'insert', False)
    handle('PoolWatch::remove one step', check_pool, 'remove', False)
    handle('PoolWatch::insert with an interfering insert', check_pool, 'insert', True)
    handle(f'PoolWatch histories from PoolWatch::new (<= {3 if tier == "quick" else 4} operations) against the admission specification', check_pool_history, 3 if tier == 'quick' else 4)
    try:
        from props import c12_pools
        c12_pools.run(rep, db, tier)
    except Exception as u:
        rep.add(Obligation('validator pools', 'inconclusive', f'{type(u).__name__}: {u}'[:600]))
    try:
        from props import c12_noise
        c12_noise.run(rep, db, tier)
    except Exception as u:
        rep.add(Obligation('noise handshake session id', 'inconclusive', f'{type(u).__name__}: {u}'[:600]))
    try:
        from props import c12_lifecycle
        c12_lifecycle.run(rep, db, tier)
    except Exception as u:
        rep.add(Obligation('connection life cycle', 'inconclusive', f'{type(u).__name__}: {u}'[:600]))
    try:
        from props import c12_preface
        c12_preface.run(rep, db, tier)
    except Exception as u:
        rep.add(Obligation('connection preface', 'inconclusive', f'{type(u).__name__}: {u}'[:600]))
    rep.extra['explanation'] = 'acceptance condition of the four handshake functions and one-step pool obligations on the real MIR, for all symbolic handshake messages / pool states within the bound'
