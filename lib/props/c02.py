"""C02 — certificate uniqueness: the re-proposal rule (engine M).

Real functions executed from MIR: ProposalJustification::get_implied_block, TimeoutQC::high_vote, TimeoutQC::high_qc,
Signers::weight, Schedule::subquorum_threshold / max_faulty_weight, BlockNumber::next, derived comparisons.
A committee of N validators with symbolic weights; a timeout certificate whose vote map has one entry per signer
(entries with equal content are what the real map would merge — the executed functions fold over entries, so this
only adds behaviours); every reported high vote / high certificate is symbolic.

 Lemma AB (lock preservation, one inductive step): Q = validators that voted commit for (b,h) with weight >= n-f,
   F = Byzantine set of weight <= f, S = signers of the timeout certificate with weight >= n-f. Signers in
   S∩Q∖F report high vote (b,h); everybody else reports anything. Reported certificates are chain-consistent
   (view_i <= view_j => number_i <= number_j; a certificate for number b certifies h) — the induction hypothesis,
   which only genuine certificates satisfy. Then the result is (b, Some(h)) if every certificate is below b,
   and otherwise has number > b: never a fresh or conflicting proposal for b.
 Lemma C (totality): no panic on any certificate in the bound (block numbers < 2^63).
 Lemma D (specification conformance): for EVERY certificate in the bound (only hypothesis: two reported certificates
   of the same view certify the same block number — one certificate per view) the result equals the
   reference model transcribed from spec/informal-spec/types.rs (0/1/2 sub-quorums, vote/certificate tie,
   first block when nothing is certified).
 Twin (non-vacuity): without "locked signers report (b,h)" Lemma AB must be refutable.
"""
import itertools, time
import z3
from mirsym.core import (Exec, explore, solve, Num, Agg, Ref, Cell, Opaque, Panic, Unmodelled, num_cmp, UNIT)
from mirsym import env, models as M
from mirsym.models import some, none
from mirsym.mk import Mk, fld, variant_name
from framework import Obligation, Violation
import replay
from props.c11 import panic_key

PROP = 'C02'
CR = 'zksync_consensus_roles'
V = r'zksync_consensus_roles::validator::messages::'
GIB = r'.*::ProposalJustification::get_implied_block'
LIM = 2 ** 63
HASH_PERM_MAX_N = 2


def mk_schedule(ex, mk, ws, sym_leaders=False):
    """a valid Schedule value. sym_leaders: the leader-eligible subset is symbolic (Booleans leader<i>, at least one) and
    leader_weight is the weight of that subset — only for code that does not read the `leaders` vector / the flags."""
    N = len(ws)
    total = ex.fresh('total_weight')
    ex.assume(total.e == sum((w.e for w in ws[1:]), ws[0].e))
    if sym_leaders:
        fl = [z3.Bool(f'leader{i}') for i in range(N)]
        lw = ex.fresh('leader_weight')
        ex.assume(z3.And(z3.Or(*fl), lw.e == sum((z3.If(f, w.e, 0) for f, w in zip(fl, ws)), z3.IntVal(0))))
        vec = M.VecV([mk.adt(V + 'schedule::ValidatorInfo', key=Opaque(('key', i)), weight=ws[i], leader=Opaque(('leader_flag', i))) for i in range(N)])
        idx = M.MapV([(Opaque(('key', i)), Num(i, 64)) for i in range(N)], ordered=True)
        sel = mk.adt(V + 'schedule::LeaderSelection', frequency=Num(1, 64), mode=mk.adt(V + 'schedule::LeaderSelectionMode', 'RoundRobin'))
        return mk.adt(V + 'schedule::Schedule', vec=vec, indexes=idx, total_weight=total, leaders=Opaque('leaders (symbolic subset)'),
                      leader_selection=sel, leader_weight=lw), total
    vec = M.VecV([mk.adt(V + 'schedule::ValidatorInfo', key=Opaque(('key', i)), weight=ws[i], leader=True) for i in range(N)])
    idx = M.MapV([(Opaque(('key', i)), Num(i, 64)) for i in range(N)], ordered=True)
    sel = mk.adt(V + 'schedule::LeaderSelection', frequency=Num(1, 64), mode=mk.adt(V + 'schedule::LeaderSelectionMode', 'RoundRobin'))
    return mk.adt(V + 'schedule::Schedule', vec=vec, indexes=idx, total_weight=total, leaders=M.VecV([Num(i, 64) for i in range(N)]),
                  leader_selection=sel, leader_weight=total), total


class Sym:
    """symbolic description of one signer's timeout vote"""
    def __init__(self, i):
        b = lambda n: z3.Bool(f'{n}{i}'); x = lambda n: z3.Int(f'{n}{i}')
        self.inS = b('inS'); self.hv_some = b('hv_some'); self.hv_num = x('hv_num'); self.hv_hash = x('hv_hash')
        self.qc_some = b('qc_some'); self.qc_num = x('qc_num'); self.qc_view = x('qc_view'); self.qc_hash = x('qc_hash')
        self.hv_view = x('hv_view')

    def ranges(self):
        return z3.And(*[z3.And(v >= 0, v < LIM) for v in (self.hv_num, self.qc_num, self.qc_view, self.hv_view)], self.hv_hash >= 0, self.qc_hash >= 0)


def build_tqc(ex, mk, N, syms, genesis, tqc_view):
    def num(e): return Num(e, 64, False)
    def view(e): return mk.adt(V + r'v2::consensus::View', genesis=genesis, number=mk.tuple_struct(V + r'consensus::ViewNumber', num(e)), epoch=mk.tuple_struct(V + r'consensus::EpochNumber', Num(0, 64)))
    def header(n, h): return mk.adt(V + r'v2::block::BlockHeader', number=mk.tuple_struct(V + r'block::BlockNumber', num(n)), payload=Opaque(h))
    entries = []
    present = []
    # Symmetry reduction: weights are symbolic, so validators are interchangeable; vote shapes are enumerated as
    # multisets in the order the real BTreeMap iterates them (derived Ord: high_vote None < Some, then high_qc
    # None < Some; contents symbolic), signers that did not sign last.
    # (messages WITH a high vote are ordered by the vote first and by the carried certificate only then, so for them the presence of
    # a certificate is a free choice per entry, not part of the canonical shape order)
    TYPES = [(True, False, False), (True, False, True), (True, True, None), (False, False, False)]
    lo = 0
    for i, s in enumerate(syms):
        ex.assume(s.ranges())
        t = lo + ex.choose(len(TYPES) - lo, f'shape{i}')
        lo = t
        signs, has_hv, has_qc = TYPES[t]
        if has_qc is None: has_qc = ex.choose(2, f'carries_qc{i}') == 1
        ex.assume(s.inS == signs)
        if not signs:
            present.append(None); continue
        ex.assume(s.hv_some == has_hv); ex.assume(s.qc_some == has_qc)
        present.append((has_hv, has_qc))
        hv = some(mk.adt(V + r'v2::replica_commit::ReplicaCommit', view=view(s.hv_view), proposal=header(s.hv_num, s.hv_hash))) if has_hv else none()
        qc = none()
        if has_qc:
            qc = some(mk.adt(V + r'v2::replica_commit::CommitQC', message=mk.adt(V + r'v2::replica_commit::ReplicaCommit', view=view(s.qc_view), proposal=header(s.qc_num, s.qc_hash)),
                             signers=mk.tuple_struct(V + r'v2::consensus::Signers', M.BitVecV([True] * N)), signature=Opaque('aggsig')))
        msg = mk.adt(V + r'v2::replica_timeout::ReplicaTimeout', view=view(tqc_view), high_vote=hv, high_qc=qc)
        signers = mk.tuple_struct(V + r'v2::consensus::Signers', M.BitVecV([j == i for j in range(N)]))
        entries.append((msg, signers))
    # Within one shape the real BTreeMap orders the messages by the derived Ord of the reported high vote: (view, block number,
    # payload hash). The entries are listed in that order — ties in (view, number) are left open (the order of opaque hashes is
    # unknown), as is the order by the carried certificate — so that code which depends on the ADJACENCY of entries is explored
    # on maps that exist, and its counterexamples replay (seed C02_i). Validators are interchangeable (symbolic weights), so
    # fixing "entry i is signed by validator i" loses nothing.
    idx = [i for i, p in enumerate(present) if p is not None]
    for a, b in zip(idx, idx[1:]):
        if present[a][0] and present[b][0]:
            sa, sb = syms[a], syms[b]
            ex.assume(z3.Or(sa.hv_view < sb.hv_view, z3.And(sa.hv_view == sb.hv_view, sa.hv_num <= sb.hv_num)))
    tqc = mk.adt(V + r'v2::replica_timeout::TimeoutQC', view=view(tqc_view), map=M.MapV(entries, ordered=True), signature=Opaque('aggsig'))
    return mk.adt(V + r'v2::leader_proposal::ProposalJustification', 'Timeout', _0=tqc), present


def reference(ws, syms, sub, first_block):
    """the specification's implied block as (definitional constraints, number, has_payload, payload_hash)"""
    N = len(syms)
    same = lambda a, b: z3.And(a.hv_num == b.hv_num, a.hv_hash == b.hv_hash)
    rep = [z3.And(s.inS, s.hv_some) for s in syms]
    count = [sum((z3.If(z3.And(rep[j], same(syms[i], syms[j])), ws[j].e, 0) for j in range(N)), z3.IntVal(0)) for i in range(N)]
    is_sub = [z3.And(rep[i], count[i] >= sub) for i in range(N)]
    has_hv = z3.And(z3.Or(*is_sub), *[z3.Implies(z3.And(is_sub[i], is_sub[j]), same(syms[i], syms[j])) for i in range(N) for j in range(i + 1, N)])
    R_num, R_hash = z3.Int('ref_hv_num'), z3.Int('ref_hv_hash')
    defs = [z3.Implies(has_hv, z3.Or(*[z3.And(is_sub[i], R_num == syms[i].hv_num, R_hash == syms[i].hv_hash) for i in range(N)]))]
    qrep = [z3.And(s.inS, s.qc_some) for s in syms]
    has_qc = z3.Or(*qrep)
    Q_num, Q_view = z3.Int('ref_qc_num'), z3.Int('ref_qc_view')
    # the certificate of maximal view (the implementation documents "highest one"); ties are resolved by the caller's hypothesis
    defs.append(z3.Implies(has_qc, z3.And(z3.Or(*[z3.And(qrep[i], Q_view == syms[i].qc_view, Q_num == syms[i].qc_num) for i in range(N)]),
                                          *[z3.Implies(qrep[i], syms[i].qc_view <= Q_view) for i in range(N)])))
    repropose = z3.And(has_hv, z3.Or(z3.Not(has_qc), R_num > Q_num))
    number = z3.If(repropose, R_num, z3.If(has_qc, Q_num + 1, first_block))
    return defs, number, repropose, R_hash, (has_qc, Q_view, Q_num)


def explore_gib(rep, db, N, assume_fn=None):
    mk = Mk(db, CR)
    ex = Exec(db, loop_bound=2 * N + 6)
    ex.hash_order_insertion = N > HASH_PERM_MAX_N
    syms = [Sym(i) for i in range(N)]
    env.install(ex); env.install_ideal_crypto(ex)

    def body(ex):
        ws = [ex.fresh(f'w{i}') for i in range(N)]
        for w in ws: ex.assume(z3.And(w.e >= 1, w.e < 2 ** 58))
        sched, total = mk_schedule(ex, mk, ws, sym_leaders=True)
        first = ex.fresh('first_block'); ex.assume(first.e < LIM)
        if assume_fn: ex.assume(assume_fn(ws, syms, total))
        just, present = build_tqc(ex, mk, N, syms, Opaque('genesis'), z3.Int('tqc_view'))
        ex.assume(z3.And(z3.Int('tqc_view') >= 0, z3.Int('tqc_view') < LIM))
        r = ex.call_by_name(GIB, [Ref(Cell(just)), Ref(Cell(sched)), mk.tuple_struct(V + r'block::BlockNumber', first)])
        num = r.fields[0].fields[0]; opt = r.fields[1]
        return ws, total, first, num, opt, present
    res = explore(ex, body, budget_s=3000)
    rep.absorb_stats(ex.stats)
    return res, syms


def thresholds(total):
    f = (total - 1) / 5
    return f, total - f, total - 3 * f


def lemma_ab_assumption(N, with_lock=True):
    def fn(ws, syms, total):
        inQ = [z3.Bool(f'inQ{i}') for i in range(N)]; inF = [z3.Bool(f'inF{i}') for i in range(N)]
        wsum = lambda flags: sum((z3.If(fl, w.e, 0) for fl, w in zip(flags, ws)), z3.IntVal(0))
        f, q, s = thresholds(total.e)
        b, h = z3.Int('b'), z3.Int('h')
        cs = [wsum(inQ) >= q, wsum(inF) <= f, wsum([x.inS for x in syms]) >= q, b >= 0, b < LIM - 1, h >= 0]
        for i, x in enumerate(syms):
            if with_lock:
                cs.append(z3.Implies(z3.And(x.inS, inQ[i], z3.Not(inF[i])), z3.And(x.hv_some, x.hv_num == b, x.hv_hash == h)))
            # certificates are genuine: chain-consistent, and a certificate for number b certifies h
            cs.append(z3.Implies(z3.And(x.inS, x.qc_some, x.qc_num == b), x.qc_hash == h))
            for j, y in enumerate(syms):
                if i != j:
                    cs.append(z3.Implies(z3.And(x.inS, x.qc_some, y.inS, y.qc_some, x.qc_view <= y.qc_view), x.qc_num <= y.qc_num))
        return z3.And(*cs)
    return fn


def replay_src(N, m, syms, kind):
    def iv(e, d=0):
        v = m.eval(e, model_completion=True)
        try: return v.as_long()
        except Exception: return d
    def bv(e): return z3.is_true(m.eval(e, model_completion=True))
    ws = [max(1, iv(z3.Int(f'w{i}'), 1)) for i in range(N)]
    lf = [bv(z3.Bool(f'leader{i}')) for i in range(N)]
    if not any(lf): lf = [True] * N
    leaders = ', '.join(str(x).lower() for x in lf)
    rows = []
    for i, s in enumerate(syms):
        rows.append(f'        Vote {{ signs: {str(bv(s.inS)).lower()}, hv: {("Some((%d, %d, %d))" % (iv(s.hv_num), iv(s.hv_hash) % 250, iv(s.hv_view))) if bv(s.hv_some) else "None"}, qc: {("Some((%d, %d, %d))" % (iv(s.qc_num), iv(s.qc_hash) % 250, iv(s.qc_view))) if bv(s.qc_some) else "None"} }},')
    rows = '\n'.join(rows)
    inQ = ', '.join(str(bv(z3.Bool(f'inQ{i}'))).lower() for i in range(N)); inF = ', '.join(str(bv(z3.Bool(f'inF{i}'))).lower() for i in range(N))
    return f'''// generated by /verif/lib/props/c02.py — replay of a solver counterexample for property C02 ({kind})
use std::collections::BTreeMap;
use zksync_consensus_roles::validator::{{self, v2::*, BlockNumber, EpochNumber, LeaderSelection, LeaderSelectionMode, Schedule, ValidatorInfo, ViewNumber, PayloadHash, GenesisHash}};

struct Vote {{ signs: bool, hv: Option<(u64, u64, u64)>, qc: Option<(u64, u64, u64)> }}

#[test]
fn replay() {{
    let n = {N};
    let weights: [u64; {N}] = [{", ".join(str(w) for w in ws)}];
    let leaders: [bool; {N}] = [{leaders}];
    let mut keys: Vec<validator::PublicKey> = (0..n).map(|_| validator::SecretKey::generate().public()).collect();
    keys.sort();
    let schedule = Schedule::new((0..n).map(|i| ValidatorInfo {{ key: keys[i].clone(), weight: weights[i], leader: leaders[i] }}), LeaderSelection {{ frequency: 1, mode: LeaderSelectionMode::RoundRobin }}).unwrap();
    let genesis: GenesisHash = rand::Rng::gen(&mut rand::thread_rng());
    let view = |v: u64| View {{ genesis, number: ViewNumber(v), epoch: EpochNumber(0) }};
    let hash = |h: u64| validator::Payload(h.to_be_bytes().to_vec()).hash();
    let header = |num: u64, h: u64| BlockHeader {{ number: BlockNumber(num), payload: hash(h) }};
    let votes = vec![
{rows}
    ];
    let tqc_view = {iv(z3.Int('tqc_view'))}u64;
    let mut map: BTreeMap<ReplicaTimeout, Signers> = BTreeMap::new();
    for (i, v) in votes.iter().enumerate() {{
        if !v.signs {{ continue; }}
        let msg = ReplicaTimeout {{
            view: view(tqc_view),
            high_vote: v.hv.map(|(num, h, vw)| ReplicaCommit {{ view: view(vw), proposal: header(num, h) }}),
            high_qc: v.qc.map(|(num, h, vw)| CommitQC {{ message: ReplicaCommit {{ view: view(vw), proposal: header(num, h) }}, signers: Signers::new(n), signature: Default::default() }}),
        }};
        map.entry(msg).or_insert_with(|| Signers::new(n)).0.set(i, true);
    }}
    let qc = TimeoutQC {{ view: view(tqc_view), map, signature: Default::default() }};
    let first_block = BlockNumber({iv(z3.Int('first_block'))});
    let got = ProposalJustification::Timeout(qc).get_implied_block(&schedule, first_block);   // must not panic

    // reference model (spec/informal-spec/types.rs, counting per proposed block as documented in the implementation)
    let total: u64 = weights.iter().sum();
    let f = (total - 1) / 5;
    let sub = total - 3 * f;
    let mut counts: Vec<((u64, u64), u64)> = vec![];
    for (i, v) in votes.iter().enumerate() {{
        if !v.signs {{ continue; }}
        if let Some((num, h, _)) = v.hv {{
            match counts.iter_mut().find(|c| c.0 == (num, h)) {{ Some(c) => c.1 += weights[i], None => counts.push(((num, h), weights[i])) }}
        }}
    }}
    let subq: Vec<_> = counts.iter().filter(|c| c.1 >= sub).collect();
    let high_vote = if subq.len() == 1 {{ Some(subq[0].0) }} else {{ None }};
    let max_view = votes.iter().filter(|v| v.signs).filter_map(|v| v.qc).map(|q| q.2).max();
    let qc_nums: Vec<u64> = votes.iter().filter(|v| v.signs).filter_map(|v| v.qc).filter(|q| Some(q.2) == max_view).map(|q| q.0).collect();
    let want: Vec<(BlockNumber, Option<PayloadHash>)> = if qc_nums.is_empty() {{
        vec![match high_vote {{ Some((num, h)) => (BlockNumber(num), Some(hash(h))), None => (first_block, None) }}]
    }} else {{
        // several certificates of maximal view with different numbers cannot be genuine; any of them is accepted
        qc_nums.iter().map(|&qn| match high_vote {{ Some((num, h)) if num > qn => (BlockNumber(num), Some(hash(h))), _ => (BlockNumber(qn + 1), None) }}).collect()
    }};
    assert!(want.contains(&got), "implied block {{:?}} differs from the specification {{:?}}", got, want);
    {lemma_rust(N, m, inQ, inF) if kind == 'lemmaAB' else ''}
}}
'''


def lemma_rust(N, m, inQ, inF):
    b = m.eval(z3.Int('b'), model_completion=True).as_long(); h = m.eval(z3.Int('h'), model_completion=True).as_long() % 250
    return f'''
    // Lemma AB on this witness: the hypotheses hold by construction of the counterexample
    let (b, h) = ({b}u64, {h}u64);
    assert!(got.0 .0 > b || (got.0 .0 == b && got.1 == Some(hash(h))), "a block conflicting with the locked ({{}},{{}}) is implied: {{:?}}", b, h, got);'''


def run(rep, db, tier, seed):
    rep.engines.append('mirsym (MIR symbolic execution + z3)')
    rep.trusted += M.TRUSTED + env.TRUSTED
    rep.assumptions += ['the history-level statement (at most one payload per block number ever certified) follows from Lemma AB by induction over views together with C03 (one vote per view, monotone views) and C07 (threshold arithmetic); that induction is a paper argument and is not solver-checked',
                        'chain-consistency of reported high certificates is the induction hypothesis (only genuine certificates are accepted: C04); Lemma D needs no hypothesis',
                        'block numbers and views below 2^63 (numbers at u64::MAX belong to C10)']
    sizes = [1, 2, 3] if tier == 'quick' else [1, 2, 3, 4]
    rep.bounds = dict(validators=f'{sizes}', vote_entries='one per signer (<= N)', weights='symbolic, 1 <= w < 2^58', numbers_views='symbolic < 2^63', hashes='opaque symbolic identities',
                      hash_map_iteration='every permutation explored up to 3 entries')
    nrep = [0]

    def report(kind, key, text, m, syms, N):
        src = replay_src(N, m, syms, kind)
        r = replay.run_replay(f'c02_{nrep[0]}', src); nrep[0] += 1; rep.replayed += 1
        if r['reproduced'] is None:
            rep.add(Obligation('replay', 'inconclusive', 'replay harness failed: ' + r['output'][-1500:]))
        rep.violation(Violation(PROP, key, text, r['path'], r['reproduced'] is True))

    for N in sizes:
        # ---- Lemma C + D: every certificate in the bound
        try:
            t0 = time.time()
            res, syms = explore_gib(rep, db, N)
            nviol = 0
            for kind, val, pc, log in res:
                if kind == 'panic':
                    st, m = solve(pc, None)
                    if st == 'sat':
                        nviol += 1
                        if nviol <= 2: report('panic', panic_key(val), f'get_implied_block panics: {val[0]} at {val[1]}', m, syms, N)
                    continue
                ws, total, first, num, opt, present = val
                rep.nontrivial += 1
                f, q, s = thresholds(total.e)
                defs, rnum, repropose, rhash, (has_qc, Qv, Qn) = reference(ws, syms, s, first.e)
                # ties between different certificates of the same maximal view are outside the specification: any of them is accepted
                if opt.variant == 1:
                    match = z3.And(repropose, num.e == rnum, opt.fields[0].tag == rhash)
                else:
                    match = z3.And(z3.Not(repropose), num.e == rnum)
                # two different certificates for one view cannot both be genuine (C04 + quorum intersection): excluded
                ties = [z3.Implies(z3.And(x.inS, x.qc_some, y.inS, y.qc_some, x.qc_view == y.qc_view), x.qc_num == y.qc_num) for x in syms for y in syms if x is not y]
                st, m = solve(pc + defs + ties, z3.Not(match))
                if st == 'sat':
                    nviol += 1
                    if nviol <= 2: report('spec', 'spec-mismatch', f'get_implied_block differs from the specification for a {N}-validator certificate', m, syms, N)
                elif st != 'unsat':
                    raise Unmodelled(f'solver: {m}')
            if len(rep.samples) < 6 and res:
                rep.samples.append(f'N={N}: {len(res)} feasible paths of get_implied_block; e.g. presence pattern {res[len(res) // 2][1][5] if res[len(res) // 2][0] == "ok" else "panic"}')
            rep.add(Obligation(f'LemmaC+D totality and spec conformance N={N}', 'violated' if nviol else 'discharged', paths=len(res), wall_s=round(time.time() - t0, 1)))
        except Unmodelled as u:
            rep.add(Obligation(f'LemmaC+D N={N}', 'inconclusive', str(u)))
        # ---- Lemma AB
        for with_lock in (True, False):
            name = f'LemmaAB lock preservation N={N}' if with_lock else f'twin (non-vacuity) N={N}'
            if N < 2 and not with_lock:
                continue
            try:
                t0 = time.time()
                res, syms = explore_gib(rep, db, N, lemma_ab_assumption(N, with_lock))
                nviol = 0; refuted = False
                b, h = z3.Int('b'), z3.Int('h')
                for kind, val, pc, log in res:
                    if kind == 'panic': continue
                    ws, total, first, num, opt, present = val
                    if with_lock: rep.nontrivial += 1
                    good = z3.Or(num.e > b, z3.And(num.e == b, opt.fields[0].tag == h)) if opt.variant == 1 else (num.e > b)
                    allbelow = z3.And(*[z3.Implies(z3.And(s.inS, s.qc_some), s.qc_num < b) for s in syms])
                    exact = z3.Implies(allbelow, z3.And(num.e == b, opt.fields[0].tag == h)) if opt.variant == 1 else z3.Not(allbelow)
                    st, m = solve(pc, z3.Not(z3.And(good, exact)))
                    if st == 'sat':
                        if with_lock:
                            nviol += 1
                            if nviol <= 2: report('lemmaAB', 'lock-not-preserved', f'a timeout certificate of {N} validators satisfying the hypotheses implies a block conflicting with the locked one', m, syms, N)
                        else:
                            refuted = True; break
                    elif st != 'unsat':
                        raise Unmodelled(f'solver: {m}')
                if with_lock:
                    rep.add(Obligation(name, 'violated' if nviol else 'discharged', paths=len(res), wall_s=round(time.time() - t0, 1)))
                else:
                    rep.add(Obligation(name, 'discharged' if refuted else 'inconclusive', '' if refuted else 'the lemma holds even without its key hypothesis: harness is vacuous', paths=len(res)))
            except Unmodelled as u:
                rep.add(Obligation(name, 'inconclusive', str(u)))
    # the replica side of the rule: what a correct replica reports as its high vote is its latest commit vote
    # (one step of the real on_proposal handler from an arbitrary state, see props/replica_checks.py)
    try:
        from props import replica_checks as RC
        RC.run_all(rep, db, tier, ('C02',), handlers=('on_proposal',))
    except Unmodelled as u:
        rep.add(Obligation('on_proposal high-vote obligation', 'inconclusive', str(u)[:500]))
    try:
        from props import replica_loop
        replica_loop.run(rep, db, tier, ('C02',))
    except Exception as u:
        rep.add(Obligation('proposer: re-proposal carries no payload', 'inconclusive', f'{type(u).__name__}: {u}'[:600]))
    rep.extra['explanation'] = 'one inductive step of the re-proposal rule and conformance to the specification on the real MIR, for all weights/votes/certificates within the committee-size bound'
