"""C09 — the aggregate signature of an EMPTY certificate survives the wire: `AggregateSignature::default()` (what `CommitQC::new` /
`TimeoutQC::new` hold, and what an aggregate of cancelling signatures is) is encoded and decoded again by the real
`<AggregateSignature as ByteFmt>::{encode, decode}` and `Default::default` (MIR of crypto/bls12_381/mod.rs), with the blst calls
answered by contract: a point is either the identity or an opaque valid point; `sig_validate(bytes, infcheck)` / `from_bytes` map the
canonical encoding of the identity to the identity — refusing it iff `infcheck` —, `to_bytes` / `compress` map it back;
`AggregateSignature::from_signature` / `to_signature` preserve the point. Obligation: decode(encode(default())) = Ok(x) with
encode(x) = encode(default()). The same for `Signature` is NOT demanded (an individual signature is never the identity)."""
import time
import z3
from mirsym.core import (Exec, explore, solve, Num, Agg, Ref, Cell, Opaque, Unmodelled, BoundExceeded, UNIT)
from mirsym import env, models as M
from mirsym.models import some, none, ok, err, BoxV, VecV, deref_all
from props.c11 import panic_key
import framework as F

CR = 'zksync_consensus_crypto'
B = r'zksync_consensus_crypto::bls12_381::'


class Pt:
    def __init__(self, kind): self.kind = kind
    def py_clone(self, ex): return self
    def __repr__(self): return f'Pt<{self.kind}>'


def is_inf_bytes(v):
    v = deref_all(v)
    items = getattr(v, 'items', None)
    if items is None or len(items) not in (48, 96): return None
    try:
        vals = [x.e for x in items]
    except Exception:
        return None
    if not all(isinstance(x, int) for x in vals): return None
    return vals[0] == 0xc0 and all(x == 0 for x in vals[1:])


def run(rep, db, tier):
    name = 'the identity aggregate signature (empty certificate) survives encode -> decode'
    t0 = time.time()
    ex = Exec(db, loop_bound=200)
    env.install(ex)
    n_before = len(ex.user_models)
    log = []
    nbytes = [48]
    inf_bytes = lambda: VecV([Num(0xc0, 8)] + [Num(0, 8) for _ in range(nbytes[0] - 1)], 'array')

    def validate(e, n, a):
        inf = is_inf_bytes(a[0])
        chk = a[1] if len(a) > 1 else False
        if inf is not None: nbytes[0] = len(deref_all(a[0]).items)
        if inf is None: raise Unmodelled(f'sig_validate on non-constant bytes: {deref_all(a[0])!r}'[:300])
        if inf:
            c = e.branch(chk) if not isinstance(chk, bool) else chk
            log.append(('validate', 'identity', bool(c)))
            return err(Opaque('BLST_PK_IS_INFINITY')) if c else ok(Pt('identity'))
        return ok(Pt('other'))
    ex.model(r'blst::min_(pk|sig)::Signature::sig_validate', validate)
    ex.model(r'blst::min_(pk|sig)::Signature::(from_bytes|uncompress|deserialize)', lambda e, n, a: validate(e, n, [a[0], False]))
    def to_bytes(e, n, a):
        p = deref_all(a[0])
        if isinstance(p, Pt) and p.kind == 'identity': return inf_bytes()
        raise Unmodelled('encoding of a non-identity point')
    ex.model(r'blst::min_(pk|sig)::Signature::(to_bytes|compress)', to_bytes)
    ex.model(r'blst::min_(pk|sig)::AggregateSignature::from_signature', lambda e, n, a: deref_all(a[0]))
    ex.model(r'blst::min_(pk|sig)::AggregateSignature::to_signature', lambda e, n, a: deref_all(a[0]))
    mine = ex.user_models[n_before:]; del ex.user_models[n_before:]; ex.user_models[0:0] = mine; ex._um_cache = {}
    try:
        k_def = db.find_one(r'<' + B + r'AggregateSignature as std::default::Default>::default', kinds=('fn',))
        k_enc = db.find_one(r'<' + B + r'AggregateSignature as zksync_consensus_crypto::fmt::ByteFmt>::encode|<' + B + r'AggregateSignature as zksync_consensus_crypto::ByteFmt>::encode', kinds=('fn',))
        k_dec = db.find_one(r'<' + B + r'AggregateSignature as zksync_consensus_crypto::fmt::ByteFmt>::decode|<' + B + r'AggregateSignature as zksync_consensus_crypto::ByteFmt>::decode', kinds=('fn',))
    except KeyError as u:
        rep.add(F.Obligation(name, 'inconclusive', str(u)[:500])); return

    def body(ex):
        d = ex.call_key(k_def, [])
        enc = ex.call_key(k_enc, [Ref(Cell(d))])
        r = ex.call_key(k_dec, [Ref(Cell(enc))])
        if r.variant != 0: return 'refused', None
        enc2 = ex.call_key(k_enc, [Ref(Cell(r.fields[0]))])
        return 'ok', (is_inf_bytes(enc), is_inf_bytes(enc2))
    try:
        res = explore(ex, body, budget_s=120)
    except (Unmodelled, BoundExceeded, KeyError) as u:
        rep.absorb_stats(ex.stats); rep.add(F.Obligation(name, 'inconclusive', f'{type(u).__name__}: {u}'[:700])); return
    rep.absorb_stats(ex.stats)
    viol = {}
    for kind, val, pc, _ in res:
        if kind == 'panic':
            viol.setdefault('bls:identity-panic', f'building, encoding or decoding the identity aggregate signature panics: {val[0]} at {val[1]}'); continue
        rep.nontrivial += 1
        status, info = val
        if status == 'refused':
            viol.setdefault('bls:identity-not-decodable', 'the encoding of the identity aggregate signature — what every empty certificate (CommitQC::new / TimeoutQC::new) carries — is refused by decode: such a value can be written but not read back')
        elif info != (True, True):
            viol.setdefault('bls:identity-changed', 'the identity aggregate signature does not re-encode to the same bytes after a decode')
    for k, text in viol.items():
        rep.violation(F.Violation(rep.prop, k, text, None, None))
    rep.add(F.Obligation(name, 'violated' if viol else 'discharged', paths=len(res), wall_s=round(time.time() - t0, 1)))
