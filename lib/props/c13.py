"""C13 — the encrypted transport delivers exactly the bytes written, or fails (engine K; bounded claim).

Decided by Kani/CBMC on the REAL source files:
 (1) noise/bytes.rs (path-included): representation invariant begin <= end <= cap of the frame/payload Buffer and the
     contract of every operation the stream uses, from EVERY buffer state of capacity 8 with symbolic contents;
 (2) noise/stream.rs (kani/noisestream): the poll_read / poll_write / poll_flush / poll_shutdown state machine itself,
     compiled from the real file with ONE textual substitution made by build.rs on every build — MAX_TRANSPORT_MSG_LEN
     65535 -> 20 (payload chunk 4 bytes, frame 22 bytes; the build fails if the constant is not found exactly once with
     the value 65535) — against an ideal-cipher model of snow (ciphertext = masked plaintext + 16 tag bytes bound to a
     per-direction nonce; a wrong tag / short message is an error) and a nondeterministic transport that returns
     Pending, accepts partial writes and delivers short reads within stated budgets. Harnesses: what is written and
     flushed/shut down appears on the wire exactly once, frame by frame, with no byte re-sent after a partial write or a
     Pending; two back-to-back frames are delivered completely and in order before any EOF, also when split over reads;
     small reads; an arbitrary (tampered) wire never panics and delivers only the body of a genuine first frame; an
     end-to-end write/flush/read round trip; the handshake functions return the fresh state the harnesses start from.
NOT decided: the real cipher (AEAD property of snow), frames of real size / long streams (scaling), more than two
frames per harness, the handshake I/O, MeteredStream.
"""
from props import kani_part
NEEDS_MIR = False
PROP = 'C13'


def run(rep, db, tier, seed):
    rep.assumptions += ['snow is replaced by an ideal cipher model (tag bound to the nonce; body integrity of the real AEAD is not modelled)',
                        'MAX_TRANSPORT_MSG_LEN is scaled 65535 -> 20 by build.rs (single checked substitution); behaviour that depends on the real sizes is outside',
                        'the write-side mock assumes a frame is first offered to the transport as a whole (true for this implementation)']
    rep.bounds = dict(buffer_capacity=8, contents='symbolic bytes', stream='<= 3 writer operations, <= 2 frames on the wire, <= 5 reads, Pending / partial-transfer budgets 0..2 per harness (see kani/harnesses.json), frame size scaled to 22 bytes')
    kani_part.run(rep, PROP, tier, max_parallel=4)
    rep.extra['explanation'] = 'Kani proofs on the real bytes.rs (buffer contracts) and on the real stream.rs state machine with scaled frame size, ideal cipher and nondeterministic back-pressure'
