"""C13 — the encrypted transport delivers exactly the bytes written, or fails (engine K; PARTIAL claim).

Decided (Kani on the real network/src/noise/bytes.rs, path-included): the representation invariant begin <= end <= cap
of the frame/payload Buffer and the contracts of every operation the stream code uses (push, extend, take, prefix,
set_prefix, shift, reset, as_mut_capacity) from EVERY reachable buffer state of capacity 8 with symbolic contents:
no out-of-bounds access under the callers' preconditions, exactly the claimed bytes move; the read-path frame
consumption step; and the frame-size constants of stream.rs (payload chunk <= 65535 - 16, frame <= 65535 + 2).
NOT decided: the poll_read / poll_write state machines of noise/stream.rs themselves (they need snow and tokio; the
file cannot be compiled into a Kani harness), the cipher, long streams, tampering detection (AEAD property of snow).
"""
from props import kani_part
NEEDS_MIR = False
PROP = 'C13'


def run(rep, db, tier, seed):
    rep.assumptions += ['only the buffer arithmetic under noise::Stream is decided; ordering / no-loss / tamper detection of the stream state machine rest on snow (ChaChaPoly AEAD) and are outside this claim']
    rep.bounds = dict(buffer_capacity=8, contents='symbolic bytes', states='every begin <= end <= capacity reached through the real API')
    kani_part.run(rep, PROP, tier, max_parallel=4)
    rep.extra['explanation'] = 'Kani proofs of the Buffer contracts used by the noise stream on the real source file; the stream state machine itself is outside'
