"""C01 — agreement, decided only through its LOCAL obligations (engine M).

The statement quantifies over multi-node schedules, Byzantine behaviours and crash points; no bounded encoding of the
real replicas reaches that. What IS decided here, for all inputs of one step of the real handler code, is every local
obligation the pen-and-paper agreement argument of ChonkyBFT rests on:
 - vote discipline (one commit vote per view, none after timing out, (view, phase) monotone) and persist-before-send,
   restart restores the durable state            [obligations shared with C03];
 - the replica votes only for proposals justified by an accepted certificate, reports its last commit vote as high
   vote, adopts only verified certificates, never lowers them                               [shared with C02 / C05];
 - finalisation: the only block a replica stores for a commit certificate is the cached payload with exactly the
   certified (number, payload hash), carrying that certificate (save_block)                          [this module].
The companions that complete the argument are separate checks: C02 (re-proposal rule lemmas), C04 (a certificate
verifies iff a genuine quorum signed), C07 (quorum intersection arithmetic), C08 (the store accepts only the next
block with a valid certificate and never replaces a stored block), C11 (one leader per view).
NOT decided: the induction combining them over runs of several nodes (paper argument), and anything about liveness."""
from mirsym.core import Unmodelled
from mirsym import models as M, env
from props import replica_checks as RC
import framework as F

PROP = 'C01'


def run(rep, db, tier, seed):
    rep.engines.append('mirsym (MIR symbolic execution of the handler coroutines + z3)')
    rep.trusted += M.TRUSTED + env.TRUSTED + ['certificate verification summarised by its contract (decided in C04)', 'EngineManager futures answered by contract; signing ideal; clock opaque',
                                               'the composition of the local obligations into agreement over multi-node runs is the protocol\'s paper proof, not mechanised here']
    rep.assumptions += ['reachable-state invariant assumed for the pre-state (see C03)', 'at most f weight is Byzantine: used only by the paper argument, not by any obligation here']
    rep.bounds = dict(steps=1, committee='N = 2 (quick), 2..3 (thorough), symbolic weights', caches='<= 1 entry', proposal_cache='<= 2 block numbers x <= 2 payloads (save_block)')
    RC.run_all(rep, db, tier, ('C02', 'C03', 'C05'))
    # restart: nothing durable is lost (view / phase / high vote / certificates / cached proposals come back) — a replica that
    # forgets a cached proposal on restart can no longer build the block its vote helped to certify
    try:
        from props import replica_start
        replica_start.run(rep, db, tier)
    except Exception as u:
        rep.add(F.Obligation('restart restores the durable snapshot (StateMachine::start)', 'inconclusive', f'{type(u).__name__}: {u}'[:600]))
    try:
        from props import replica_block
        replica_block.run(rep, db, tier)
    except Unmodelled as u:
        rep.add(F.Obligation('save_block: only the certified payload is finalised', 'inconclusive', str(u)[:600]))
    rep.extra['explanation'] = 'local safety obligations of the agreement argument on the real handler MIR (one step, all symbolic states/inputs within the bound); the global statement itself is not decided'
