"""C15 — rate and concurrency limits (engine M step lemmas; Kani bounded run in the thorough tier).

Real MIR executed: limiter::State::advance, <Permit as Drop>::drop (+ its send_modify closure), Limiter::acquire
(coroutine + closures), usize_or_max. From an ARBITRARY limiter state satisfying the documented invariant
0 <= reserved <= permits <= burst, refresh > 0, ticks >= 0:
 L1  advance / drop / acquire preserve the invariant and reach no arithmetic panic;
 L2  advance(t): ticks never move backwards; permits grow by at most the elapsed ticks and never above burst;
     reserved untouched. drop(p) (p <= reserved): free permits (permits - reserved) change only through the advance;
 L3  every path of acquire that returns Canceled (lock, wait, sleep cancelled; or burst < permits) leaves the state
     unchanged — a cancelled wait consumes nothing (drop glue of a Permit constructed on the path is executed);
 L4  burst < permits never grants; refresh <= 0 grants a zero permit without touching the state;
 L5  a grant of p: reserved' = reserved + p, permits' >= reserved', i.e. p free permits exist at tick `need`, and the
     sleep (if need > 0) is requested for the deadline derived from `need`; the state is written only after the sleep.
The clock is abstract: ticks(now) = elapsed / refresh is an arbitrary non-negative value (uninterpreted division).
The window bound b + T/r + 1 follows from L2 + L5 by telescoping (paper argument, stated as an assumption); the Kani
harness `limiter::window_bound_2steps` asserts it directly for 2 acquire/drop steps (thorough tier).
"""
import time
import z3
from mirsym.core import (Exec, explore, solve, Num, Agg, Ref, Cell, Opaque, Panic, Unmodelled, num_cmp, to_z3_bool, UNIT)
from mirsym import env, models as M
from mirsym.models import some, none, ok, err, ready, pending, BoxV, deref_all
from mirsym.mk import Mk, fld
from framework import Obligation, Violation
from props import coro
from props.coro import EnvFuture, CANCELED, WatchReceiver
from props.c11 import panic_key

PROP = 'C15'
CC = 'zksync_concurrency'
L = r'zksync_concurrency::limiter::'


def install(ex, log):
    env.install(ex); coro.install_futures(ex)
    ex.drop_types = [r'limiter::Permit']
    ex.model(r'std::sync::Mutex::<.*>::lock', lambda e, n, a: ok(Ref(Cell(deref_all(a[0])))))
    ex.model(r'<std::sync::MutexGuard<.*> as std::ops::Deref(Mut)?>::deref(_mut)?', lambda e, n, a: a[0].get() if isinstance(a[0].get(), Ref) else a[0])
    ex.model(r'std::result::Result::<std::sync::MutexGuard<.*>, .*>::unwrap', lambda e, n, a: a[0].fields[0])

    def send_modify(e, n, a):
        wv = deref_all(a[0])
        r = e.call_closure(a[1], [Ref(wv.cell)])
        log().append(('state_write',))
        return r if 'send_if_modified' in n else UNIT
    ex.model(r'(tokio|zksync_concurrency)::sync::watch::Sender::<.*>::(send_modify|send_if_modified)(::<.*>)?', send_modify)

    def lock(e, n, a):
        mtx = deref_all(a[1])
        def respond(e2):
            if e2.choose(2, 'lock_canceled') == 0: log().append(('cancel', 'lock')); return ready(err(CANCELED))
            return ready(ok(mtx))
        return EnvFuture('lock', respond)
    ex.model_path('zksync_concurrency::sync::lock', lock)
    ex.model(r'zksync_concurrency::sync::LocalMutexGuard::<.*>::into_async', lambda e, n, a: a[0])
    ex.model(r'<(tokio|zksync_concurrency)::sync::(Owned)?MutexGuard<.*> as std::ops::Deref(Mut)?>::deref(_mut)?', lambda e, n, a: a[0])

    def sleep(e, n, a):
        def respond(e2):
            log().append(('sleep', a[2] if len(a) > 2 else None))
            if e2.choose(2, 'sleep_canceled') == 0: log().append(('cancel', 'sleep')); return ready(err(CANCELED))
            hook = getattr(e2, 'during_sleep', None)
            if hook is not None: hook(e2)
            return ready(ok(UNIT))
        return EnvFuture('sleep', respond)
    ex.model_path('zksync_concurrency::ctx::Ctx::sleep_until_deadline', sleep)
    ex.model_path('zksync_concurrency::ctx::Ctx::canceled', lambda e, n, a: EnvFuture('canceled', lambda e2: (log().append(('cancel', 'ctx')), ready(UNIT))[1]))
    ex.model_path('zksync_concurrency::limiter::duration_or_max', lambda e, n, a: Opaque(('duration_of', a[0])))
    ex.model(r'(core|std)::num::<impl i128>::saturating_mul', lambda e, n, a: Opaque(('nanos', a[0], a[1])) if not (a[0].concrete and a[1].concrete) else NotImplemented)
    ex.model(r'time::(instant::)?Instant::checked_add', lambda e, n, a: some(Opaque(('deadline', a[1]))) if e.choose(2, 'deadline_finite') == 0 else none())
    ex.model_path('zksync_concurrency::ctx::Ctx::now', lambda e, n, a: Opaque('now'))
    ex.model(r'<time::(instant::)?Instant as std::ops::Sub(<.*>)?>::sub', lambda e, n, a: Opaque('elapsed'))

    def whole_nanos(e, n, a):
        v = e.fresh('elapsed_nanos', 128, True); e.assume(v.e >= 0); return v
    ex.model(r'time::(duration::)?Duration::whole_nanoseconds', whole_nanos)


def sym_state(ex, mk):
    T = ex.fresh('ticks', 128, True); P = ex.fresh('permits'); R = ex.fresh('reserved'); B = ex.fresh('burst'); rf = ex.fresh('refresh', 128, True)
    ex.assume(z3.And(T.e >= 0, T.e < 2 ** 100, R.e <= P.e, P.e <= B.e))
    st = mk.adt(L + 'State', refresh_ticks=T, permits=P, reserved=R)
    watch = M.WatchV(st)
    lim = mk.adt(L + 'Limiter', start=Opaque('start'), refresh=rf, burst=B, state=BoxV(watch), acquire=BoxV(WatchReceiver(watch)))
    return dict(T=T, P=P, R=R, B=B, rf=rf, watch=watch, lim=lim)


def post_state(s):
    st = s['watch'].cell.v
    return fld(st, 'refresh_ticks'), fld(st, 'permits'), fld(st, 'reserved')


def check_advance(rep, db):
    ex = Exec(db, loop_bound=10); cur = [[]]
    install(ex, lambda: cur[0]); mk = Mk(db, CC)

    def body(ex):
        cur[0] = []
        s = sym_state(ex, mk)
        t = ex.fresh('t', 128, True); ex.assume(z3.And(t.e >= 0, t.e < 2 ** 100))
        ex.call_by_name(L + 'State::advance', [Ref(s['watch'].cell), t, Ref(Cell(s['lim']))])
        return s, t
    res = explore(ex, body); rep.absorb_stats(ex.stats)
    viol = []
    for kind, val, pc, log in res:
        if kind == 'panic':
            st, m = solve(pc, None)
            if st == 'sat': viol.append((panic_key(val), f'State::advance panics: {val[0]} at {val[1]}', m))
            continue
        s, t = val; rep.nontrivial += 1
        T2, P2, R2 = post_state(s)
        T, P, R, B = s['T'].e, s['P'].e, s['R'].e, s['B'].e
        dt = z3.If(t.e > T, t.e - T, 0)
        good = z3.And(T2.e >= T, T2.e == z3.If(t.e >= T, t.e, T), R2.e == R, P2.e >= P, P2.e <= P + dt, P2.e <= B, R2.e <= P2.e,
                      P2.e == z3.If(t.e >= T, z3.If(P + dt <= B, P + dt, B), P))
        st, m = solve(pc, z3.Not(good))
        if st == 'sat': viol.append(('advance', 'State::advance: ticks move backwards, or permits change by something other than min(permits + elapsed ticks, burst)', m))
        elif st != 'unsat': raise Unmodelled('solver unknown')
    return viol, len(res)


def check_drop(rep, db):
    ex = Exec(db, loop_bound=10); cur = [[]]
    install(ex, lambda: cur[0]); mk = Mk(db, CC)

    def body(ex):
        cur[0] = []
        s = sym_state(ex, mk); ex.assume(s['rf'].e > 0)
        p = ex.fresh('p'); ex.assume(p.e <= s['R'].e)        # a live permit was counted in `reserved` when it was granted
        permit = mk.adt(L + 'Permit', permits=p, limiter=Ref(Cell(s['lim'])), ctx=Ref(Cell(Opaque('ctx'))))
        ex.call_by_name(r'<zksync_concurrency::limiter::Permit<\'_> as std::ops::Drop>::drop', [Ref(Cell(permit))])
        return s, p
    res = explore(ex, body); rep.absorb_stats(ex.stats)
    viol = []
    for kind, val, pc, log in res:
        if kind == 'panic':
            st, m = solve(pc, None)
            if st == 'sat': viol.append((panic_key(val), f'Permit::drop panics: {val[0]} at {val[1]}', m))
            continue
        s, p = val; rep.nontrivial += 1
        T2, P2, R2 = post_state(s)
        T, P, R, B = s['T'].e, s['P'].e, s['R'].e, s['B'].e
        good = z3.And(R2.e <= P2.e, P2.e <= B, z3.If(p.e == 0, z3.And(T2.e == T, P2.e == P, R2.e == R),
                      z3.And(R2.e == R - p.e, T2.e >= T, P2.e + p.e >= P, P2.e + p.e <= B, z3.Implies(T2.e == T, P2.e + p.e == P), P2.e + p.e - P <= T2.e - T)))
        st, m = solve(pc, z3.Not(good))
        if st == 'sat': viol.append(('drop', 'Permit::drop: invariant broken, ticks moved backwards, or the consumed permits are not exactly the permit\'s', m))
        elif st != 'unsat': raise Unmodelled('solver unknown')
    return viol, len(res)


def check_acquire(rep, db):
    ex = Exec(db, loop_bound=10); cur = [[]]
    install(ex, lambda: cur[0]); mk = Mk(db, CC)
    key = db.find_one(L + 'Limiter::acquire', kinds=('fn',))

    def body(ex):
        cur[0] = []
        s = sym_state(ex, mk)
        p = ex.fresh('p')
        s['mid'] = None

        def during_sleep(e2):
            # bounded interference: while this acquire sleeps (it holds the acquire mutex, so no other acquire runs), ONE holder of an
            # earlier permit drops it — the real Permit::drop, at some instant before the wake-up
            if e2.choose(2, 'drop_during_sleep') == 1: return
            T0, P0, R0 = post_state(s)
            q = e2.fresh('dropped_permits'); e2.assume(z3.And(q.e >= 1, q.e <= R0.e))
            permit = mk.adt(L + 'Permit', permits=q, limiter=Ref(Cell(s['lim'])), ctx=Ref(Cell(Opaque('ctx'))))
            e2.call_by_name(r'<zksync_concurrency::limiter::Permit<\'_> as std::ops::Drop>::drop', [Ref(Cell(permit))])
            s['mid'] = post_state(s)
            cur[0].append(('interference',))
        ex.during_sleep = during_sleep
        r = coro.run_async(ex, key, [Ref(Cell(s['lim'])), Ref(Cell(Opaque('ctx'))), p])
        return s, p, r, list(cur[0])
    res = explore(ex, body, budget_s=600); rep.absorb_stats(ex.stats)
    viol = []; outcomes = {}
    for kind, val, pc, log in res:
        if kind == 'panic':
            st, m = solve(pc, None)
            if st == 'sat': viol.append((panic_key(val), f'Limiter::acquire panics: {val[0]} at {val[1]}', m))
            continue
        s, p, r, lg = val; rep.nontrivial += 1
        T2, P2, R2 = post_state(s)
        T, P, R, B, rf = s['T'].e, s['P'].e, s['R'].e, s['B'].e, s['rf'].e
        evs = tuple(e[0] + (':' + e[1] if e[0] == 'cancel' else '') for e in lg)
        if r == 'pending':
            outcomes[('pending', evs)] = outcomes.get(('pending', evs), 0) + 1
            good = z3.And(T2.e == T, P2.e == P, R2.e == R)
            key_ = 'acquire-pending-changes-state'; text = 'a pending acquire modified the limiter state'
        elif r.variant == 1:
            outcomes[('canceled', evs)] = outcomes.get(('canceled', evs), 0) + 1
            good = z3.And(T2.e == T, P2.e == P, R2.e == R)
            key_ = 'acquire-cancel-consumes'; text = f'a cancelled acquire (events {evs}) changed the limiter state: a cancelled wait must consume nothing'
        else:
            outcomes[('granted', evs)] = outcomes.get(('granted', evs), 0) + 1
            perm = r.fields[0]; got = fld(perm, 'permits')
            need = T + z3.If(R + p.e > P, R + p.e - P, 0)
            slept = any(e[0] == 'sleep' for e in lg)
            order_ok = True
            if slept:
                order_ok = [e[0] for e in lg].index('sleep') < ([e[0] for e in lg].index('state_write') if 'state_write' in [e[0] for e in lg] else 10 ** 6)
            unlimited = z3.And(rf <= 0, got.e == 0, T2.e == T, P2.e == P, R2.e == R)
            # the state the post-sleep step starts from: the pre-state, or — if another holder dropped its permit during the
            # sleep — the state that drop left (the drop itself is decided by the drop lemma); the drop happened before the wake-up
            Tm, Pm, Rm = (s['mid'][0].e, s['mid'][1].e, s['mid'][2].e) if s.get('mid') else (T, P, R)
            extra_assume = (Tm <= need) if s.get('mid') else z3.BoolVal(True)
            grant = z3.And(rf > 0, p.e <= B, got.e == p.e, R2.e == Rm + p.e, R2.e <= P2.e, P2.e <= B, T2.e >= Tm, T2.e == z3.If(need >= Tm, need, Tm),
                           P2.e == z3.If(need >= Tm, z3.If(Pm + (need - Tm) <= B, Pm + (need - Tm), B), Pm),
                           z3.BoolVal(slept) == (need > 0), z3.BoolVal(bool(order_ok)))
            good = z3.Or(unlimited, grant, z3.Not(extra_assume))
            key_ = 'acquire-grant'; text = f'a granted acquire (events {evs}) does not reserve exactly the requested permits out of refreshed ones, writes the state before sleeping, or grants above burst'
        st, m = solve(pc, z3.Not(good))
        if st == 'sat': viol.append((key_, text, m))
        elif st != 'unsat': raise Unmodelled('solver unknown')
    rep.samples.append(f'Limiter::acquire: outcomes {sorted(((v, k[0], list(k[1])) for k, v in outcomes.items()), reverse=True)[:8]}')
    return viol, len(res)


def witness(m):
    if m is None: return ''
    return 'witness: ' + ', '.join(f'{d.name()}={m[d]}' for d in sorted(m.decls(), key=lambda d: d.name()) if d.arity() == 0 and '!' not in d.name())[:500]


def run(rep, db, tier, seed):
    rep.engines.append('mirsym (MIR symbolic execution + z3)')
    rep.trusted += M.TRUSTED + env.TRUSTED + ['clock abstract: elapsed nanoseconds is an arbitrary non-negative i128 and elapsed / refresh an uninterpreted quotient with 0 <= q <= elapsed',
                                               'awaited futures by contract: lock / wait_for / sleep_until_deadline return Ok only per their contract or Canceled; std::sync::Mutex never poisoned',
                                               'duration_or_max and the nanosecond product are opaque (decided by the Kani limiter harness)']
    rep.assumptions += ['the window bound grants(T) <= burst + T/refresh + 1 follows from L2 + L5 by telescoping plus floor arithmetic — paper argument', 'fairness of the tokio mutex (FIFO) is assumed as documented; the per-connection RPC consequence is not executed']
    rep.bounds = dict(steps=1, state='arbitrary with 0 <= reserved <= permits <= burst, ticks in [0, 2^100)', permits_requested='symbolic usize')
    seen = {}
    for name, fn in (('L1/L2 State::advance', check_advance), ('L1/L2 Permit::drop', check_drop), ('L1/L3/L4/L5 Limiter::acquire', check_acquire)):
        t0 = time.time()
        try:
            viol, n = fn(rep, db)
            for key, text, m in viol:
                if key in seen: continue
                seen[key] = 1
                rep.violation(Violation(PROP, key, text + ' | ' + witness(m), None, None))
            rep.add(Obligation(name, 'violated' if viol else 'discharged', paths=n, wall_s=round(time.time() - t0, 1)))
        except Unmodelled as u:
            rep.add(Obligation(name, 'inconclusive', str(u)[:600]))
    if tier == 'thorough':
        from props import kani_part
        kani_part.run(rep, PROP, tier)
    # the per-connection consequence: one limiter permit per OPEN of a transient stream, held until the stream is handed over
    try:
        from props import c14_reusable
        c14_reusable.run(rep, db, tier)
    except Exception as u:
        rep.add(Obligation('ReusableStream::run', 'inconclusive', f'{type(u).__name__}: {u}'[:600]))
    try:
        from props import c15_server
        c15_server.run(rep, db, tier)
    except Exception as u:
        rep.add(Obligation('RPC server loop', 'inconclusive', f'{type(u).__name__}: {u}'[:600]))
    rep.extra['explanation'] = 'inductive step lemmas of the token bucket on the real MIR (advance, drop, acquire coroutine) for all symbolic states; window bound by telescoping (assumption) and by a bounded Kani run (thorough)'
