"""C03 — the durable-write path below the replica: `EngineManager::set_state` and `EngineManager::get_state` (coroutines,
engine/src/manager.rs) executed on their real MIR with the `dyn EngineInterface` answered by contract.

The replica obligations (persist-before-send, restart restores the backup) treat `EngineManager::set_state` as THE durable
write. That is only true if the manager forwards every state it is given to the execution layer, unchanged, and reports
the interface's failure. Obligations:
 - `set_state(s)`: `EngineInterface::set_state` is called exactly once, with exactly `s` (whatever the manager's own fields
   hold — arbitrary symbolic manager state, so a cache / fingerprint deciding to skip the write is exposed); Ok is returned
   only if the interface returned Ok; an interface error is returned as an error;
 - `get_state()`: the value returned is the one the interface returned (restart restores what was written)."""
import time
import z3
from mirsym.core import (Exec, explore, solve, Num, Agg, Ref, Cell, Opaque, Unmodelled, BoundExceeded, UNIT)
from mirsym import env, models as M, symgen
from mirsym.models import some, none, ok, err, ready, pending, BoxV, deref_all, values_equal
from mirsym.mk import Mk
from props import coro, c09
from props.coro import EnvFuture, CANCELED
from props.c11 import panic_key
from props.c19_runner import LazyStruct
import framework as F

ENG = 'zksync_consensus_engine'


def run(rep, db, tier):
    name = 'EngineManager::set_state / get_state: every replica state is forwarded to the execution layer unchanged'
    t0 = time.time()
    ex = Exec(db, loop_bound=8)
    env.install(ex); env.install_ideal_crypto(ex); coro.install_futures(ex)
    n_before = len(ex.user_models)
    cur = [None]
    log = lambda: cur[0]['log']

    def if_set(e, n, a):
        st = a[2] if len(a) > 2 else None
        def respond(e2):
            log().append(('interface.set_state', st))
            c = e2.choose(2, 'interface_set_state')
            if c == 0: return ready(err(M.LazyEnum(e2, cur[0]['err_t'], ['Internal', 'Canceled'], 'set_state_error_kind')))
            return ready(ok(UNIT))
        return coro.pin(BoxV(EnvFuture('EngineInterface::set_state', respond)))
    ex.model(r'<dyn zksync_consensus_engine::(interface::)?EngineInterface as zksync_consensus_engine::(interface::)?EngineInterface>::set_state(::<.*>)?|zksync_consensus_engine::(interface::)?EngineInterface::set_state(::<.*>)?', if_set)

    def if_get(e, n, a):
        def respond(e2):
            log().append(('interface.get_state',))
            if e2.choose(2, 'interface_get_state') == 0: return ready(err(M.LazyEnum(e2, cur[0]['err_t'], ['Internal', 'Canceled'], 'get_state_error_kind')))
            return ready(ok(cur[0]['stored']))
        return coro.pin(BoxV(EnvFuture('EngineInterface::get_state', respond)))
    ex.model(r'<dyn zksync_consensus_engine::(interface::)?EngineInterface as zksync_consensus_engine::(interface::)?EngineInterface>::get_state(::<.*>)?|zksync_consensus_engine::(interface::)?EngineInterface::get_state(::<.*>)?', if_get)
    ex.model(r'zksync_consensus_engine::metrics::.*|<.*vise::.*|vise::.*', lambda e, n, a: Opaque('metrics'))
    # a manager that keeps bookkeeping of its own behind a std Mutex (uncontended here)
    def _mutex(v):
        while isinstance(v, Ref): v = v.get()
        if isinstance(v, LazyStruct) or not isinstance(v, BoxV): raise Unmodelled(f'Mutex receiver {v!r}')
        return v
    ex.model(r'std::sync::Mutex::<.*>::(lock|try_lock)', lambda e, n, a: ok(_mutex(a[0])))
    ex.model(r'<std::sync::MutexGuard<.*> as std::ops::Deref(Mut)?>::deref(_mut)?', lambda e, n, a: Ref(_mutex(a[0]).cell))
    mine = ex.user_models[n_before:]; del ex.user_models[n_before:]; ex.user_models[0:0] = mine; ex._um_cache = {}
    mk = Mk(db, ENG)
    try:
        k_set = db.find_one(r'zksync_consensus_engine::manager::EngineManager::set_state', kinds=('fn', 'inst'))
        k_get = db.find_one(r'zksync_consensus_engine::manager::EngineManager::get_state', kinds=('fn', 'inst'))
        mgr_t = mk.ty(r'zksync_consensus_engine::manager::EngineManager')
        rec = db.body(k_set)
        st_t = db.ty(rec['crate'], db.ty(rec['crate'], rec['body']['locals'][3]['ty'])['info']['to'])
        err_t = mk.ty(r'zksync_concurrency::ctx::Error')
    except (KeyError, Unmodelled, IndexError) as u:
        rep.add(F.Obligation(name, 'inconclusive', f'{type(u).__name__}: {u}'[:400])); return
    viol = {}; n = 0; forwarded = 0

    def gen_state(ex, tag):
        g = c09.Gen(ex, db, rec['crate'], max_depth=2, max_len=1, prefix=tag)
        return g.of(st_t, 0, tag)

    def body_set(ex):
        s = dict(log=[], err_t=err_t); cur[0] = s
        mgr = LazyStruct(ex, db, ENG, mgr_t, 'manager')
        state = gen_state(ex, 'state')
        r = coro.run_async(ex, k_set, [Ref(Cell(mgr)), Ref(Cell(Opaque('ctx'))), Ref(Cell(state))])
        return 'set', r, state, list(s['log'])

    def body_get(ex):
        s = dict(log=[], err_t=err_t); cur[0] = s
        s['stored'] = gen_state(ex, 'stored')
        mgr = LazyStruct(ex, db, ENG, mgr_t, 'manager')
        r = coro.run_async(ex, k_get, [Ref(Cell(mgr)), Ref(Cell(Opaque('ctx')))])
        return 'get', r, s['stored'], list(s['log'])
    for body in (body_set, body_get):
        try:
            res = explore(ex, body, budget_s=300)
        except (Unmodelled, BoundExceeded, KeyError) as u:
            rep.absorb_stats(ex.stats); rep.add(F.Obligation(name, 'inconclusive', f'{type(u).__name__}: {u}'[:800])); return
        for kind, val, pc, _ in res:
            n += 1
            if kind == 'panic':
                st, m = solve(pc, None)
                if st == 'sat': viol.setdefault('engine:' + panic_key(val), f'EngineManager state access panics: {val[0]} at {val[1]}')
                continue
            which, r, state, evlog = val
            if r == 'pending': continue
            calls = [e for e in evlog if e[0].startswith('interface.')]
            if which == 'set':
                if len(calls) != 1:
                    viol.setdefault('engine:set_state-not-forwarded', f'EngineManager::set_state returns {"Ok" if r.variant == 0 else "Err"} after {len(calls)} calls of EngineInterface::set_state (expected exactly one): a replica state backup can be skipped (or repeated) by the manager, so a vote may leave the node before the state recording it is durable')
                    continue
                forwarded += 1; rep.nontrivial += 1
                arg = calls[0][1]
                same = values_equal(ex, deref_all(arg), state)
                st, m = solve(pc, z3.Not(same) if not isinstance(same, bool) else z3.BoolVal(not same))
                if st == 'sat': viol.setdefault('engine:set_state-altered', 'EngineManager::set_state hands a state other than the one it was given to the execution layer')
            else:
                if r.variant == 0:
                    forwarded += 1; rep.nontrivial += 1
                    same = values_equal(ex, r.fields[0], state)
                    st, m = solve(pc, z3.Not(same) if not isinstance(same, bool) else z3.BoolVal(not same))
                    if st == 'sat': viol.setdefault('engine:get_state-altered', 'EngineManager::get_state returns a state other than the one the execution layer returned')
                    if len(calls) != 1: viol.setdefault('engine:get_state-not-read', 'EngineManager::get_state returns Ok without reading the state from the execution layer exactly once')
    rep.absorb_stats(ex.stats)
    for k, text in viol.items():
        rep.violation(F.Violation(rep.prop, k, text, None, None, 'EngineManager with an arbitrary manager state and an arbitrary replica state'))
    if forwarded == 0 and not viol:
        rep.add(F.Obligation(name, 'inconclusive', 'no path forwards a state (vacuous)')); return
    rep.add(F.Obligation(name, 'violated' if viol else 'discharged', paths=n, wall_s=round(time.time() - t0, 1)))
    rep.samples.append(f'EngineManager::set_state / get_state: {n} paths')
