"""C12 — life cycle of one connection around the pools: the four real coroutines
  gossip::Network::{run_inbound_stream, run_outbound_stream}, consensus::Network::{run_inbound_stream, run_outbound_stream}
are executed with the handshake, the pool operations and the stream service answered by contract (every outcome of
each). Obligations on the effect log of every path:
 - a stream is served only after its peer was authenticated by the handshake AND admitted by the pool under exactly
   that identity (inbound: the key the handshake returned; outbound: the dialled peer);
 - the pool entry is removed before the function returns, and ONLY an entry this call inserted is removed: a rejected
   insert (duplicate identity, quota full) must not evict the live connection registered under that key;
 - nothing is inserted before the handshake succeeded."""
import time
import z3
from mirsym.core import (Exec, explore, solve, Num, Agg, Ref, Cell, Opaque, Unmodelled, BoundExceeded, UNIT)
from mirsym import env, models as M
from mirsym.models import some, none, ok, err, ready, pending, BoxV, VecV, deref_all, values_equal
from mirsym.mk import Mk, fld
from props import coro
from props.coro import EnvFuture, CANCELED
from props.c11 import panic_key
import framework as F

NET = 'zksync_consensus_network'
FUNCS = {
    'gossip inbound': (r'zksync_consensus_network::gossip::runner::<impl zksync_consensus_network::gossip::Network>::run_inbound_stream', 'gossip', 'in'),
    'gossip outbound': (r'zksync_consensus_network::gossip::runner::<impl zksync_consensus_network::gossip::Network>::run_outbound_stream', 'gossip', 'out'),
    'consensus inbound': (r'zksync_consensus_network::consensus::Network::run_inbound_stream', 'consensus', 'in'),
    'consensus outbound': (r'zksync_consensus_network::consensus::Network::run_outbound_stream', 'consensus', 'out'),
}


class Key:
    def __init__(self, tag): self.tag = tag
    def py_clone(self, ex): return self
    def py_eq(self, ex, o): return isinstance(o, Key) and o.tag == self.tag
    def __repr__(self): return f'key<{self.tag}>'


def key_of(v):
    v = deref_all(v)
    while isinstance(v, M.BoxV): v = deref_all(v.cell.v)
    return v


def check(rep, db, label):
    pat, net, side = FUNCS[label]
    ex = Exec(db, loop_bound=8)
    env.install(ex); env.install_ideal_crypto(ex); coro.install_futures(ex)
    n_before = len(ex.user_models)
    cur = [None]
    mk = Mk(db, NET)
    log = lambda: cur[0]['log']

    def fail_or(e2, label_, okv):
        return ready(okv) if e2.choose(2, label_ + '_fails') else ready(err(Opaque(label_ + ' error')))

    # ---- handshake: authenticates the peer or fails
    def hs_in(e, n, a):
        def respond(e2):
            if e2.choose(2, 'handshake_fails') == 0: log().append(('handshake_err',)); return ready(err(Opaque('handshake error')))
            k = Key('peer'); log().append(('handshake_ok', k))
            if net == 'gossip':
                t = mk.ty(r'zksync_consensus_network::gossip::Connection')
                vals = [k if f['name'] == 'key' else Opaque('conn_' + f['name']) for f in t['info']['variants'][0]['fields']]
                return ready(ok(BoxV(Agg('adt', t, 0, vals))))
            return ready(ok(k))
        return EnvFuture('handshake', respond)

    def hs_out(e, n, a):
        peer = key_of(a[-1])
        def respond(e2):
            if e2.choose(2, 'handshake_fails') == 0: log().append(('handshake_err',)); return ready(err(Opaque('handshake error')))
            log().append(('handshake_ok', peer))
            if net == 'gossip':
                t = mk.ty(r'zksync_consensus_network::gossip::handshake::Handshake') if False else None
                return ready(ok(Opaque('outbound handshake result')))
            return ready(ok(UNIT))
        return EnvFuture('handshake', respond)
    ex.model_path(f'zksync_consensus_network::{net}::handshake::inbound', hs_in)
    ex.model_path(f'zksync_consensus_network::{net}::handshake::outbound', hs_out)

    # ---- pool
    def insert(e, n, a):
        k = key_of(a[1])
        def respond(e2):
            if e2.choose(2, 'insert_rejected') == 0: log().append(('insert_err', k)); return ready(err(Opaque('pool: already exists / limit exceeded')))
            log().append(('insert_ok', k)); return ready(ok(UNIT))
        return EnvFuture('pool.insert', respond)

    def remove(e, n, a):
        k = key_of(a[1])
        def respond(e2):
            log().append(('remove', k)); return ready(True)
        return EnvFuture('pool.remove', respond)
    ex.model(r'zksync_consensus_network::pool::PoolWatch::<.*>::insert', insert)
    ex.model(r'zksync_consensus_network::pool::PoolWatch::<.*>::remove', remove)

    # ---- serving the stream (everything between insert and remove), dialling, resolving
    def serve(e, n, a):
        def respond(e2):
            log().append(('serve',)); return fail_or(e2, 'stream', ok(UNIT).fields[0] if False else UNIT)
        return EnvFuture('serve', respond)
    ex.model_path('zksync_consensus_network::gossip::runner::<impl zksync_consensus_network::gossip::Network>::run_stream', serve)
    ex.model(r'zksync_consensus_network::gossip::runner::<impl .*>::run_stream', serve)
    ex.model(r'zksync_concurrency::scope::Scope::<.*>::new', lambda e, n, a: Opaque('scope'))
    ex.model(r'zksync_concurrency::scope::Scope::<.*>::run(::<.*>)?', serve)

    def connect(e, n, a):
        def respond(e2):
            if e2.choose(2, 'connect_fails') == 0: return ready(err(Opaque('connect error')))
            log().append(('connected',)); return ready(ok(Opaque('stream')))
        return EnvFuture('connect', respond)
    ex.model_path('zksync_consensus_network::preface::connect', connect)

    def resolve(e, n, a):
        def respond(e2):
            c = e2.choose(3, 'resolve')
            if c == 0: return ready(err(CANCELED))
            if c == 1: return ready(ok(err(Opaque('io::Error'))))
            return ready(ok(ok(VecV([Opaque('addr0')]))))
        return EnvFuture('resolve', respond)
    ex.model_path('zksync_concurrency::net::Host::resolve', resolve)
    ex.model(r'<.* as rand::seq::SliceRandom>::choose(::<.*>)?|rand::seq::SliceRandom::choose(::<.*>)?|<\[.*\] as rand::seq::.*>::choose.*', lambda e, n, a: some(Ref(Cell(Opaque('addr0')))) if deref_all(a[0]).items else none())
    ex.model(r'zksync_concurrency::ctx::Ctx::rng', lambda e, n, a: Opaque('rng'))
    ex.model(r'.*::noise::stream::Stream(::<.*>)?::stats|.*MeteredStream.*::stats', lambda e, n, a: Opaque('stats'))
    ex.model(r'zksync_consensus_network::rpc::.*', lambda e, n, a: Opaque('rpc'))
    ex.model(r'.*Network::genesis_hash|.*::genesis_hash', lambda e, n, a: Opaque('genesis_hash'))
    ex.model(r'<.* as tracing::Instrument>::instrument|tracing::Instrument::instrument', lambda e, n, a: a[0])
    ex.model(r'<tracing::instrument::Instrumented<.*> as std::future::IntoFuture>::into_future', lambda e, n, a: a[0])
    ex.model(r'<tracing::instrument::Instrumented<.*> as std::future::Future>::poll', lambda e, n, a: coro.poll_value(e, coro.unpin(a[0])))
    mine = ex.user_models[n_before:]; del ex.user_models[n_before:]
    ex.user_models[0:0] = mine; ex._um_cache = {}
    key = db.find_one(pat, kinds=('fn',))
    rec = db.body(key)
    nargs = rec['body']['arg_count']

    def body(ex):
        s = dict(log=[]); cur[0] = s
        me = Opaque('network (self)')
        args = [Ref(Cell(NetV())), Ref(Cell(Opaque('ctx')))]
        if side == 'in': args.append(Opaque('noise stream'))
        else:
            args.append(Ref(Cell(Key('dialled'))))
            args.append(Opaque('addr') if net == 'consensus' else Opaque('host'))
        if len(args) != nargs: raise Unmodelled(f'{label}: {nargs} arguments expected, harness passes {len(args)}')
        r = coro.run_async(ex, key, args)
        return r, list(s['log'])
    res = explore(ex, body, budget_s=600)
    rep.absorb_stats(ex.stats)
    viol = {}; served = 0
    for kind, val, pc, _ in res:
        if kind == 'panic':
            st, m = solve(pc, None)
            if st == 'sat': viol.setdefault(f'lifecycle:{label}:' + panic_key(val), f'{label}: panics: {val[0]} at {val[1]}')
            continue
        r, log_ = val
        auth = None; inserted = None; removed = []
        for ev in log_:
            if ev[0] == 'handshake_ok': auth = ev[1]
            elif ev[0] in ('insert_ok', 'insert_err'):
                if auth is None: viol.setdefault(f'lifecycle:{label}:insert-before-handshake', f'{label}: a connection is registered in the pool before its handshake succeeded')
                elif not (isinstance(ev[1], Key) and ev[1].tag == auth.tag): viol.setdefault(f'lifecycle:{label}:insert-wrong-identity', f'{label}: the connection is registered under an identity other than the authenticated one')
                if ev[0] == 'insert_ok': inserted = ev[1]
            elif ev[0] == 'serve':
                served += 1
                if inserted is None: viol.setdefault(f'lifecycle:{label}:served-unadmitted', f'{label}: a stream is served although the pool did not admit the connection (handshake failed or insert rejected)')
            elif ev[0] == 'remove':
                removed.append(ev[1])
                if inserted is None or not (isinstance(ev[1], Key) and ev[1].tag == inserted.tag):
                    viol.setdefault(f'lifecycle:{label}:removes-foreign-entry', f'{label}: the pool entry of an identity is removed although this call did not insert it (a rejected duplicate would evict the live connection and free its quota slot)')
        if r != 'pending' and inserted is not None and not removed:
            viol.setdefault(f'lifecycle:{label}:entry-leaked', f'{label}: the function returns without removing the pool entry it inserted')
        if r != 'pending': rep.nontrivial += 1
    if served == 0 and not viol:
        raise Unmodelled(f'{label}: no path serves a stream (vacuous)')
    return viol, len(res)


class NetV:
    """`self`: every field is an opaque handle (pools, config, keys); the functions under test only pass them on"""
    def proj_field(self, a): return NetV()
    def deref(self): return self
    def py_clone(self, ex): return self
    def py_eq(self, ex, o): return False
    def __repr__(self): return 'Network'


def run(rep, db, tier):
    for label in FUNCS:
        t0 = time.time()
        name = f'connection life cycle: {label}'
        try:
            viol, n = check(rep, db, label)
            for k, text in viol.items():
                rep.violation(F.Violation(rep.prop, k, text, None, None, 'effect log of one path of the real coroutine (handshake / pool / service outcomes chosen by the solver-driven exploration)'))
            rep.add(F.Obligation(name, 'violated' if viol else 'discharged', paths=n, wall_s=round(time.time() - t0, 1)))
        except (Unmodelled, BoundExceeded, KeyError) as u:
            rep.add(F.Obligation(name, 'inconclusive', f'{type(u).__name__}: {u}'[:600]))
