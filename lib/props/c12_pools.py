"""C12 — the validator connection pools: `consensus::Network::new` executed on its real MIR with the gossip state by
contract. Obligation: whenever a consensus network is constructed, BOTH pools (inbound and outbound) are created with the
allowed set equal to exactly the committee keys of the validator schedule and a quota of ZERO for other keys."""
import time
import z3
from mirsym.core import (Exec, explore, solve, Num, Agg, Ref, Cell, Opaque, Unmodelled, BoundExceeded, UNIT)
from mirsym import env, models as M
from mirsym.models import some, none, ok, err, BoxV, MapV, deref_all
from mirsym.mk import Mk, fld
from props import coro, c02
from props.c11 import panic_key
from props.c19_runner import LazyStruct
import framework as F

NET = 'zksync_consensus_network'


def run(rep, db, tier):
    name = 'validator pools: committee keys only, zero extra quota (consensus::Network::new)'
    t0 = time.time()
    N = 2
    ex = Exec(db, loop_bound=N + 6); ex.hash_order_insertion = True
    env.install(ex); env.install_ideal_crypto(ex); coro.install_futures(ex)
    n_before = len(ex.user_models)
    cur = [None]
    mk = Mk(db, NET); mkr = Mk(db, 'zksync_consensus_roles')

    def schedule(e, n, a):
        c = e.choose(3, 'validator_schedule')
        if c == 0: return err(Opaque('anyhow::Error'))
        if c == 1: return ok(none())
        ws = [e.fresh(f'w{i}') for i in range(N)]
        for w in ws: e.assume(w.e >= 1)
        sched, _ = c02.mk_schedule(e, mkr, ws)
        return ok(some(sched))
    ex.model(r'zksync_consensus_network::gossip::Network::validator_schedule', schedule)

    def pool_new(e, n, a):
        cur[0]['pools'].append((deref_all(a[0]), a[1])); return Opaque(('pool', len(cur[0]['pools'])))
    ex.model(r'zksync_consensus_network::pool::PoolWatch::<.*>::new', pool_new)
    ex.model(r'zksync_consensus_network::consensus::MsgPool::new', lambda e, n, a: Opaque('msg_pool'))
    mine = ex.user_models[n_before:]; del ex.user_models[n_before:]
    ex.user_models[0:0] = mine; ex._um_cache = {}
    try:
        key = db.find_one(r'zksync_consensus_network::consensus::Network::new', kinds=('fn',))
        gnet_t = mk.ty(r'zksync_consensus_network::gossip::Network')
    except (KeyError, Unmodelled) as u:
        rep.add(F.Obligation(name, 'inconclusive', str(u)[:400])); return

    def body(ex):
        s = dict(pools=[]); cur[0] = s
        g = LazyStruct(ex, db, NET, gnet_t, 'gossip')
        r = ex.call_key(key, [BoxV(g)])
        return r, list(s['pools'])
    try:
        res = explore(ex, body, budget_s=300)
    except (Unmodelled, BoundExceeded, KeyError) as u:
        rep.absorb_stats(ex.stats)
        rep.add(F.Obligation(name, 'inconclusive', f'{type(u).__name__}: {u}'[:600])); return
    rep.absorb_stats(ex.stats)
    viol = {}; built = 0
    for kind, val, pc, _ in res:
        if kind == 'panic':
            st, m = solve(pc, None)
            if st == 'sat': viol.setdefault('pools:' + panic_key(val), f'consensus::Network::new panics: {val[0]} at {val[1]}')
            continue
        r, pools = val
        made = r.variant == 0 and deref_all(r.fields[0]).variant == 1
        if not made:
            continue
        built += 1; rep.nontrivial += 1
        if len(pools) != 2:
            viol.setdefault('pools:count', f'a consensus network is constructed with {len(pools)} pools instead of an inbound and an outbound one'); continue
        for allowed, extra in pools:
            keys = sorted(str(k.tag) for k, c in allowed.entries) if isinstance(allowed, MapV) else None
            if keys != sorted(str(('key', i)) for i in range(N)):
                viol.setdefault('pools:allowed-set', 'a validator pool is created with an allowed set other than exactly the committee keys of the schedule')
            st, m = solve(pc, extra.e != 0)
            if st == 'sat': viol.setdefault('pools:extra-quota', 'a validator pool is created with a non-zero quota for keys outside the committee')
            elif st != 'unsat': raise Unmodelled('solver unknown')
    for k, text in viol.items():
        rep.violation(F.Violation(rep.prop, k, text, None, None, 'consensus::Network::new on a symbolic committee of 2'))
    if built == 0 and not viol:
        rep.add(F.Obligation(name, 'inconclusive', 'no path constructs a consensus network (vacuous)')); return
    rep.add(F.Obligation(name, 'violated' if viol else 'discharged', paths=len(res), wall_s=round(time.time() - t0, 1)))
