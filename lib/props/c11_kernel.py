"""C11 — the hash-reduction kernel of weighted leader selection (`LeaderSelection::leader_weighted_eligibility`) decided EXACTLY for a
set of boundary moduli: the Keccak digest is 32 symbolic bytes (every 256-bit value), the total leader weight W is concrete, and the
result must equal digest mod W (mathematical integers). The main C11 check abstracts `hash mod W` as an arbitrary residue < W, which
covers every implementation that computes the residue through `BigUint`; an implementation that reduces the digest with
machine-word arithmetic of its own is outside that abstraction (the check ends inconclusive) and is decided here instead.
Moduli: 1, 2, 3, 5, 2^31, 2^32 - 1, 2^32, 2^32 + 1, 3 * 2^32 + 7, 2^62 + 1, 2^63, 2^63 + 1, 2^64 - 1."""
import time
import z3
from mirsym.core import (Exec, explore, solve, Num, Agg, Ref, Cell, Opaque, Panic, Unmodelled, BoundExceeded, num_cmp, UNIT)
from mirsym import env, models as M
from mirsym.models import some, none, ok, err, VecV, IterV, deref_all
from props.c11 import panic_key
import framework as F

MODULI = [2 ** 64 - 1, 2 ** 63 + 1, 2 ** 63, 2 ** 62 + 1, 3 * 2 ** 32 + 7, 2 ** 32 + 1, 2 ** 32, 2 ** 32 - 1, 2 ** 31, 5, 3, 2, 1]


class Big:
    def __init__(self, v): self.v = v
    def py_clone(self, ex): return self
    def __repr__(self): return 'BigUint<..>'


def run(rep, db, tier):
    name = 'leader_weighted_eligibility = Keccak digest mod W, exactly, for boundary moduli (digest = 32 symbolic bytes)'
    t0 = time.time()
    ex = Exec(db, loop_bound=40)
    env.install(ex)
    n_before = len(ex.user_models)
    cur = [None]

    def keccak_new(e, n, a):
        bs = [e.fresh(f'h{i}', 8) for i in range(32)]
        cur[0] = bs
        return VecV(list(bs), 'array')
    ex.model(r'zksync_consensus_crypto::keccak256::Keccak256::new', keccak_new)
    ex.model(r'zksync_consensus_crypto::keccak256::Keccak256::as_bytes', lambda e, n, a: a[0])
    def value_of(bs):
        tot = z3.IntVal(0)
        for b in bs: tot = tot * 256 + b.e
        return tot
    ex.model(r'num_bigint::BigUint::from_bytes_be', lambda e, n, a: Big(value_of(deref_all(a[0]).items)))
    ex.model(r'<num_bigint::BigUint as std::convert::From<u64>>::from|.*impl std::convert::From<u64> for num_bigint::BigUint>::from', lambda e, n, a: Big(a[0].e))
    def big_rem(e, n, a):
        x, y = deref_all(a[0]), deref_all(a[1])
        if not isinstance(y.v, int): raise Unmodelled('BigUint remainder by a symbolic modulus')
        if y.v == 0: raise Panic('attempt to divide by zero (BigUint % 0)')
        return Big(x.v % y.v)
    ex.model(r'<num_bigint::BigUint as std::ops::Rem>::rem|.*impl std::ops::Rem(<.*>)? for (&)?num_bigint::BigUint>::rem', big_rem)
    def digits(e, n, a):
        b = deref_all(a[0])
        if isinstance(b.v, int): return VecV([] if b.v == 0 else [Num(b.v, 64)])
        if e.branch(b.v == 0): return VecV([])
        return VecV([Num(b.v, 64)])
    ex.model(r'num_bigint::BigUint::(iter_u64_digits|to_u64_digits)', digits)
    # pieces a word-wise implementation needs
    def chunks_exact(e, n, a):
        v = deref_all(a[0]); k = a[1]
        if not isinstance(v, VecV) or not k.concrete: return NotImplemented
        items = list(v.items); k = k.e
        return IterV(iter([Ref(Cell(VecV(items[i:i + k], 'slice'))) for i in range(0, len(items) - len(items) % k, k)]))
    ex.model(r'(core|std)::slice::<impl \[u8\]>::chunks_exact', chunks_exact)
    def try_into_arr(e, n, a):
        v = deref_all(a[0])
        if not isinstance(v, VecV): return NotImplemented
        m = __import__('re').search(r'\[u8; (\d+)\]', n)
        if m and int(m.group(1)) != len(v.items): return err(Opaque('TryFromSliceError'))
        return ok(VecV(list(v.items), 'array'))
    ex.model(r'<&\[u8\] as std::convert::TryInto<\[u8; \d+\]>>::try_into|<\[u8; \d+\] as std::convert::TryFrom<&\[u8\]>>::try_from|.*TryFrom<&\[u8\]> for \[u8; \d+\]>::try_from', try_into_arr)
    mine = ex.user_models[n_before:]; del ex.user_models[n_before:]; ex.user_models[0:0] = mine; ex._um_cache = {}
    try:
        key = db.find_one(r'zksync_consensus_roles::validator::messages::schedule::LeaderSelection::leader_weighted_eligibility', kinds=('fn',))
    except KeyError as u:
        rep.add(F.Obligation(name, 'inconclusive', str(u)[:400])); return
    viol = {}; npaths = 0; unknown = []
    for W in MODULI:
        def body(ex, W=W):
            turn = ex.fresh('turn', 64)
            r = ex.call_key(key, [turn, Num(W, 64)])
            return r, list(cur[0])
        try:
            res = explore(ex, body, budget_s=120)
        except (Unmodelled, BoundExceeded, KeyError) as u:
            rep.absorb_stats(ex.stats); rep.add(F.Obligation(name, 'inconclusive', f'W={W}: {type(u).__name__}: {u}'[:700])); return
        for kind, val, pc, _ in res:
            npaths += 1
            if kind == 'panic':
                st, m = solve(pc, None)
                if st == 'sat': viol.setdefault('kernel:' + panic_key(val), f'leader_weighted_eligibility panics for total leader weight {W}: {val[0]} at {val[1]}')
                continue
            r, bs = val
            rep.nontrivial += 1
            H = value_of(bs)
            st, m = solve(pc, r.e != H % W, timeout_ms=20000)
            if st == 'sat':
                hv = m.eval(H, model_completion=True).as_long(); got = m.eval(r.e if not isinstance(r.e, int) else z3.IntVal(r.e), model_completion=True).as_long()
                viol.setdefault('kernel:not-hash-mod-weight', f'for total leader weight {W} and Keccak digest 0x{hv:064x} the eligibility value is {got}, not digest mod weight = {hv % W}: the shares of the leaders are no longer proportional to their weights')
            elif st != 'unsat':
                unknown.append(W)
    rep.absorb_stats(ex.stats)
    for k, text in viol.items():
        rep.violation(F.Violation(rep.prop, k, text, None, None))
    if viol:
        rep.add(F.Obligation(name, 'violated', paths=npaths, wall_s=round(time.time() - t0, 1)))
    elif unknown:
        rep.add(F.Obligation(name, 'inconclusive', f'the solver did not decide the moduli {unknown} within 20 s each (a hand-written word-wise reduction that may be correct: nothing is claimed)'))
    else:
        rep.add(F.Obligation(name, 'discharged', paths=npaths, wall_s=round(time.time() - t0, 1)))
