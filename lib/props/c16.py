"""C16 — pending consensus input stays bounded and always keeps the freshest vote (engine M).

Part 1 (queue): the real MIR of `prunable_mpsc::Sender::<ConsensusReq>::send` (with its `send_modify` / `retain`
closures) instantiated with the real `bft::inbound_filter_predicate` and `bft::inbound_selection_function`
(ConsensusMsg::label / view_number, Signed::verify) is executed from an ARBITRARY buffer of <= 2 (quick) / 3 pending
requests satisfying "at most one per (sender, kind)" and an arbitrary new request: sender identities symbolic,
message kind enumerated over the four consensus message kinds, views symbolic u64, signature validity symbolic.
Obligations: the invariant is re-established; an old entry disappears iff the new request is validly signed, of the
same (sender, kind) and of strictly higher view; the new request is appended iff validly signed and no pending entry
of its class has an equal or higher view; survivors keep their relative order; `Receiver::recv` returns the front.
Concurrent senders: a second complete send() by another sender is interleaved at the entry of the critical section
(send_modify) — everything a sender read before that point may be stale; the invariant must still hold afterwards.
Part 2 (replica vote caches): one step of the real on_commit / on_timeout handlers from an arbitrary state with small
caches satisfying the cache invariant (props/replica_checks.py): <= 1 view entry per validator, certificates under
construction only for views some validator is voting in.
"""
import itertools, time
import z3
from mirsym.core import (Exec, explore, solve, Num, Agg, Ref, Cell, Opaque, FnVal, Panic, Unmodelled, num_cmp, b_and, b_not, to_z3_bool, UNIT)
from mirsym import env, models as M
from mirsym.models import some, none, ok, err, BoxV, VecV
from mirsym.mk import Mk, fld
from framework import Obligation, Violation
import replay
from props.c11 import panic_key
from props import c02, c04, coro

PROP = 'C16'
V = c02.V
KINDS = ['ReplicaCommit', 'ReplicaTimeout', 'ReplicaNewView', 'LeaderProposal']


def fnval(db, pattern):
    key = db.find_one(pattern, kinds=('fn',))
    return FnVal(db.by_key[key][4], key, {'name': db.by_key[key][4]})


def mk_req(ex, db, tag, kind):
    """ConsensusReq with symbolic sender / view / signature validity; returns (value, key_tag, view_expr, sig_ok)"""
    mkr = Mk(db, 'zksync_consensus_roles'); mkn = Mk(db, 'zksync_consensus_network')
    kt = z3.Int(f'{tag}_key'); v = ex.fresh(f'{tag}_view'); sig_ok = z3.Bool(f'{tag}_sig_ok')
    ex.assume(v.e < 2 ** 64 - 1)
    view = lambda num: mkr.adt(V + r'v2::consensus::View', genesis=Opaque('genesis'), number=mkr.tuple_struct(V + r'consensus::ViewNumber', num), epoch=mkr.tuple_struct(V + r'consensus::EpochNumber', Num(0, 64)))
    header = mkr.adt(V + r'v2::block::BlockHeader', number=mkr.tuple_struct(V + r'block::BlockNumber', Num(1, 64)), payload=Opaque('payload'))
    if kind == 'ReplicaCommit':
        inner = mkr.adt(V + r'v2::replica_commit::ReplicaCommit', view=view(v), proposal=header); view_e = v.e
    elif kind == 'ReplicaTimeout':
        inner = mkr.adt(V + r'v2::replica_timeout::ReplicaTimeout', view=view(v), high_vote=none(), high_qc=none()); view_e = v.e
    else:
        qc = mkr.adt(V + r'v2::replica_commit::CommitQC', message=mkr.adt(V + r'v2::replica_commit::ReplicaCommit', view=view(v), proposal=header),
                     signers=mkr.tuple_struct(V + r'v2::consensus::Signers', M.BitVecV([True])), signature=Opaque('agg'))
        just = mkr.adt(V + r'v2::leader_proposal::ProposalJustification', 'Commit', _0=qc)
        view_e = v.e + 1       # the view of a new-view / proposal message is the certificate's view + 1
        if kind == 'ReplicaNewView': inner = mkr.adt(V + r'v2::replica_new_view::ReplicaNewView', justification=just)
        else: inner = mkr.adt(V + r'v2::leader_proposal::LeaderProposal', proposal_payload=none(), justification=just)
    chonky = mkr.adt(V + r'v2::consensus::ChonkyMsg', kind, _0=inner)
    cmsg = mkr.adt(V + r'consensus::ConsensusMsg', 'V2', _0=chonky)
    key = Opaque(kt)
    signed = mkn.adt(V + r'msg::Signed', display=r'.*Signed<.*ConsensusMsg>', msg=cmsg, key=key, sig=c04.GhostSig(cmsg, key, sig_ok))
    req = mkn.adt(r'zksync_consensus_network::io::ConsensusReq', msg=signed, ack=Opaque(('ack', tag)))
    return req, kt, view_e, sig_ok


def install(ex, db):
    c04.install(ex)
    # strip_msg-compatible comparison is by identity of the wrapped message here: Signed::verify clones and re-wraps
    def verify_msg(e, n, a):
        sig = M.deref_all(a[0])
        return ok(UNIT) if e.branch(sig.ok) else err(Opaque('anyhow::Error'))
    ex.model(r'zksync_consensus_roles::validator::keys::signature::Signature::verify_msg', verify_msg)
    ex.user_models.insert(0, ex.user_models.pop())
    ex._um_cache = {}
    def send_modify(e, n, a):
        st = getattr(e, 'c16', None)
        if st is not None and st.get('interfere') and not st.get('done'):
            st['done'] = True
            if e.choose(2, 'interference') == 0:
                # another sender completes a whole send() between this sender's last shared read and its critical section
                kind = KINDS[e.choose(len(KINDS), 'kind_other')]
                other, ok_, ov, osig = mk_req(e, db, 'other', kind)
                st['other'] = (other, ok_, kind, ov, osig)
                e.call_key(st['send_key'], [Ref(Cell(st['sender'])), other])
        e.call_closure(a[1], [Ref(M.deref_all_cell(a[0]))])
        return UNIT
    ex.model(r'(tokio|zksync_concurrency)::sync::watch::Sender::<.*>::send_modify(::<.*>)?', send_modify)
    ex.model(r'(tokio|zksync_concurrency)::sync::watch::Sender::<.*>::borrow', lambda e, n, a: coro.WatchRef(M.deref_all(a[0])))
    ex.model(r'<(tokio|zksync_concurrency)::sync::watch::Ref<.*> as std::ops::Deref>::deref', lambda e, n, a: Ref(M.deref_all(a[0]).watch.cell))


def check_send(rep, db, K, tier, interfere=False):
    ex = Exec(db, loop_bound=4 * K + 12)
    install(ex, db)
    mkc = Mk(db, 'zksync_consensus_network')
    send_key = db.find_one(r'zksync_concurrency::sync::prunable_mpsc::Sender::<zksync_consensus_network::io::ConsensusReq>::send', kinds=('inst',))
    rec = db.body(send_key)
    self_t = db.ty(rec['crate'], db.ty(rec['crate'], rec['body']['locals'][1]['ty'])['info']['to'])
    fn_filter = fnval(db, r'zksync_consensus_bft::inbound_filter_predicate')
    fn_select = fnval(db, r'zksync_consensus_bft::inbound_selection_function')

    def body(ex):
        olds = []
        for j in range(K):
            kind = KINDS[ex.choose(len(KINDS), f'kind{j}')]
            req, kt, ve, so = mk_req(ex, db, f'old{j}', kind)
            olds.append((req, kt, kind, ve))
        # invariant: at most one pending request per (sender, kind)
        for i in range(K):
            for j in range(i + 1, K):
                if olds[i][2] == olds[j][2]: ex.assume(olds[i][1] != olds[j][1])
        kind = KINDS[ex.choose(len(KINDS), 'kind_new')]
        new, nk, nv, nsig = mk_req(ex, db, 'new', kind)
        buf = VecV([o[0] for o in olds], 'deque')
        watch = M.WatchV(buf)
        shared = BoxV(Agg('adt', 'Shared', 0, [watch]))
        sender = build_sender(self_t, shared, fn_filter, fn_select)
        ex.c16 = dict(interfere=interfere, send_key=send_key, sender=sender)
        ex.call_key(send_key, [Ref(Cell(sender)), new])
        post = list(watch.cell.v.items)
        if interfere:
            return olds, (new, nk, kind, nv, nsig), post, ex.c16.get('other')
        return olds, (new, nk, kind, nv, nsig), post
    res = explore(ex, body, budget_s=900 if tier == 'quick' else 3000)
    rep.absorb_stats(ex.stats)
    viol = []
    for kind_, val, pc, log in res:
        if kind_ == 'panic':
            st, m = solve(pc, None)
            if st == 'sat': viol.append((panic_key(val), f'Sender::send panics: {val[0]} at {val[1]}', m, None))
            continue
        if interfere:
            olds, (new, nk, nkind, nv, nsig), post, other = val
            if other is None: continue
            rep.nontrivial += 1
            # invariant after two overlapping sends: still at most one pending request per (sender, kind)
            allr = [(o[0], o[1], o[2]) for o in olds] + [(new, nk, nkind), (other[0], other[1], other[2])]
            info = {id(r): (k, kd) for r, k, kd in allr}
            pres = [info[id(x)] for x in post if id(x) in info]
            conds = [z3.Not(z3.And(pres[i][0] == pres[j][0], z3.BoolVal(pres[i][1] == pres[j][1]))) for i in range(len(pres)) for j in range(i + 1, len(pres))]
            st, m = solve(pc, z3.Not(z3.And(*conds)) if conds else z3.BoolVal(False))
            if st == 'sat':
                viol.append(('queue-concurrent-send', f'two overlapping sends leave more than one pending request for one (sender, kind): the decision is not taken inside the critical section (K={K})', m, None))
            elif st != 'unsat': raise Unmodelled('solver unknown')
            continue
        olds, (new, nk, nkind, nv, nsig), post = val
        rep.nontrivial += 1
        ids = [id(x) for x in post]
        conds = []
        same = [z3.And(o[1] == nk, z3.BoolVal(o[2] == nkind)) for o in olds]
        newp = id(new) in ids
        for j, o in enumerate(olds):
            present = id(o[0]) in ids
            if present:
                # a stale entry must not survive a validly signed newer one of its class; on a view tie only one of the two stays
                conds.append(z3.Not(z3.And(nsig, same[j], o[3] < nv)))
                if newp: conds.append(z3.Not(same[j]))
            else:
                # dropped only because a validly signed request of the same class with an equal or higher view is now pending
                conds.append(z3.And(nsig, same[j], o[3] <= nv, z3.BoolVal(newp)))
        if newp:
            conds.append(z3.And(nsig, *[z3.Implies(same[j], olds[j][3] <= nv) for j in range(len(olds))]))
        else:
            conds.append(z3.Or(z3.Not(nsig), *[z3.And(same[j], olds[j][3] >= nv, z3.BoolVal(id(olds[j][0]) in ids)) for j in range(len(olds))]))
        # order: survivors in original order, new request last; nothing else in the buffer
        expected_order = [id(o[0]) for o in olds if id(o[0]) in ids] + ([id(new)] if newp else [])
        conds.append(z3.BoolVal(ids == expected_order))
        st, m = solve(pc, z3.Not(z3.And(*conds)))
        if st == 'sat':
            viol.append(('queue-send', f'pending queue after send is not the specified one (K={K} pending, new {nkind}): buffer has {len(post)} entries, new kept={newp}', m, (K, [o[2] for o in olds], nkind)))
        elif st != 'unsat': raise Unmodelled('solver unknown')
    return viol, len(res)


def build_sender(self_t, shared, fn_filter, fn_select):
    fs = self_t['info']['variants'][0]['fields']
    vals = {'shared': shared, 'filter_predicate': BoxV(fn_filter), 'selection_function': BoxV(fn_select)}
    if set(f['name'] for f in fs) != set(vals):
        raise Unmodelled(f'prunable_mpsc::Sender fields changed: {[f["name"] for f in fs]}')
    return Agg('adt', self_t, 0, [vals[f['name']] for f in fs])


def witness_text(m):
    if m is None: return ''
    return 'witness: ' + ', '.join(f'{d.name()}={m[d]}' for d in sorted(m.decls(), key=lambda d: d.name()) if d.arity() == 0 and not d.name().startswith(('kind', 'k!')))[:600]


def replay_src(m, K, olds_kinds, new_kind):
    def iv(n, d=0):
        for dd in m.decls():
            if dd.name() == n:
                v = m[dd]
                return (z3.is_true(v) if z3.is_bool(v) else v.as_long())
        return d
    def ctor(kind, view):
        if kind == 'ReplicaCommit': return f'ConsensusMsg::V2(ChonkyMsg::ReplicaCommit(ReplicaCommit {{ view: view({view}), proposal: header() }}))'
        if kind == 'ReplicaTimeout': return f'ConsensusMsg::V2(ChonkyMsg::ReplicaTimeout(ReplicaTimeout {{ view: view({view}), high_vote: None, high_qc: None }}))'
        j = f'ProposalJustification::Commit(CommitQC {{ message: ReplicaCommit {{ view: view({view}), proposal: header() }}, signers: Signers::new(1), signature: Default::default() }})'
        if kind == 'ReplicaNewView': return f'ConsensusMsg::V2(ChonkyMsg::ReplicaNewView(ReplicaNewView {{ justification: {j} }}))'
        return f'ConsensusMsg::V2(ChonkyMsg::LeaderProposal(LeaderProposal {{ proposal_payload: None, justification: {j} }}))'
    keys = sorted({iv(f'old{j}_key') for j in range(K)} | {iv('new_key')})
    lines = []
    for j in range(K):
        lines.append(f'    let old{j} = req(&sks[{keys.index(iv(f"old{j}_key"))}], {ctor(olds_kinds[j], iv(f"old{j}_view"))}, true);')
    lines.append(f'    let new = req(&sks[{keys.index(iv("new_key"))}], {ctor(new_kind, iv("new_view"))}, {str(bool(iv("new_sig_ok", True))).lower()});')
    olds = ', '.join(f'old{j}' for j in range(K))
    return f'''// generated by /verif/lib/props/c16.py — replay of a solver counterexample for property C16
use zksync_concurrency::{{ctx, oneshot}};
use zksync_consensus_roles::validator::{{self, v2::*, BlockNumber, ConsensusMsg, EpochNumber, Payload, SecretKey, ViewNumber}};
use zksync_consensus_bft::{{create_input_channel, FromNetworkMessage}};

fn view(n: u64) -> View {{ View {{ genesis: Default::default(), number: ViewNumber(n), epoch: EpochNumber(0) }} }}
fn header() -> BlockHeader {{ BlockHeader {{ number: BlockNumber(1), payload: Payload(vec![]).hash() }} }}
fn req(sk: &SecretKey, m: ConsensusMsg, valid: bool) -> FromNetworkMessage {{
    let mut s = sk.sign_msg(m.clone());
    if !valid {{ s.sig = SecretKey::generate().sign_msg(m).sig; }}
    FromNetworkMessage {{ msg: s, ack: oneshot::channel().0 }}
}}
fn class(r: &FromNetworkMessage) -> (validator::PublicKey, &'static str) {{ (r.msg.key.clone(), r.msg.msg.label()) }}

#[tokio::test]
async fn replay() {{
    let ctx = &ctx::test_root(&ctx::RealClock);
    let sks: Vec<SecretKey> = (0..{len(keys)}).map(|_| SecretKey::generate()).collect();
{chr(10).join(lines)}
    let pre = vec![{olds}];
    let (send, mut recv) = create_input_channel();
    // reference model of the statement
    let mut want: Vec<(validator::PublicKey, &'static str, u64)> = vec![];
    let new_ok = new.msg.verify().is_ok();
    let newc = class(&new); let newv = new.msg.msg.view_number().0;
    let mut keep_new = new_ok;
    for r in &pre {{
        let c = class(r); let v = r.msg.msg.view_number().0;
        if new_ok && c == newc && v < newv {{ continue; }}
        if c == newc && v >= newv {{ keep_new = false; }}
        want.push((c.0, c.1, v));
    }}
    if keep_new {{ want.push((newc.0, newc.1, newv)); }}
    for r in pre {{ send.send(r); }}
    send.send(new);
    let mut got = vec![];
    while let Ok(r) = tokio::time::timeout(std::time::Duration::from_millis(200), recv.recv(ctx)).await {{ let r = r.unwrap(); let c = class(&r); got.push((c.0, c.1, r.msg.msg.view_number().0)); }}
    assert_eq!(got, want, "pending queue differs from the specification");
}}
'''


def check_recv(rep, db):
    """Receiver::recv on a non-empty buffer returns the front element and removes exactly it"""
    ex = Exec(db, loop_bound=20)
    install(ex, db)
    from props import coro
    key = db.find_one(r'zksync_concurrency::sync::prunable_mpsc::Receiver::<zksync_consensus_network::io::ConsensusReq>::recv', kinds=('inst',))
    rec = db.body(key)
    self_t = db.ty(rec['crate'], db.ty(rec['crate'], rec['body']['locals'][1]['ty'])['info']['to'])

    def body(ex):
        coro.install_futures(ex)
        n = 1 + ex.choose(2, 'buflen')
        items = [Opaque(('req', i)) for i in range(n)]
        watch = M.WatchV(VecV(list(items), 'deque'))
        fs = self_t['info']['variants'][0]['fields']
        vals = {'shared': BoxV(Agg('adt', 'Shared', 0, [watch])), 'recv': coro.WatchReceiver(watch)}
        if set(f['name'] for f in fs) != set(vals): raise Unmodelled('prunable_mpsc::Receiver fields changed')
        recv = Agg('adt', self_t, 0, [vals[f['name']] for f in fs])
        r = coro.run_async(ex, key, [Ref(Cell(recv)), Ref(Cell(Opaque('ctx')))])
        return r, items, list(watch.cell.v.items)
    res = explore(ex, body, budget_s=300)
    rep.absorb_stats(ex.stats)
    viol = []
    for kind_, val, pc, log in res:
        if kind_ == 'panic':
            viol.append((panic_key(val), f'Receiver::recv panics: {val[0]} at {val[1]}', None)); continue
        r, items, post = val
        rep.nontrivial += 1
        if r == 'pending': continue
        if r.variant == 1: continue           # cancelled wait: nothing consumed
        if not (r.fields[0] is items[0] and post == items[1:]):
            viol.append(('queue-recv', 'Receiver::recv does not return exactly the front element', None))
    return viol, len(res)


def check_history(rep, db, L, kinds=('ReplicaCommit', 'ReplicaTimeout'), sym_sig=True):
    """REPRESENTATION-INDEPENDENT queue histories: the channel is built by the real `prunable_mpsc::channel` (bft's filter and
    selection functions) and driven through every sequence of <= L operations send(request) / recv() by the real `Sender::send` and
    `Receiver::recv`; only what recv() RETURNS is observed, and compared with a ghost pending list kept by the specification (a
    validly signed request replaces a pending one of its (sender, kind) class with a lower view, is discarded if one with an equal or
    higher view is pending, is appended otherwise; recv takes the front). Whatever private buffers the implementation keeps, a
    request handed to the consumer must be the one the specification says is pending first."""
    ex = Exec(db, loop_bound=40)
    install(ex, db)
    coro.install_futures(ex)
    chan_key = [k for k in db.find(r'zksync_concurrency::sync::prunable_mpsc::channel::<zksync_consensus_network::io::ConsensusReq, .*inbound_filter_predicate.*>', kinds=('inst',))]
    if not chan_key: raise Unmodelled('no instance of prunable_mpsc::channel for the consensus inbound queue')
    chan_key = chan_key[0]
    send_key = db.find_one(r'zksync_concurrency::sync::prunable_mpsc::Sender::<zksync_consensus_network::io::ConsensusReq>::send', kinds=('inst',))
    recv_key = db.find_one(r'zksync_concurrency::sync::prunable_mpsc::Receiver::<zksync_consensus_network::io::ConsensusReq>::recv', kinds=('inst',))
    fn_filter = fnval(db, r'zksync_consensus_bft::inbound_filter_predicate')
    fn_select = fnval(db, r'zksync_consensus_bft::inbound_selection_function')
    n_before = len(ex.user_models)
    def watch_channel(e, n, a):
        w = M.WatchV(a[0]); return M.tup(w, coro.WatchReceiver(w))
    ex.model(r'(tokio|zksync_concurrency)::sync::watch::channel::<.*>', watch_channel)
    mine = ex.user_models[n_before:]; del ex.user_models[n_before:]; ex.user_models[0:0] = mine; ex._um_cache = {}

    def body(ex):
        ex.c16 = None; ex.allow_cancel = False
        pair = ex.call_key(chan_key, [fn_filter, fn_select])
        sender, receiver = pair.fields[0], pair.fields[1]
        scell, rcell = Cell(sender), Cell(receiver)
        ghost = []            # [(req, key_tag, kind, view)] in pending order
        trace = []; bad = []
        nsend = 0
        for step in range(L):
            op = ex.choose(2, f'op{step}')
            if op == 0:
                # two kinds are enough to exercise classes: same kind / other kind
                kind = kinds[ex.choose(len(kinds), f'kind{step}')] if len(kinds) > 1 else kinds[0]
                req, kt, ve, so = mk_req(ex, db, f'm{nsend}', kind); nsend += 1
                ex.assume(z3.And(kt >= 0, kt <= 1))
                if not sym_sig: ex.assume(so)
                ex.call_key(send_key, [Ref(scell), req])
                # ghost update, decided on this path: fork on the specification's own case distinction
                if ex.branch(so):
                    keep = True; ng = []
                    for g in ghost:
                        if g[2] == kind and ex.branch(g[1] == kt):
                            if ex.branch(g[3] < ve): continue          # stale entry of the class is dropped
                            keep = False
                        ng.append(g)
                    ghost = ng + ([(req, kt, kind, ve)] if keep else [])
                trace.append(f'send({kind})')
            else:
                r = coro.run_async(ex, recv_key, [Ref(rcell), Ref(Cell(Opaque('ctx')))])
                if not ghost:
                    if r != 'pending' and not (r.variant == 1): bad.append((step, 'recv returns a request although nothing is pending'))
                    trace.append('recv()->nothing'); continue
                if r == 'pending' or r.variant == 1:
                    bad.append((step, 'recv does not return although a request is pending')); trace.append('recv()->pending'); continue
                got = r.fields[0]
                want = ghost.pop(0)
                # requests are identified by their (unique) acknowledgement channel, not by object identity: an implementation may move
                # them through private buffers
                tag_of = lambda q: getattr(fld(M.deref_all(q), 'ack'), 'tag', None)
                if tag_of(got) != tag_of(want[0]):
                    which = [i for i, g in enumerate([want] + ghost) if tag_of(g[0]) == tag_of(got)]
                    bad.append((step, f'recv hands over a request that is not the first pending one per the specification ({"a later pending one" if which else "one the specification dropped or never admitted"})'))
                trace.append('recv()')
        return bad, trace
    res = explore(ex, body, budget_s=900)
    rep.absorb_stats(ex.stats)
    viol = []
    for kind_, val, pc, log in res:
        if kind_ == 'panic':
            st, m = solve(pc, None)
            if st == 'sat': viol.append((panic_key(val), f'the inbound queue panics in a send / recv history: {val[0]} at {val[1]}', m, None))
            continue
        bad, trace = val
        rep.nontrivial += 1
        if bad:
            st, m = solve(pc, None)
            if st == 'sat':
                viol.append(('queue-history', f'{bad[0][1]} at step {bad[0][0]} of the history {" ; ".join(trace)}: the consumer is handed a stale or superseded request (the freshest vote of a sender is not the one delivered) or a pending one is withheld', m, None))
    return viol, len(res)


def run(rep, db, tier, seed):
    rep.engines.append('mirsym (MIR symbolic execution + z3)')
    rep.trusted += M.TRUSTED + env.TRUSTED + ['tokio watch channel = a cell; send_modify runs its closure on the cell (one critical section)', 'ideal signatures (a request is validly signed iff its ghost flag says so)']
    rep.assumptions += ['concurrent senders are serialised by the watch lock: one send is one atomic step', 'the bound on the replica-internal vote caches is checked with the handler obligations (C03/C05 machinery), not here']
    Ks = [0, 1, 2] if tier == 'quick' else [0, 1, 2, 3]
    rep.bounds = dict(pending_requests=Ks, kinds=KINDS, views='symbolic u64 < 2^64-1', senders='symbolic identities')
    seen = {}
    for K in Ks:
        t0 = time.time()
        try:
            viol, n = check_send(rep, db, K, tier)
            for key, text, m, shape in viol:
                if key in seen: continue
                seen[key] = 1
                path = None; repro = None
                if shape is not None and m is not None:
                    rr = replay.run_replay(f'c16_{len(seen)}', replay_src(m, *shape)); rep.replayed += 1
                    path = rr['path']; repro = rr['reproduced']
                    if repro is None: rep.add(Obligation('replay', 'inconclusive', 'replay harness failed: ' + rr['output'][-1200:]))
                rep.violation(Violation(PROP, key, text + ' | ' + witness_text(m), path, repro is True if shape is not None else None))
            rep.add(Obligation(f'send from an arbitrary {K}-entry buffer', 'violated' if viol else 'discharged', paths=n, wall_s=round(time.time() - t0, 1)))
            rep.samples.append(f'K={K}: {n} feasible paths of Sender::send with the real bft filter/selection functions')
        except Unmodelled as u:
            rep.add(Obligation(f'send from an arbitrary {K}-entry buffer', 'inconclusive', str(u)[:600]))
    for K in ([0, 1] if tier == 'quick' else [0, 1, 2]):
        t0 = time.time()
        try:
            viol, n = check_send(rep, db, K, tier, interfere=True)
            for key, text, m, shape in viol:
                if key in seen: continue
                seen[key] = 1
                rep.violation(Violation(PROP, key, text + ' | ' + witness_text(m), None, None))
            rep.add(Obligation(f'two overlapping sends (interference at the critical section), {K}-entry buffer', 'violated' if viol else 'discharged', paths=n, wall_s=round(time.time() - t0, 1)))
        except Unmodelled as u:
            rep.add(Obligation(f'two overlapping sends, {K}-entry buffer', 'inconclusive', str(u)[:600]))
    try:
        from props import replica_checks as RC
        RC.run_all(rep, db, tier, ('C16',), handlers=('on_commit', 'on_timeout'), mode='caches')
    except Unmodelled as u:
        rep.add(Obligation('replica vote caches', 'inconclusive', str(u)[:500]))
    try:
        viol, n = check_recv(rep, db)
        for key, text, m in viol:
            rep.violation(Violation(PROP, key, text, None, None))
        rep.add(Obligation('recv returns the front', 'violated' if viol else 'discharged', paths=n))
    except (Unmodelled, ImportError) as u:
        rep.add(Obligation('recv returns the front', 'inconclusive', str(u)[:600]))
    cfgs = [(4, ('ReplicaCommit', 'ReplicaTimeout'), True), (5, ('ReplicaCommit',), False)] if tier == 'quick' else [(5, ('ReplicaCommit', 'ReplicaTimeout'), True), (6, ('ReplicaCommit',), False)]
    for L, kinds_, sym_sig in cfgs:
        t0 = time.time()
        oname = f'send / recv histories of {L} operations on the real channel ({len(kinds_)} message kind(s), signature validity {"symbolic" if sym_sig else "true"}; only what recv returns is observed)'
        try:
            viol, n = check_history(rep, db, L, kinds_, sym_sig)
            for key, text, m, shape in viol:
                if key in seen: continue
                seen[key] = 1
                rep.violation(Violation(PROP, key, text + ' | ' + witness_text(m), None, None))
            rep.add(Obligation(oname, 'violated' if viol else 'discharged', paths=n, wall_s=round(time.time() - t0, 1)))
        except (Unmodelled, KeyError) as u:
            rep.add(Obligation(oname, 'inconclusive', f'{type(u).__name__}: {u}'[:600]))
    rep.bounds['histories'] = '; '.join(f'{L} operations x {len(k)} kind(s)' for L, k, _ in cfgs) + '; 2 sender identities, symbolic views'
    rep.extra['explanation'] = 'one send / recv step from an arbitrary invariant-satisfying buffer on the real MIR; all sender identities, views and signature validities covered by solver verdicts'
