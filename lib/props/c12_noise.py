"""C12 — the session id of an encrypted connection: `noise::Stream::handshake` (coroutine, reached through
`server_handshake` / `client_handshake`) executed on its real MIR with snow's `HandshakeState` and the transport by
contract.

The handshakes of the gossip and consensus networks sign `stream.id()`; C12 needs that id to identify THIS session, i.e.
to be the handshake hash after the COMPLETE Noise handshake (the hash after an earlier message depends on fewer of the
two parties' ephemeral keys and can be made equal across sessions by an active attacker).

Model of snow (trusted): a handshake of `TOTAL` messages (NN: 2), the initiator writes first, turns alternate;
`get_handshake_hash()` after j processed messages is an opaque value H_j (H_i != H_j for i != j); `write_message` /
`read_message` advance j (or fail); `into_transport_mode()` requires the handshake to be finished.
Obligations on every path that returns Ok(stream), for both roles:
 - `stream.id()` == Keccak-decoding of H_TOTAL (the hash is taken after the last handshake message, not earlier);
 - the transport state is created when the handshake is finished, every message written was produced by
   `write_message`, every message handed to `read_message` was read from the transport, in alternation;
 - no panic for any peer behaviour (short reads, errors, oversized length words are reported as errors)."""
import time
import z3
from mirsym.core import (Exec, explore, solve, Num, Agg, Ref, Cell, Opaque, Panic, Unmodelled, BoundExceeded, num_cmp, UNIT)
from mirsym import env, models as M, symgen
from mirsym.models import some, none, ok, err, ready, pending, BoxV, VecV, deref_all
from mirsym.mk import Mk, fld
from props import coro
from props.coro import EnvFuture, CANCELED
from props.c11 import panic_key
import framework as F

NET = 'zksync_consensus_network'
TOTAL = 2


class HsV:
    def __init__(self, initiator): self.initiator = initiator; self.count = 0
    def py_clone(self, ex): return self
    def __repr__(self): return f'HandshakeState(initiator={self.initiator}, processed={self.count})'


def run(rep, db, tier):
    name = 'noise::Stream::handshake: the session id is the hash of the COMPLETE handshake (both roles)'
    t0 = time.time()
    ex = Exec(db, loop_bound=12)
    env.install(ex); coro.install_futures(ex); symgen.install_bytes(ex)
    n_before = len(ex.user_models)
    cur = [None]
    log = lambda: cur[0]['log']
    hs = lambda a: deref_all(a[0])
    S = r'snow::(handshakestate::)?HandshakeState::'
    ex.model(S + r'is_handshake_finished', lambda e, n, a: hs(a).count >= TOTAL)
    ex.model(S + r'is_my_turn', lambda e, n, a: (hs(a).count % 2 == 0) == hs(a).initiator)
    ex.model(S + r'is_initiator', lambda e, n, a: hs(a).initiator)

    def write_message(e, n, a):
        h = hs(a)
        if e.choose(2, 'snow_write_fails') == 0: return err(Opaque('snow::Error'))
        h.count += 1
        ln = e.fresh('hs_msg_len'); e.assume(z3.And(ln.e >= 1, ln.e <= 65535))
        log().append(('write_message', h.count, ln)); return ok(ln)
    ex.model(S + r'write_message', write_message)

    def read_message(e, n, a):
        h = hs(a)
        log().append(('read_message', h.count + 1, deref_all(a[1])))
        if e.choose(2, 'snow_read_fails') == 0: return err(Opaque('snow::Error'))
        h.count += 1
        return ok(e.fresh('payload_len'))
    ex.model(S + r'read_message', read_message)
    ex.model(S + r'get_handshake_hash', lambda e, n, a: Ref(Cell(Opaque(('handshake-hash-after', hs(a).count)))))

    def into_transport(e, n, a):
        h = a[0]
        while isinstance(h, Ref): h = h.get()
        log().append(('into_transport_mode', h.count))
        if h.count < TOTAL: return err(Opaque('snow::Error::State'))
        return ok(Opaque('transport state'))
    ex.model(S + r'into_transport_mode', into_transport)

    def keccak_decode(e, n, a):
        v = deref_all(a[0])
        return ok(Opaque(('keccak', v.tag if isinstance(v, Opaque) else repr(v))))
    ex.model(r'<zksync_consensus_crypto::keccak256::Keccak256 as zksync_consensus_crypto::ByteFmt>::decode', keccak_decode)

    def io_write(e, n, a):
        data = deref_all(a[2])
        def respond(e2):
            c = e2.choose(3, 'io_write')
            if c == 0: return ready(err(CANCELED))
            if c == 1: return ready(ok(err(Opaque('io::Error'))))
            log().append(('wire-write', data)); return ready(ok(ok(UNIT)))
        return EnvFuture('io::write_all', respond)
    ex.model_path('zksync_concurrency::io::write_all', io_write)

    def io_flush(e, n, a):
        def respond(e2):
            c = e2.choose(3, 'io_flush')
            if c == 0: return ready(err(CANCELED))
            if c == 1: return ready(ok(err(Opaque('io::Error'))))
            log().append(('wire-flush',)); return ready(ok(ok(UNIT)))
        return EnvFuture('io::flush', respond)
    ex.model_path('zksync_concurrency::io::flush', io_flush)

    def io_read(e, n, a):
        tgt_ref = a[2]
        def respond(e2):
            c = e2.choose(3, 'io_read')
            if c == 0: return ready(err(CANCELED))
            if c == 1: return ready(ok(err(Opaque('io::Error'))))
            tgt = deref_all(tgt_ref)
            if isinstance(tgt, VecV):
                for i in range(len(tgt.items)): tgt.items[i] = e2.fresh(f'wire_byte{i}', 8)
            log().append(('wire-read', tgt)); return ready(ok(ok(UNIT)))
        return EnvFuture('io::read_exact', respond)
    ex.model_path('zksync_concurrency::io::read_exact', io_read)
    ex.model(r'std::vec::from_elem::<u8>|alloc::vec::from_elem::<u8>|<u8 as std::vec::spec_from_elem::SpecFromElem>::from_elem.*|<u8 as alloc::vec::spec_from_elem::SpecFromElem>::from_elem.*', lambda e, n, a: symgen.BytesV(a[1]))
    def bytes_ident(e, n, a):
        return a[0] if isinstance(deref_all(a[0]), symgen.BytesV) else NotImplemented
    ex.model(r'<std::vec::Vec<u8> as std::ops::DerefMut>::deref_mut', bytes_ident)

    def index_mut(e, n, a):
        v = deref_all(a[0]); r = a[1]
        if not isinstance(v, symgen.BytesV) or not isinstance(r, Agg): return NotImplemented
        nm = r.name or ''
        if nm.endswith('RangeTo'):
            hi = r.fields[0]
            if not e.branch(num_cmp('Le', hi, v.len)): raise Panic('range end index out of range for slice')
            return Ref(Cell(symgen.BytesV(hi)))
        return NotImplemented
    ex.model(r'<std::vec::Vec<u8> as std::ops::IndexMut<.*>>::index_mut|core::slice::index::<impl std::ops::IndexMut<.*> for \[u8\]>::index_mut|<\[u8\] as std::ops::IndexMut<.*>>::index_mut', index_mut)
    ex.model(r'<std::boxed::Box<.*> as std::default::Default>::default', lambda e, n, a: BoxV(Opaque('buffer')))
    ex.model(r'core::num::<impl u16>::to_le_bytes|std::num::<impl u16>::to_le_bytes', lambda e, n, a: VecV([Opaque(('le-byte0-of', a[0])), Opaque(('le-byte1-of', a[0]))], 'array'))

    def from_le(e, n, a):
        v = a[0]
        if isinstance(v, VecV) and len(v.items) == 2 and all(isinstance(x, Num) for x in v.items):
            b0, b1 = v.items
            return Num(z3.simplify((b0.e if not b0.concrete else z3.IntVal(b0.e)) + 256 * (b1.e if not b1.concrete else z3.IntVal(b1.e))), 16)
        return e.fresh('announced_len', 16)
    ex.model(r'core::num::<impl u16>::from_le_bytes|std::num::<impl u16>::from_le_bytes', from_le)
    mine = ex.user_models[n_before:]; del ex.user_models[n_before:]; ex.user_models[0:0] = mine; ex._um_cache = {}
    try:
        key = db.find_one(r'zksync_consensus_network::noise::stream::Stream::handshake', kinds=('inst', 'fn'))
    except KeyError as u:
        rep.add(F.Obligation(name, 'inconclusive', str(u)[:400])); return

    def body(ex):
        s = dict(log=[]); cur[0] = s
        initiator = ex.choose(2, 'role') == 0
        h = HsV(initiator)
        r = coro.run_async(ex, key, [Ref(Cell(Opaque('ctx'))), Opaque('transport'), h])
        return r, initiator, list(s['log'])
    try:
        res = explore(ex, body, budget_s=600)
    except (Unmodelled, BoundExceeded, KeyError) as u:
        rep.absorb_stats(ex.stats); rep.add(F.Obligation(name, 'inconclusive', f'{type(u).__name__}: {u}'[:800])); return
    rep.absorb_stats(ex.stats)
    viol = {}; okp = 0
    for kind, val, pc, _ in res:
        if kind == 'panic':
            st, m = solve(pc, None)
            if st == 'sat': viol.setdefault('noise-handshake:' + panic_key(val), f'Stream::handshake panics: {val[0]} at {val[1]}')
            continue
        r, initiator, log = val
        if r == 'pending' or r.variant != 0: continue
        okp += 1; rep.nontrivial += 1
        role = 'initiator' if initiator else 'responder'
        stream = r.fields[0]
        sid = fld(stream, 'id')
        want = ('keccak', ('handshake-hash-after', TOTAL))
        if not (isinstance(sid, Opaque) and sid.tag == want):
            viol.setdefault('noise-handshake:session-id-not-final-hash', f'{role}: the session id is {getattr(sid, "tag", sid)!r}, not the hash of the complete handshake {want!r}: it does not depend on all handshake messages, so it does not identify this session')
        itm = [e for e in log if e[0] == 'into_transport_mode']
        if len(itm) != 1 or itm[0][1] != TOTAL:
            viol.setdefault('noise-handshake:transport-before-finish', f'{role}: the transport state is created {itm} (expected once, after {TOTAL} handshake messages)')
        seq = [(e[0], e[1]) for e in log if e[0] in ('write_message', 'read_message')]
        want_seq = [(('write_message' if ((j % 2 == 1) == initiator) else 'read_message'), j) for j in range(1, TOTAL + 1)]
        if seq != want_seq:
            viol.setdefault('noise-handshake:turns', f'{role}: handshake messages processed as {seq}, expected {want_seq}')
        # every message handed to snow was read from the wire; every message produced by snow went to the wire followed by a flush
        for i, e in enumerate(log):
            if e[0] == 'write_message':
                after = [x[0] for x in log[i + 1:i + 4]]
                if after[:3] != ['wire-write', 'wire-write', 'wire-flush']:
                    viol.setdefault('noise-handshake:message-not-sent', f'{role}: a handshake message is not written (length, body) and flushed: next events {after}')
            if e[0] == 'read_message':
                before = [x[0] for x in log[max(0, i - 2):i]]
                if before != ['wire-read', 'wire-read']:
                    viol.setdefault('noise-handshake:message-not-read', f'{role}: a handshake message handed to snow was not read (length, body) from the transport: previous events {before}')
    for k, text in viol.items():
        rep.violation(F.Violation(rep.prop, k, text, None, None, 'noise handshake with snow by contract'))
    if okp == 0 and not viol:
        rep.add(F.Obligation(name, 'inconclusive', 'no path completes the handshake (vacuous)')); return
    rep.add(F.Obligation(name, 'violated' if viol else 'discharged', paths=len(res), completed=okp, wall_s=round(time.time() - t0, 1)))
    rep.samples.append(f'noise handshake: {len(res)} paths, {okp} complete it')
