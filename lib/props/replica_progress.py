"""Local progress obligations of one replica step (used by C06): what a correct replica must DO when its environment
cooperates (state backup succeeds, payload verification answers), so that the retransmission / catch-up mechanisms the
liveness argument relies on cannot silently disappear. Evaluated on the same handler paths as C03/C05."""
import z3
from mirsym.core import Num, Opaque, num_cmp, to_z3_bool
from mirsym.mk import fld, variant_name
from mirsym.models import deref_all


def zb(x): return to_z3_bool(x)


def obligations(RC, ex, w, handler, r, log, pre, info, post):
    obs = []
    evs = [e[0] for e in log]
    if r == 'pending' or 'persist_failed' in evs or 'env_fail' in evs:
        return obs                                   # the environment did not cooperate on this path
    def need(key, text, cond): obs.append(('C06', f'{handler}:{key}', text, cond))
    sends = []
    for e in log:
        if e[0] == 'send':
            m = RC.inner_msg(e[1]); sends.append(((m.name or '').split('::')[-1], m, e[2]))
    is_ok = r.variant == 0
    pv = pre['view']; qv = post['view']
    sm = w.sm_cell.v
    timer = fld(sm, 'view_timeout')
    rearmed = not (isinstance(timer, Opaque) and timer.tag == 'deadline0')

    def sent(kind, view_num=None):
        cs = []
        for k, m, snap in sends:
            if k != kind: continue
            if view_num is None: cs.append(z3.BoolVal(True)); continue
            if kind == 'ReplicaNewView':
                j = fld(m, 'justification'); c = j.fields[0]
                jv = fld(fld(fld(fld(c, 'message'), 'view'), 'number'), '0') if variant_name(j) == 'Commit' else fld(fld(fld(c, 'view'), 'number'), '0')
                cs.append(jv.e + 1 == view_num.e)
            else:
                cs.append(zb(num_cmp('Eq', fld(fld(fld(m, 'view'), 'number'), '0'), view_num)))
        return z3.Or(*cs) if cs else z3.BoolVal(False)

    if handler == 'start_timeout':
        need('timer-expiry-fails', 'a timer expiry returns an error although the state backup succeeded', z3.BoolVal(is_ok))
        need('timeout-not-rebroadcast', 'a timer expiry does not (re)broadcast the timeout vote of the current view: lost timeout votes would never be retransmitted', sent('ReplicaTimeout', pv))
        need('new-view-not-rebroadcast', 'a timer expiry in a view above 0 does not re-broadcast the new-view message carrying the replica\'s highest certificate: lagging replicas would not be pulled forward', z3.Or(pv.e == 0, sent('ReplicaNewView')))
        need('timer-not-rearmed', 'the view timer is not re-armed on expiry: the replica would time out only once per view', z3.BoolVal(rearmed))
        need('timeout-changes-view', 'a timer expiry changed the view', zb(num_cmp('Eq', qv, pv)))
    # whenever the replica enters a new view: announce it (new-view), wake the proposer, restart the timer
    if True:
        advanced = zb(num_cmp('Gt', qv, pv))
        # on_proposal moves to the proposal's view and votes in it (no new-view is due: the proposal already justifies the view)
        if handler != 'on_proposal':
            need('view-entered-silently', 'the replica entered a new view without broadcasting a new-view message', z3.Implies(advanced, sent('ReplicaNewView')))
            need('proposer-not-notified', 'the replica entered a new view without handing the justification to the proposer (a leader would never propose)',
                 z3.Implies(advanced, z3.BoolVal('proposer' in evs)))
            need('timer-not-restarted', 'the replica entered a new view without restarting the view timer', z3.Implies(advanced, z3.BoolVal(rearmed)))
    if handler == 'on_new_view':
        d = info['just']
        member = info['author'] < w.N
        good = z3.And(z3.BoolVal(member), info['sig_ok'], zb(d['accept']) if not isinstance(d['accept'], bool) else z3.BoolVal(d['accept']), d['view'].e + 1 > pv.e)
        need('higher-certificate-ignored', 'a correctly signed new-view from a validator carrying an accepted certificate of a view >= the current one does not pull the replica forward to the following view',
             z3.Implies(good, z3.And(z3.BoolVal(is_ok), qv.e == d['view'].e + 1, z3.BoolVal(post['phase'] == 0))))
        # specification refinement: the LEADER's new-view for the CURRENT view is still processed (it carries the justification
        # the leader will propose with); only other validators' new-views for the current view are stale
        leads = (d['view'].e + 1) % w.N == info['author'] if member else z3.BoolVal(False)
        cur = z3.And(z3.BoolVal(member), info['sig_ok'], zb(d['accept']) if not isinstance(d['accept'], bool) else z3.BoolVal(d['accept']), d['view'].e + 1 == pv.e, leads)
        obs.append(('C05', f'{handler}:leader-new-view-for-current-view-rejected', 'a valid new-view sent by the leader of the current view for that view is rejected instead of processed', z3.Implies(cur, z3.BoolVal(is_ok))))
    if handler == 'on_proposal':
        need('accepted-proposal-not-voted', 'a proposal was accepted but no commit vote for its view left the node',
             z3.Implies(z3.BoolVal(is_ok), z3.And(sent('ReplicaCommit', qv), z3.BoolVal(post['phase'] == 1))))
    return obs
