"""C19 — the block fetcher (`gossip::Network::run_block_fetcher`) executed on its real MIR with scopes sequentialised:
the loop body runs for a bounded number of rounds (the in-flight semaphore grants K permits), every spawned fetch task is
then run once. Obligations: the blocks requested are exactly queued().next(), next+1, ... — one request per missing
block, no gap, no duplicate; each fetch task requests the very number it then waits to be queued (the request is
cancelled only once THAT block is queued) and keeps its in-flight permit until THAT block is persisted."""
import time
import z3
from mirsym.core import (Exec, explore, solve, Num, Agg, Ref, Cell, Opaque, Unmodelled, BoundExceeded, num_cmp, to_z3_bool, UNIT)
from mirsym import env, models as M
from mirsym.models import some, none, ok, err, ready, pending, BoxV, deref_all
from mirsym.mk import Mk, fld
from props import coro, c02
from props.coro import EnvFuture, CANCELED
from props.c11 import panic_key
from props.c19_runner import LazyStruct
import framework as F

NET = 'zksync_consensus_network'
V = c02.V
BS = r'zksync_consensus_engine::block_store::'
K = 3


class ScopeV:
    def __init__(self): self.tasks = []
    def py_clone(self, ex): return self


def num_of(v):
    v = deref_all(v)
    while isinstance(v, Agg) and v.fields and not isinstance(v, Num):
        v = deref_all(v.fields[0])
    return v


def run(rep, db, tier):
    name = 'block fetcher: one request per missing block, cancelled when that block is queued'
    t0 = time.time()
    ex = Exec(db, loop_bound=K + 4)
    env.install(ex); env.install_ideal_crypto(ex); coro.install_futures(ex)
    n_before = len(ex.user_models)
    cur = [None]
    mk = Mk(db, NET); mke = Mk(db, 'zksync_consensus_engine')
    log = lambda: cur[0]['log']

    ex.model(r'zksync_concurrency::scope::Scope::<.*>::new', lambda e, n, a: ScopeV())

    def spawn(e, n, a):
        deref_all(a[0]).tasks.append(Cell(a[1])); return Opaque('join_handle')
    ex.model(r'zksync_concurrency::scope::Scope::<.*>::(spawn|spawn_bg)(::<.*>)?', spawn)

    def scope_run(e, n, a):
        sc = deref_all(a[0]); clo = a[1]
        def respond(e2):
            root = Cell(e2.call_closure(clo, [Ref(Cell(Opaque('scope_ctx'))), Ref(Cell(sc))]))
            r = coro.poll_value(e2, Ref(root))
            cur[0]['depth'] += 1
            for t in list(sc.tasks):
                f = deref_all(t.v)
                if isinstance(f, Opaque): continue          # a recorded request future (not executed here)
                coro.poll_value(e2, Ref(t))
            cur[0]['depth'] -= 1
            if r.variant == 1: return ready(err(CANCELED))   # the outer loop never ends by itself: the scope is cancelled from outside
            return ready(r.fields[0])
        return EnvFuture('scope.run', respond)
    ex.model(r'zksync_concurrency::scope::Scope::<.*>::run(::<.*>)?', scope_run)

    def acquire(e, n, a):
        def respond(e2):
            s = cur[0]; s['permits'] += 1
            if s['permits'] > K: return pending()
            p = Opaque(('permit', s['permits'])); return ready(ok(p))
        return EnvFuture('sync.acquire', respond)
    ex.model_path('zksync_concurrency::sync::acquire', acquire)
    ex.model(r'(tokio|zksync_concurrency)::sync::Semaphore::new', lambda e, n, a: Opaque('in_flight_semaphore'))

    def request(e, n, a):
        item = deref_all(a[2])
        log().append(('request', num_of(item))); return Opaque(('request_future', len(log())))
    ex.model_path('zksync_consensus_network::gossip::fetch::Queue::request', request)

    def waiter(kind):
        def f(e, n, a):
            number = a[2]
            def respond(e2):
                log().append((kind, num_of(number))); return ready(ok(Opaque('store_state')))
            return EnvFuture(kind, respond)
        return f
    ex.model_path('zksync_consensus_engine::manager::EngineManager::wait_until_queued', waiter('wait_queued'))
    ex.model_path('zksync_consensus_engine::manager::EngineManager::wait_until_persisted', waiter('wait_persisted'))

    def queued(e, n, a):
        first = e.fresh('store_first'); nxt = e.fresh('store_next'); e.assume(z3.And(first.e <= nxt.e, nxt.e < 2 ** 62))
        cur[0]['next0'] = nxt
        bn = lambda x: mke.tuple_struct(V + r'block::BlockNumber', x)
        last = none() if e.branch(nxt.e == first.e) else some(mke.adt(BS + 'Last', 'PreGenesis', _0=bn(Num(nxt.e - 1, 64))))
        return mke.adt(BS + 'BlockStoreState', first=bn(first), last=last)
    ex.model_path('zksync_consensus_engine::manager::EngineManager::queued', queued)
    ex.model(r'<.* as tracing::Instrument>::instrument|tracing::Instrument::instrument', lambda e, n, a: a[0])
    ex.model(r'<tracing::instrument::Instrumented<.*> as std::future::IntoFuture>::into_future', lambda e, n, a: a[0])
    ex.model(r'<tracing::instrument::Instrumented<.*> as std::future::Future>::poll', lambda e, n, a: coro.poll_value(e, coro.unpin(a[0])))
    mine = ex.user_models[n_before:]; del ex.user_models[n_before:]
    ex.user_models[0:0] = mine; ex._um_cache = {}
    try:
        key = db.find_one(r'zksync_consensus_network::gossip::Network::run_block_fetcher', kinds=('fn',))
        net_t = mk.ty(r'zksync_consensus_network::gossip::Network')
    except (KeyError, Unmodelled) as u:
        rep.add(F.Obligation(name, 'inconclusive', str(u)[:400])); return

    def body(ex):
        s = dict(log=[], permits=0, depth=0); cur[0] = s
        net = LazyStruct(ex, db, NET, net_t)
        r = coro.run_async(ex, key, [Ref(Cell(net)), Ref(Cell(Opaque('ctx')))])
        return r, s.get('next0'), list(s['log'])
    try:
        res = explore(ex, body, budget_s=600)
    except (Unmodelled, BoundExceeded, KeyError) as u:
        rep.absorb_stats(ex.stats)
        rep.add(F.Obligation(name, 'inconclusive', f'{type(u).__name__}: {u}'[:700])); return
    rep.absorb_stats(ex.stats)
    viol = {}; good_paths = 0

    def need(pc, k, text, cond):
        if k in viol: return
        st, m = solve(pc, z3.Not(cond))
        if st == 'sat': viol[k] = (text, m)
        elif st != 'unsat': raise Unmodelled('solver unknown')
    for kind, val, pc, _ in res:
        if kind == 'panic':
            st, m = solve(pc, None)
            if st == 'sat': viol.setdefault('fetcher:' + panic_key(val), (f'run_block_fetcher panics: {val[0]} at {val[1]}', m))
            continue
        r, next0, log_ = val
        reqs = [e[1] for e in log_ if e[0] == 'request']
        if next0 is None or len(reqs) < 2: continue
        good_paths += 1; rep.nontrivial += 1
        need(pc, 'fetcher:request-count', f'{K} in-flight permits were granted but a different number of fetch requests was issued', z3.BoolVal(len(reqs) == K))
        for i, rq in enumerate(reqs):
            need(pc, 'fetcher:request-sequence', 'the blocks requested are not queued().next(), next+1, next+2, ... (a missing block is skipped or requested twice)', rq.e == next0.e + i)
        # each task: request n, then wait for n to be queued, then for n to be persisted
        evs = log_
        for i, e_ in enumerate(evs):
            if e_[0] != 'request': continue
            nxt = evs[i + 1] if i + 1 < len(evs) else None
            nx2 = evs[i + 2] if i + 2 < len(evs) else None
            ok1 = nxt is not None and nxt[0] == 'wait_queued'
            need(pc, 'fetcher:cancel-condition', 'a fetch request is not kept until its own block is queued (it waits for another block, or for nothing)', z3.And(z3.BoolVal(bool(ok1)), (nxt[1].e == e_[1].e) if ok1 else z3.BoolVal(False)))
            ok2 = nx2 is not None and nx2[0] == 'wait_persisted'
            need(pc, 'fetcher:permit-release', 'the in-flight permit of a fetch is not held until its own block is persisted (unbounded blocks in memory)', z3.And(z3.BoolVal(bool(ok2)), (nx2[1].e == e_[1].e) if ok2 else z3.BoolVal(False)))
    for k, (text, m) in viol.items():
        rep.violation(F.Violation(rep.prop, k, text, None, None, ', '.join(f'{d.name()}={m[d]}' for d in m.decls() if d.arity() == 0 and '!' not in d.name())[:400] if m is not None else ''))
    if good_paths == 0 and not viol:
        rep.add(F.Obligation(name, 'inconclusive', 'no path issues two fetch requests (vacuous)')); return
    rep.add(F.Obligation(name, 'violated' if viol else 'discharged', paths=len(res), wall_s=round(time.time() - t0, 1)))
    rep.samples.append(f'block fetcher: {len(res)} paths, {good_paths} issue >= 2 requests')
