"""C04 — certificates are accepted exactly when genuinely backed by a quorum (engine M).

Real MIR executed: CommitQC::{verify,add,new}, TimeoutQC::{verify,add,new}, ReplicaCommit/ReplicaTimeout/View::verify,
ProposalJustification/LeaderProposal/ReplicaNewView::verify, FinalBlock::verify, Signers::{new,weight,len,is_empty,&,|=},
Schedule::{index,len,keys,quorum_threshold}, Signed::verify, derived PartialEq/Clone of the message types.
Ideal signature model (the only crypto assumption): a signature / aggregate signature is a ghost value that records
which (message, key) pairs it genuinely covers; `Signature::verify_msg` and `AggregateSignature::verify_messages`
succeed iff the pairs the *code* presents are exactly the covered ones.
Obligation shape: verify(...) == Ok  <=>  Cond, where Cond is the statement's acceptance condition written over the
symbolic inputs; no panic on any input (totality); add(...) == Ok <=> its condition, and Err leaves the certificate
unchanged; certificates assembled by the real `add` verify iff the collected weight reaches the quorum.
"""
import itertools, time
import z3
from mirsym.core import (Exec, explore, solve, Num, Agg, Ref, Cell, Opaque, Panic, Unmodelled, num_cmp, b_and, b_or, b_not, to_z3_bool, UNIT)
from mirsym import env, models as M
from mirsym.models import some, none, ok, err, tup, deref_all, values_equal
from mirsym.mk import Mk, fld, variant_name
from framework import Obligation, Violation
import replay
from props.c11 import panic_key
from props import c02, c04_replay

PROP = 'C04'
CR = 'zksync_consensus_roles'
V = c02.V


# ------------------------------------------------------------------------------------------------ ghost crypto
class GhostSig:
    """validator::Signature: `ok` <=> it is a genuine signature by `key` over `msg`"""
    def __init__(self, msg, key, ok_):
        self.msg = msg; self.key = key; self.ok = ok_

    def py_clone(self, ex): return self
    def py_eq(self, ex, o): return self is o


class GhostAgg:
    """validator::AggregateSignature. Symbolic mode: covers[g][i] says whether (groups[g], key_i) is covered, `junk`
    whether anything else is covered. Concrete mode (built by the real add): list of added (msg, key) pairs."""
    _uid = [0]

    def __init__(self, groups=None, covers=None, junk=False, base=None):
        self.groups = groups; self.covers = covers; self.junk = junk; self.added = []; self.base = base
        GhostAgg._uid[0] += 1; self.uid = GhostAgg._uid[0]

    def py_clone(self, ex):
        g = GhostAgg(self.groups, self.covers, self.junk, self.base); g.added = list(self.added); g.uid = self.uid; return g

    def py_eq(self, ex, o):
        return isinstance(o, GhostAgg) and self.uid == o.uid and len(self.added) == len(o.added) and self.junk is o.junk


def strip_msg(v):
    """Msg::Consensus(ConsensusMsg::V2(ChonkyMsg::X(m))) -> m"""
    v = deref_all(v)
    while isinstance(v, Agg) and v.kind == 'adt' and len(v.fields) == 1 and (v.name or '').split('::')[-1] in ('Msg', 'ConsensusMsg', 'ChonkyMsg'):
        v = v.fields[0]
    return v


def key_index(k):
    k = deref_all(k)
    if isinstance(k, Opaque) and isinstance(k.tag, tuple) and k.tag[0] == 'key': return k.tag[1]
    raise Unmodelled(f'key {k!r}')


def install(ex):
    env.install(ex); env.install_ideal_crypto(ex)

    def verify_msg(e, n, a):
        sig, msg, pk = deref_all(a[0]), strip_msg(a[1]), deref_all(a[2])
        c = b_and(sig.ok, values_equal(e, msg, sig.msg), values_equal(e, pk, sig.key))
        return ok(UNIT) if e.branch(c) else err(Opaque('anyhow::Error'))
    ex.model(r'zksync_consensus_roles::validator::keys::signature::Signature::verify_msg', verify_msg)

    def agg_add(e, n, a):
        agg, sig = a[0].get(), deref_all(a[1])
        if e.branch(sig.ok): agg.added.append((sig.msg, sig.key))
        else: agg.junk = True
        return UNIT
    ex.model(r'zksync_consensus_roles::validator::keys::aggregate_signature::AggregateSignature::add', agg_add)
    ex.model(r'<zksync_consensus_roles::validator::keys::aggregate_signature::AggregateSignature as std::default::Default>::default', lambda e, n, a: GhostAgg(groups=[], covers=[]))

    def verify_messages(e, n, a):
        agg = deref_all(a[0])
        pairs = [(strip_msg(p.fields[0]), key_index(p.fields[1])) for p in M.as_iter(e, a[1])]
        e.claimed = pairs
        if not pairs: return err(Opaque('anyhow::Error'))    # blst rejects an aggregate verification over zero messages
        conds = [b_not(agg.junk)]
        # every presented pair must be covered exactly once, every covered pair must be presented
        claimed = {}
        unused = list(range(len(agg.added)))
        for m, ki in pairs:
            g = None
            # pairs aggregated by the real add(): match (message, key) one to one
            for j in unused:
                am, ak = agg.added[j]
                if key_index(ak) == ki and values_equal(e, m, am) is True:
                    g = ('a', j); unused.remove(j); break
            if g is None:
                for gi, gm in enumerate(agg.groups):
                    eq = values_equal(e, m, gm)
                    if eq is True or (eq is not False and e.branch(eq)): g = ('g', gi); break
            if g is None: return err(Opaque('anyhow::Error'))     # a (message, key) pair nobody signed
            if g[0] == 'g':
                if ki >= len(agg.covers[g[1]]): return err(Opaque('anyhow::Error'))
                claimed[(g, ki)] = claimed.get((g, ki), 0) + 1
        if unused or any(c > 1 for c in claimed.values()): return err(Opaque('anyhow::Error'))
        for gi in range(len(agg.groups)):
            for i, c in enumerate(agg.covers[gi]):
                conds.append(c if (('g', gi), i) in claimed else b_not(c))
        return ok(UNIT) if e.branch(b_and(*conds)) else err(Opaque('anyhow::Error'))
    ex.model(r'zksync_consensus_roles::validator::keys::aggregate_signature::AggregateSignature::verify_messages::<.*>', verify_messages)
    ex.model(r'zksync_consensus_roles::validator::messages::block::Payload::hash', lambda e, n, a: Opaque(z3.Int('payload_hash')))


# ------------------------------------------------------------------------------------------------ builders
class World:
    def __init__(self, ex, db, N):
        self.ex = ex; self.mk = Mk(db, CR); self.N = N
        self.ws = [ex.fresh(f'w{i}') for i in range(N)]
        for w in self.ws: ex.assume(z3.And(w.e >= 1, w.e < 2 ** 58))
        self.sched, self.total = c02.mk_schedule(ex, self.mk, self.ws, sym_leaders=True)
        self.g0 = z3.Int('g0'); self.e0 = ex.fresh('e0')
        f = (self.total.e - 1) / 5
        self.q = self.total.e - f

    def view(self, g, number, epoch):
        mk = self.mk
        return mk.adt(V + r'v2::consensus::View', genesis=Opaque(g), number=mk.tuple_struct(V + r'consensus::ViewNumber', number), epoch=mk.tuple_struct(V + r'consensus::EpochNumber', epoch))

    def header(self, n, h):
        return self.mk.adt(V + r'v2::block::BlockHeader', number=self.mk.tuple_struct(V + r'block::BlockNumber', n), payload=Opaque(h))

    def genesis_arg(self): return Opaque(self.g0)
    def epoch_arg(self): return self.mk.tuple_struct(V + r'consensus::EpochNumber', self.e0)

    def weight(self, bits):
        return sum((z3.If(to_z3_bool(b), w.e, 0) for b, w in zip(bits, self.ws)), z3.IntVal(0))

    def sym_commit_qc(self, tag, length):
        """CommitQC with symbolic view / bitmap / ghost signature; returns (value, acceptance condition)"""
        ex = self.ex; N = self.N
        g = z3.Int(f'{tag}_g'); e = ex.fresh(f'{tag}_e'); v = ex.fresh(f'{tag}_v'); num = ex.fresh(f'{tag}_num')
        ex.assume(z3.And(v.e < 2 ** 63, num.e < 2 ** 63))
        msg = self.mk.adt(V + r'v2::replica_commit::ReplicaCommit', view=self.view(g, v, e), proposal=self.header(num, z3.Int(f'{tag}_hash')))
        bits = [z3.Bool(f'{tag}_b{i}') for i in range(length)]
        covers = [z3.Bool(f'{tag}_c{i}') for i in range(N)]
        junk = z3.Bool(f'{tag}_junk')
        agg = GhostAgg(groups=[msg], covers=[covers], junk=junk)
        qc = self.mk.adt(V + r'v2::replica_commit::CommitQC', message=msg, signers=self.mk.tuple_struct(V + r'v2::consensus::Signers', M.BitVecV(bits)), signature=agg)
        if length == N:
            cond = z3.And(g == self.g0, e.e == self.e0.e, self.weight(bits) >= self.q, z3.Not(junk), *[covers[i] == bits[i] for i in range(N)])
        else:
            cond = z3.BoolVal(False)
        return qc, cond, dict(g=g, e=e, v=v, num=num, bits=bits, covers=covers, junk=junk, msg=msg, hash=z3.Int(f'{tag}_hash'))


def get_info(log):
    for x in log:
        if isinstance(x, tuple) and x[0] == 'info': return x[1]
    return None


def _lex(pairs):
    """strict lexicographic less-than from a list of (lt, eq) z3 pairs"""
    r = z3.BoolVal(False)
    for lt, eq in reversed(pairs):
        r = z3.Or(lt, z3.And(eq, r))
    return r


def order_hint(info):
    """The real TimeoutQC keeps its vote groups in a BTreeMap ordered by the derived Ord of ReplicaTimeout; the model keeps
    them in construction order (every order is explored by symmetry). A counterexample whose groups are, in construction
    order, ascending in the part of the derived order that does not depend on signature bytes can be rebuilt by the replay
    with the same iteration order. Returns that preference as a z3 constraint (None if not applicable)."""
    if not info or info.get('kind') != 'timeout_verify': return None
    gs = info['tq']['groups']
    if len(gs) < 2: return None
    cs = []
    for a, b in zip(gs, gs[1:]):
        pairs = [(a['mv'].e < b['mv'].e, a['mv'].e == b['mv'].e)]
        # high_vote: None < Some; two Some are ordered by fields including opaque hashes: not constrained
        if a['hv'] is None and b['hv'] is not None: pairs.append((z3.BoolVal(True), z3.BoolVal(False)))
        elif a['hv'] is None and b['hv'] is None: pairs.append((z3.BoolVal(False), z3.BoolVal(True)))
        elif a['hv'] is not None and b['hv'] is None: pairs.append((z3.BoolVal(False), z3.BoolVal(False)))
        else:
            pairs.append((z3.And(a['hv']['g'] == b['hv']['g'], a['hv']['e'].e == b['hv']['e'].e, a['hv']['v'].e < b['hv']['v'].e), z3.BoolVal(False)))
        if pairs[-1][1] is not None:
            qa, qb = a['hq'], b['hq']
            if qa is None and qb is not None: pairs.append((z3.BoolVal(True), z3.BoolVal(False)))
            elif qa is None and qb is None: pairs.append((z3.BoolVal(False), z3.BoolVal(True)))
            elif qa is not None and qb is None: pairs.append((z3.BoolVal(False), z3.BoolVal(False)))
            else:
                same_msg = z3.And(qa['g'] == qb['g'], qa['e'].e == qb['e'].e, qa['v'].e == qb['v'].e, qa['num'].e == qb['num'].e, qa['hash'] == qb['hash'])
                bits = [(z3.And(z3.Not(x), y), x == y) for x, y in zip(qa['bits'], qb['bits'])]
                pairs.append((z3.Or(z3.And(qa['g'] == qb['g'], qa['e'].e == qb['e'].e, qa['v'].e < qb['v'].e), z3.And(same_msg, _lex(bits))), z3.BoolVal(False)))
        cs.append(_lex(pairs))
    return z3.And(*cs)


def solve_pref(pc, goal, info):
    """a model of pc and goal, preferring one the replay can rebuild in the same group order"""
    h = order_hint(info)
    if h is not None:
        st, m = solve(pc, z3.And(goal, h))
        if st == 'sat': return st, m
    return solve(pc, goal)


def classify(rep, res, cond_of, what, N, extra_ok=None):
    """verify == Ok <=> cond; no panic. Returns list of (key, text, model, info, expected_ok)."""
    viol = []
    for kind, val, pc, log in res:
        info = get_info(log)
        if kind == 'panic':
            st, m = solve(pc, None)
            if st == 'sat':
                exp = z3.is_true(m.eval(info['cond'], model_completion=True)) if info and 'cond' in info else False
                viol.append((panic_key(val), f'{what} panics: {val[0]} at {val[1]}', m, info, exp))
            continue
        r, cond = val
        rep.nontrivial += 1
        if r.variant == 0:
            st, m = solve_pref(pc, z3.Not(cond), info)
            if st == 'sat': viol.append((f'{what}:accepts-invalid', f'{what} returns Ok although the acceptance condition is false (N={N})', m, info, False))
            elif st != 'unsat': raise Unmodelled('solver unknown')
        else:
            st, m = solve_pref(pc, cond, info)
            if st == 'sat': viol.append((f'{what}:rejects-valid', f'{what} returns Err for a genuinely backed certificate (N={N})', m, info, True))
            elif st != 'unsat': raise Unmodelled('solver unknown')
    return viol


ENTRY_COMMIT = ['commit_qc', 'leader_proposal', 'new_view', 'final_block', 'replica_timeout_high_qc']


def check_commit_verify(rep, db, N, entry):
    ex = Exec(db, loop_bound=2 * N + 8)
    install(ex)

    def body(ex):
        w = World(ex, db, N)
        length = [N, N - 1, N + 1][ex.choose(3, 'len')]
        if length < 0: length = 0
        qc, cond, s = w.sym_commit_qc('qc', length)
        mk = w.mk
        info = dict(kind='commit_verify', entry=entry, ws=w.ws, e0=w.e0, g0=w.g0, qc=s)
        ex.log.append(('info', info))
        if entry == 'final_block': cond = z3.And(cond, z3.Int('payload_hash') == z3.Int('qc_hash'))
        if entry == 'replica_timeout_high_qc':
            g = z3.Int('rt_g'); e = ex.fresh('rt_e'); v = ex.fresh('rt_v')
            info['rt'] = dict(g=g, e=e, v=v)
            cond = z3.And(cond, g == w.g0, e.e == w.e0.e)
        info['cond'] = cond
        if entry == 'commit_qc':
            r = ex.call_by_name(r'.*v2::replica_commit::CommitQC::verify', [Ref(Cell(qc)), w.genesis_arg(), w.epoch_arg(), Ref(Cell(w.sched))])
        elif entry == 'leader_proposal':
            just = mk.adt(V + r'v2::leader_proposal::ProposalJustification', 'Commit', _0=qc)
            lp = mk.adt(V + r'v2::leader_proposal::LeaderProposal', proposal_payload=none(), justification=just)
            r = ex.call_by_name(r'.*v2::leader_proposal::LeaderProposal::verify', [Ref(Cell(lp)), w.genesis_arg(), w.epoch_arg(), Ref(Cell(w.sched))])
        elif entry == 'new_view':
            just = mk.adt(V + r'v2::leader_proposal::ProposalJustification', 'Commit', _0=qc)
            nv = mk.adt(V + r'v2::replica_new_view::ReplicaNewView', justification=just)
            r = ex.call_by_name(r'.*v2::replica_new_view::ReplicaNewView::verify', [Ref(Cell(nv)), w.genesis_arg(), w.epoch_arg(), Ref(Cell(w.sched))])
        elif entry == 'final_block':
            fb = mk.adt(V + r'v2::block::FinalBlock', payload=Opaque(('payload', 0)), justification=qc)
            r = ex.call_by_name(r'.*v2::block::FinalBlock::verify', [Ref(Cell(fb)), w.genesis_arg(), w.epoch_arg(), Ref(Cell(w.sched))])
        elif entry == 'replica_timeout_high_qc':
            rt = mk.adt(V + r'v2::replica_timeout::ReplicaTimeout', view=w.view(g, v, e), high_vote=none(), high_qc=some(qc))
            r = ex.call_by_name(r'.*v2::replica_timeout::ReplicaTimeout::verify', [Ref(Cell(rt)), w.genesis_arg(), w.epoch_arg(), Ref(Cell(w.sched))])
        return r, cond
    res = explore(ex, body, budget_s=1500)
    rep.absorb_stats(ex.stats)
    return classify(rep, res, None, f'verify[{entry}]', N), len(res)


def check_timeout_verify(rep, db, N, G, entry):
    ex = Exec(db, loop_bound=2 * N * G + 12)
    install(ex)

    def body(ex):
        w = World(ex, db, N); mk = w.mk
        g = z3.Int('tq_g'); e = ex.fresh('tq_e'); v = ex.fresh('tq_v'); ex.assume(v.e < 2 ** 63)
        entries = []; conds = [g == w.g0, e.e == w.e0.e]
        groups = []; cov = []; allbits = []; ginfo = []
        info = dict(kind='timeout_verify', entry=entry, ws=w.ws, e0=w.e0, g0=w.g0)
        ex.log.append(('info', info))
        union = [False] * N
        for k in range(G):
            # group k: its own view number (may differ), optional high vote with its own genesis, optional nested certificate
            mv = ex.fresh(f'm{k}_v'); ex.assume(mv.e < 2 ** 63)
            hv = none(); hvc = True; hvi = None; hqi = None
            if k > 0 or ex.choose(2, 'hv0') == 0:
                hg = z3.Int(f'm{k}_hv_g'); he = ex.fresh(f'm{k}_hv_e'); hvv = ex.fresh(f'm{k}_hv_v'); hvn = ex.fresh(f'm{k}_hv_n')
                hv = some(mk.adt(V + r'v2::replica_commit::ReplicaCommit', view=w.view(hg, hvv, he), proposal=w.header(hvn, ('p', k))))
                hvc = z3.And(hg == w.g0, he.e == w.e0.e); hvi = dict(g=hg, e=he, v=hvv, n=hvn)
            hq = none(); hqc = True
            # every group may carry its own nested certificate (two groups may even certify the SAME commit message
            # with different signer sets / signatures: each must be verified on its own)
            if ex.choose(2, 'nested' if k == 0 else f'nested{k}') == 0:
                nq, ncond, hqi = w.sym_commit_qc('hq' if k == 0 else f'hq{k}', N)
                hq = some(nq); hqc = ncond
            msg = mk.adt(V + r'v2::replica_timeout::ReplicaTimeout', view=w.view(g, mv, e), high_vote=hv, high_qc=hq)
            length = N
            if k == G - 1: length = [N, N - 1, N + 1][ex.choose(3, 'len')]
            bits = [z3.Bool(f'm{k}_b{i}') for i in range(length)]
            groups.append(msg); cov.append([z3.Bool(f'm{k}_c{i}') for i in range(N)]); allbits.append(bits)
            ginfo.append(dict(mv=mv, hv=hvi, hq=hqi, bits=bits, covers=cov[-1]))
            entries.append((msg, mk.tuple_struct(V + r'v2::consensus::Signers', M.BitVecV(bits))))
            if length != N:
                conds.append(z3.BoolVal(False))
            else:
                conds += [mv.e == v.e, z3.Or(*bits), *[z3.Not(z3.And(to_z3_bool(union[i]), bits[i])) for i in range(N)], hvc, hqc]
                conds += [cov[k][i] == bits[i] for i in range(N)]
                union = [b_or(union[i], bits[i]) for i in range(N)]
        junk = z3.Bool('tq_junk')
        conds += [w.weight(union) >= w.q, z3.Not(junk)]
        info['tq'] = dict(g=g, e=e, v=v, junk=junk, groups=ginfo); info['cond'] = z3.And(*conds)
        tqc = mk.adt(V + r'v2::replica_timeout::TimeoutQC', view=w.view(g, v, e), map=M.MapV(entries, ordered=True), signature=GhostAgg(groups=groups, covers=cov, junk=junk))
        if entry == 'timeout_qc':
            r = ex.call_by_name(r'.*v2::replica_timeout::TimeoutQC::verify', [Ref(Cell(tqc)), w.genesis_arg(), w.epoch_arg(), Ref(Cell(w.sched))])
        else:
            just = mk.adt(V + r'v2::leader_proposal::ProposalJustification', 'Timeout', _0=tqc)
            nv = mk.adt(V + r'v2::replica_new_view::ReplicaNewView', justification=just)
            r = ex.call_by_name(r'.*v2::replica_new_view::ReplicaNewView::verify', [Ref(Cell(nv)), w.genesis_arg(), w.epoch_arg(), Ref(Cell(w.sched))])
        return r, z3.And(*conds)
    res = explore(ex, body, budget_s=2400)
    rep.absorb_stats(ex.stats)
    return classify(rep, res, None, f'verify[{entry},G={G}]', N), len(res)


def check_commit_add(rep, db, N):
    """CommitQC::add: Ok <=> member & not yet signed & valid signature & same message & chain/epoch ok; Err leaves it unchanged."""
    ex = Exec(db, loop_bound=2 * N + 8)
    install(ex)

    def body(ex):
        w = World(ex, db, N); mk = w.mk
        g = z3.Int('qc_g'); e = ex.fresh('qc_e'); v = ex.fresh('qc_v'); num = ex.fresh('qc_num')
        msg = mk.adt(V + r'v2::replica_commit::ReplicaCommit', view=w.view(g, v, e), proposal=w.header(num, z3.Int('qc_hash')))
        bits = [z3.Bool(f'pre_b{i}') for i in range(N)]
        agg = GhostAgg(groups=[], covers=[], base='pre')
        qc = mk.adt(V + r'v2::replica_commit::CommitQC', message=msg, signers=mk.tuple_struct(V + r'v2::consensus::Signers', M.BitVecV(list(bits))), signature=agg)
        ki = ex.choose(N + 1, 'signer')          # index N: not a member
        v2 = ex.fresh('in_v'); num2 = ex.fresh('in_num')
        msg2 = mk.adt(V + r'v2::replica_commit::ReplicaCommit', view=w.view(g, v2, e), proposal=w.header(num2, z3.Int('in_hash')))
        sig_ok = z3.Bool('sig_ok')
        signed = mk.adt(V + r'msg::Signed', display=r'.*Signed<.*ReplicaCommit>', msg=msg2, key=Opaque(('key', ki)), sig=GhostSig(msg2, Opaque(('key', ki)), sig_ok))
        cell = Cell(qc)
        same = z3.And(v2.e == v.e, num2.e == num.e, z3.Int('in_hash') == z3.Int('qc_hash'))
        cond = z3.And(z3.BoolVal(ki < N), z3.Not(bits[ki]) if ki < N else z3.BoolVal(False), sig_ok, same, g == w.g0, e.e == w.e0.e)
        ex.log.append(('info', dict(kind='commit_add', ws=w.ws, e0=w.e0, g0=w.g0, cond=cond, add=dict(ki=ki, pre=bits, g=g, e=e, v=v, num=num, v2=v2, num2=num2))))
        r = ex.call_by_name(r'.*v2::replica_commit::CommitQC::add', [Ref(cell), Ref(Cell(signed)), w.genesis_arg(), w.epoch_arg(), Ref(Cell(w.sched))])
        post = fld(fld(cell.v, 'signers'), '0').bits
        pagg = fld(cell.v, 'signature')
        if r.variant == 0:
            state_ok = b_and(*[values_equal(ex, post[i], True if i == ki else bits[i]) for i in range(N)]) if ki < N else False
            state_ok = b_and(state_ok, len(pagg.added) == 1 and pagg.added[0][0] is msg2 and key_index(pagg.added[0][1]) == ki and pagg.junk is False)
        else:
            state_ok = b_and(*[values_equal(ex, post[i], bits[i]) for i in range(N)], len(pagg.added) == 0 and pagg.junk is False)
        return r, cond, to_z3_bool(state_ok)
    res = explore(ex, body, budget_s=1200)
    rep.absorb_stats(ex.stats)
    viol = []
    res2 = []
    for kind, val, pc, log in res:
        if kind == 'ok':
            r, cond, state_ok = val
            st, m = solve(pc, z3.Not(state_ok))
            if st == 'sat': viol.append(('add[commit]:state', f'CommitQC::add leaves a wrong certificate state after returning {"Ok" if r.variant == 0 else "Err"} (N={N})', m, get_info(log), r.variant == 0))
            res2.append((kind, (r, cond), pc, log))
        else: res2.append((kind, val, pc, log))
    return viol + classify(rep, res2, None, 'add[commit]', N), len(res)


def check_timeout_add(rep, db, N):
    ex = Exec(db, loop_bound=2 * N + 10)
    install(ex)

    def body(ex):
        w = World(ex, db, N); mk = w.mk
        g = z3.Int('tq_g'); e = ex.fresh('tq_e'); v = ex.fresh('tq_v')
        mkmsg = lambda view_num, tag, hg, he: mk.adt(V + r'v2::replica_timeout::ReplicaTimeout', view=w.view(g, view_num, e),
                                                     high_vote=some(mk.adt(V + r'v2::replica_commit::ReplicaCommit', view=w.view(hg, Num(0, 64), he), proposal=w.header(Num(1, 64), ('p', tag)))), high_qc=none())
        G = ex.choose(3, 'groups')        # 0, 1 or 2 groups already present
        pre = []; entries = []
        for k in range(G):
            m = mkmsg(v, k, w.g0, w.e0)
            bits = [z3.Bool(f'pre{k}_b{i}') for i in range(N)]
            pre.append(bits); entries.append((m, mk.tuple_struct(V + r'v2::consensus::Signers', M.BitVecV(list(bits)))))
        agg = GhostAgg(groups=[], covers=[], base='pre')
        tqc = mk.adt(V + r'v2::replica_timeout::TimeoutQC', view=w.view(g, v, e), map=M.MapV(entries, ordered=True), signature=agg)
        ki = ex.choose(N + 1, 'signer')
        which = ex.choose(G + 1, 'msg')   # equal to an existing group's message, or a new one
        v2 = ex.fresh('in_v'); hg = z3.Int('in_hv_g'); he = ex.fresh('in_hv_e')
        if which < G:
            msg2 = mkmsg(v2, which, w.g0, w.e0); hv_ok = z3.BoolVal(True)
        else:
            msg2 = mkmsg(v2, 7, hg, he); hv_ok = z3.And(hg == w.g0, he.e == w.e0.e)
        sig_ok = z3.Bool('sig_ok')
        signed = mk.adt(V + r'msg::Signed', display=r'.*Signed<.*ReplicaTimeout>', msg=msg2, key=Opaque(('key', ki)), sig=GhostSig(msg2, Opaque(('key', ki)), sig_ok))
        cell = Cell(tqc)
        already = z3.Or(*[pre[k][ki] for k in range(G)]) if (ki < N and G) else z3.BoolVal(False)
        cond = z3.And(z3.BoolVal(ki < N), z3.Not(already), sig_ok, v2.e == v.e, g == w.g0, e.e == w.e0.e, hv_ok)
        ex.log.append(('info', dict(kind='timeout_add', ws=w.ws, e0=w.e0, g0=w.g0, cond=cond, add=dict(ki=ki, G=G, which=which, pre=pre, g=g, e=e, v=v, v2=v2, hg=hg, he=he))))
        r = ex.call_by_name(r'.*v2::replica_timeout::TimeoutQC::add', [Ref(cell), Ref(Cell(signed)), w.genesis_arg(), w.epoch_arg(), Ref(Cell(w.sched))])
        pmap = fld(cell.v, 'map'); pagg = fld(cell.v, 'signature')
        # post-state: group bitmaps
        def bits_of(tag):
            for km, c in pmap.entries:
                hvv = fld(km, 'high_vote').fields[0]
                if fld(fld(hvv, 'proposal'), 'payload').tag == ('p', tag): return fld(c.v, '0').bits
            return None
        if r.variant == 0:
            tgt = which if which < G else 7
            ok_state = (len(pmap.entries) == (G if which < G else G + 1)) and len(pagg.added) == 1 and pagg.added[0][0] is msg2 and pagg.junk is False
            if ok_state and ki < N:
                conds = []
                for k in range(G):
                    b = bits_of(k)
                    conds += [values_equal(ex, b[i], True if (k == tgt and i == ki) else pre[k][i]) for i in range(N)]
                if which == G:
                    b = bits_of(7)
                    conds += [values_equal(ex, b[i], i == ki) for i in range(N)]
                ok_state = b_and(*conds)
            else: ok_state = False
        else:
            ok_state = len(pmap.entries) == G and len(pagg.added) == 0 and pagg.junk is False
            if ok_state:
                ok_state = b_and(*[values_equal(ex, bits_of(k)[i], pre[k][i]) for k in range(G) for i in range(N)])
        return r, cond, to_z3_bool(ok_state)
    res = explore(ex, body, budget_s=1500)
    rep.absorb_stats(ex.stats)
    viol = []; res2 = []
    for kind, val, pc, log in res:
        if kind == 'ok':
            r, cond, state_ok = val
            st, m = solve(pc, z3.Not(state_ok))
            if st == 'sat': viol.append(('add[timeout]:state', f'TimeoutQC::add leaves a wrong certificate state after returning {"Ok" if r.variant == 0 else "Err"} (N={N})', m, get_info(log), r.variant == 0))
            res2.append((kind, (r, cond), pc, log))
        else: res2.append((kind, val, pc, log))
    return viol + classify(rep, res2, None, 'add[timeout]', N), len(res)


def check_assemble(rep, db, N):
    """CommitQC::new + add (every subset of members, valid votes) + verify: accepted iff the weight reaches the quorum."""
    ex = Exec(db, loop_bound=2 * N + 8)
    install(ex)

    def body(ex):
        w = World(ex, db, N); mk = w.mk
        av = ex.fresh('v'); anum = ex.fresh('num')
        msg = mk.adt(V + r'v2::replica_commit::ReplicaCommit', view=w.view(w.g0, av, w.e0), proposal=w.header(anum, z3.Int('hash')))
        qc = ex.call_by_name(r'.*v2::replica_commit::CommitQC::new', [msg, Ref(Cell(w.sched))])
        cell = Cell(qc)
        chosen = []
        info = dict(kind='assemble', ws=w.ws, e0=w.e0, g0=w.g0, asm=dict(v=av, num=anum, chosen=chosen))
        ex.log.append(('info', info))
        for i in range(N):
            if ex.choose(2, f'vote{i}') == 0:
                chosen.append(i)
                signed = mk.adt(V + r'msg::Signed', display=r'.*Signed<.*ReplicaCommit>', msg=msg, key=Opaque(('key', i)), sig=GhostSig(msg, Opaque(('key', i)), True))
                r = ex.call_by_name(r'.*v2::replica_commit::CommitQC::add', [Ref(cell), Ref(Cell(signed)), w.genesis_arg(), w.epoch_arg(), Ref(Cell(w.sched))])
                if r.variant != 0: raise Panic('add refused an individually valid vote from a new member')
        r = ex.call_by_name(r'.*v2::replica_commit::CommitQC::verify', [Ref(cell), w.genesis_arg(), w.epoch_arg(), Ref(Cell(w.sched))])
        wsum = sum((w.ws[i].e for i in chosen), z3.IntVal(0))
        info['cond'] = wsum >= w.q
        return r, wsum >= w.q
    res = explore(ex, body, budget_s=1200)
    rep.absorb_stats(ex.stats)
    return classify(rep, res, None, 'assemble[commit]', N), len(res)


def run(rep, db, tier, seed):
    rep.engines.append('mirsym (MIR symbolic execution + z3)')
    rep.trusted += M.TRUSTED + env.TRUSTED + ['ideal signatures: verify_msg / verify_messages succeed iff the (message, key) pairs presented by the code are exactly those the ghost signature covers; BLS, rogue-key resistance and message hashing are outside the claim',
                                               'bit_vec::BitVec modelled as a list of Booleans (and/or panic on length mismatch as the crate asserts)']
    rep.assumptions += ['protobuf decoding of certificates is covered by C09/C10, not here', 'committee sizes above the bound and more than 2 (quick) / 3 (thorough) timeout-vote groups are outside the claim']
    Ns = [1, 2, 3] if tier == 'quick' else [1, 2, 3, 4]
    Gs = [1, 2] if tier == 'quick' else [1, 2, 3]
    rep.bounds = dict(validators=Ns, timeout_vote_groups=Gs, bitmap_lengths='N-1, N, N+1 (last group)', nesting='a timeout vote may carry one commit certificate', weights='symbolic 1 <= w < 2^58')
    seen = {}

    def handle(name, fn, *args):
        t0 = time.time()
        try:
            viol, npaths = fn(rep, db, *args)
            for key, text, m, info, expected in viol:
                if key in seen and (seen[key] < 0 or seen[key] >= 8): continue     # reproduced already, or 8 instances tried
                seen[key] = seen.get(key, 0) + 1
                if seen[key] > 1:
                    # an earlier instance of this class did not reproduce (e.g. its vote groups iterate in another order in the
                    # real BTreeMap): withdraw it and try this instance
                    rep.violations[:] = [v for v in rep.violations if not (v.key == key and v.reproduced is False)]
                wit = witness_text(m)
                path = None; reproduced = None
                try:
                    src = c04_replay.gen(info['kind'], m, info, expected)
                    rr = replay.run_replay(f'c04_{len(seen)}', src); rep.replayed += 1
                    path = rr['path']; reproduced = rr['reproduced']
                    if reproduced is None: rep.add(Obligation('replay', 'inconclusive', 'replay harness failed: ' + rr['output'][-1500:]))
                except Exception as ex_:
                    rep.add(Obligation('replay', 'inconclusive', f'replay generation failed: {type(ex_).__name__}: {ex_}'))
                rep.violation(Violation(PROP, key, text + ' | ' + wit, path, reproduced is True))
                if reproduced is True: seen[key] = -1
            rep.add(Obligation(name, 'violated' if viol else 'discharged', paths=npaths, wall_s=round(time.time() - t0, 1)))
            if len(rep.samples) < 8: rep.samples.append(f'{name}: {npaths} feasible paths, verify==Ok <=> acceptance condition decided on each')
        except Unmodelled as u:
            rep.add(Obligation(name, 'inconclusive', str(u)))
    for N in Ns:
        for entry in ENTRY_COMMIT:
            if entry != 'commit_qc' and N > 2 and tier == 'quick': continue
            handle(f'CommitQC soundness+completeness+totality via {entry} N={N}', check_commit_verify, N, entry)
        handle(f'CommitQC::add N={N}', check_commit_add, N)
        handle(f'TimeoutQC::add N={N}', check_timeout_add, N)
        handle(f'assemble by add then verify N={N}', check_assemble, N)
    for N in Ns:
        for G in Gs:
            if G > N: continue
            if tier == 'quick' and N * G > 4: continue
            handle(f'TimeoutQC soundness+completeness+totality N={N} groups={G}', check_timeout_verify, N, G, 'timeout_qc')
    handle('TimeoutQC via ReplicaNewView N=2 groups=1', check_timeout_verify, 2, 1, 'new_view')
    rep.extra['violation_classes'] = seen
    rep.extra['explanation'] = 'verify()==Ok is shown equivalent to the acceptance condition of the statement on every path of the real verification code, for all weights / bitmaps / views / signature contents within the committee-size bound'


def witness_text(m):
    if m is None: return ''
    items = []
    for d in sorted(m.decls(), key=lambda d: d.name()):
        if d.arity() == 0 and not d.name().startswith(('k!', 'shape', 'len!', 'hash_order')):
            items.append(f'{d.name()}={m[d]}')
    return 'witness: ' + ', '.join(items)[:900]
