"""Kani / CBMC part of a property check: runs the harnesses registered in /verif/kani/harnesses.json for the property
and tier (in parallel lanes with separate target dirs), maps results to obligations."""
import json, os, threading, time
from concurrent.futures import ThreadPoolExecutor
import framework  # sets VERIF_ROOT before kani_runner reads it
import kani_runner
from framework import Obligation, Violation, TARGET, VERIF


def select(prop, tier):
    hs = kani_runner.load_harnesses()
    tiers = ('quick',) if tier == 'quick' else ('quick', 'thorough')
    return [h for h in hs if h['property'] == prop and h['tier'] in tiers]


def run(rep, prop, tier, max_parallel=4, only=None):
    hs = select(prop, tier)
    if only: hs = [h for h in hs if only(h)]
    if not hs:
        return []
    rep.engines.append('Kani 0.68 / CBMC 6.11 (cadical)')
    lanes = {}
    for i, h in enumerate(sorted(hs, key=lambda h: -(h.get('measured_s') or 1))):
        lanes.setdefault((h['crate'], i % max_parallel), []).append(h)
    results = []
    lock = threading.Lock()

    def lane_run(item):
        (crate, lane), items = item
        for h in items:
            r = kani_runner.run_harness(h['crate'], h['harness'], h.get('timeout_s', 900), h.get('mem_gb', 12), target_dir=f'{TARGET}/kani-{crate}-{lane}')
            with lock: results.append((h, r))
    with ThreadPoolExecutor(max_workers=max_parallel) as pool:
        list(pool.map(lane_run, sorted(lanes.items(), key=lambda kv: kv[0][1])))
    for h, r in results:
        name = f'kani:{h["crate"]}::{h["harness"]}'
        st = r['status']
        if st == 'pass':
            rep.add(Obligation(name, 'discharged', checks=r.get('checks_total'), verification_time_s=r.get('verification_time_s'), bounds=h.get('bounds'), asserts=h.get('asserts')))
            rep.nontrivial += 1
            rep.queries += 1; rep.solver_s += r.get('verification_time_s') or 0
            for f in h.get('functions', []): rep.functions[f] = rep.functions.get(f, 0) + 1
            if len(rep.samples) < 10: rep.samples.append(f'{name}: {h.get("asserts", "")[:160]} | bounds: {h.get("bounds", "")[:120]}')
        elif st == 'fail':
            failed = '; '.join(r.get('failed_checks', [])[:3])
            play = None
            try:
                play = kani_runner.concrete_playback(h['crate'], h['harness'])
            except Exception:
                pass
            path = None
            if play:
                os.makedirs(VERIF + '/replay', exist_ok=True)
                path = f'{VERIF}/replay/kani_{h["crate"]}_{h["harness"]}.rs'
                open(path, 'w').write(play)
            rep.violation(Violation(prop, f'kani:{h["harness"]}', f'Kani harness {h["crate"]}::{h["harness"]} failed: {failed} ({h.get("asserts", "")[:200]})', path or r.get('log'), True))
            rep.add(Obligation(name, 'violated', failed[:400]))
        else:
            rep.add(Obligation(name, 'inconclusive', (r.get('reason') or '')[:400]))
    rep.trusted.append('Kani harness environment: std::backtrace::Backtrace::capture stubbed; tracing replaced by a no-op shim crate (kani-compiler 0.68 crashes on span code); crate-private files path-included against modelled ctx/sync/time modules where stated in harnesses.json')
    return results
