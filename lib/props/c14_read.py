"""C14 — reading from a transient sub-stream: `ReadStream::read_exact` (coroutine) executed on its real MIR. The
per-stream frame channel answers by contract (an arbitrary OPEN / DATA / CLOSE frame with an arbitrary amount of
unread data, disconnection, or cancellation); `noise::bytes::Buffer` is used through its contract (decided on the real
file under C13). Obligations, index-level (byte order inside a buffer is the Buffer contract):
 - bytes are moved from a DATA frame into the caller's buffer as min(free space, unread bytes of the frame); a frame
   with unread bytes left is kept as the cached frame and is the FIRST thing consumed by the next read (complete, in order);
 - a frame is dropped only when all of its data was moved (its read permit is released with it, not earlier);
 - once CLOSE was received nothing more is taken from the channel or the cache (end-of-stream is sticky and does not
   swallow the next stream's frames); a disconnected channel is end-of-stream;
 - read_exact returns Ok exactly when the buffer is full or the stream ended."""
import time
import z3
from mirsym.core import (Exec, explore, solve, Num, Agg, Ref, Cell, Opaque, Unmodelled, BoundExceeded, num_cmp, num_arith, to_z3_bool, UNIT)
from mirsym import env, models as M
from mirsym.models import some, none, ok, err, ready, pending, BoxV, deref_all
from mirsym.mk import Mk, fld
from props import coro
from props.coro import EnvFuture, CANCELED
from props.c11 import panic_key
import framework as F

NET = 'zksync_consensus_network'


def zb(x): return to_z3_bool(x)


class BufV:
    """noise::bytes::Buffer by contract: `cap` total capacity, `len` bytes of content (symbolic)"""
    n = 0
    def __init__(self, ex, tag, cap=None, length=None):
        BufV.n += 1; self.tag = tag
        self.cap = cap if cap is not None else ex.fresh(f'{tag}_cap'); self.len = length if length is not None else ex.fresh(f'{tag}_len')
    def py_clone(self, ex): return self
    def __repr__(self): return f'Buf<{self.tag}>'


def run(rep, db, tier):
    name = 'ReadStream::read_exact: complete, in order, end-of-stream at CLOSE'
    t0 = time.time()
    ex = Exec(db, loop_bound=8)
    env.install(ex); coro.install_futures(ex)
    n_before = len(ex.user_models)
    cur = [None]
    mk = Mk(db, NET)
    log = lambda: cur[0]['log']

    # ---- Buffer contract
    def b(a): return deref_all(a[0])
    ex.model_path('zksync_consensus_network::noise::bytes::Buffer::len', lambda e, n, a: b(a).len)
    ex.model_path('zksync_consensus_network::noise::bytes::Buffer::capacity', lambda e, n, a: num_arith('Sub', b(a).cap, b(a).len))
    ex.model_path('zksync_consensus_network::noise::bytes::Buffer::as_slice', lambda e, n, a: Ref(Cell(SliceOf(b(a)))))

    def push(e, n, a):
        dst = b(a); src = deref_all(a[1])
        free = num_arith('Sub', dst.cap, dst.len)
        srclen = src.buf.len
        k = e.fresh('moved'); e.assume(z3.And(k.e <= free.e, k.e <= srclen.e, z3.Or(k.e == free.e, k.e == srclen.e)))
        log().append(('push', dst, src.buf, k, free, srclen))
        dst.len = Num(dst.len.e + k.e, 64)
        return k
    ex.model_path('zksync_consensus_network::noise::bytes::Buffer::push', push)

    def take(e, n, a):
        buf = b(a); k = a[1]
        log().append(('take', buf, k, buf.len))
        buf.len = Num(buf.len.e - k.e, 64)
        return UNIT
    ex.model_path('zksync_consensus_network::noise::bytes::Buffer::take', take)

    # ---- read permits: the drop glue of Frame / Option<Frame> is executed (real MIR); the permit's own drop is the observation
    ex.drop_types = [r'drop_in_place::<(std::option::Option<)?zksync_consensus_network::mux::reusable_stream::(Frame|ReadPermit)>']
    def permit_drop(e, n, a):
        v = a[0]
        while isinstance(v, Ref): v = v.get()
        if isinstance(v, Agg) and v.variant == 1 and v.fields: v = v.fields[0]
        if isinstance(v, PermitV) and v.dropped_at is None:
            v.dropped_at = (v.buf.len, len(log())); log().append(('permit_dropped', v))
        return UNIT
    ex.model(r'std::ptr::drop_in_place::<(std::option::Option<)?zksync_consensus_network::mux::reusable_stream::ReadPermit>+', permit_drop)
    ex.model(r'std::ptr::drop_in_place::<(std::option::Option<)?zksync_consensus_network::noise::bytes::Buffer>+', lambda e, n, a: UNIT)

    # ---- frame channel
    def recv(e, n, a):
        def respond(e2):
            s = cur[0]; s['recvs'] += 1
            if s['recvs'] > s['max_recvs']: return pending()
            log().append(('recv',))
            c = e2.choose(5, 'frame')
            if c == 0: return ready(err(CANCELED))
            if c == 1: log().append(('disconnected',)); return ready(ok(err(Agg('adt', 'Disconnected', 0, []))))
            kind = {2: 0b0000000000000000, 3: 0b0100000000000000, 4: 0b1000000000000000}[c]
            sid = e2.fresh('frame_stream_bits', 16); e2.assume(sid.e < 16384)
            hdr = mk.tuple_struct(r'zksync_consensus_network::mux::header::Header', Num(kind + sid.e, 16))
            data = none()
            if c == 3:
                fb = BufV(e2, f'frame{s["recvs"]}'); e2.assume(z3.And(fb.len.e >= 1, fb.len.e <= fb.cap.e, fb.cap.e <= 65535))
                data = some(fb)
            pm = none()
            if c == 3: pv_ = PermitV(fb); s['permits'].append(pv_); pm = some(pv_)
            fr = mk.adt(r'zksync_consensus_network::mux::reusable_stream::Frame', header=hdr, data=data, _permit=pm)
            log().append(('frame', ['open', 'data', 'close'][c - 2], data.fields[0] if c == 3 else None))
            return ready(ok(ok(fr)))
        return EnvFuture('frame channel', respond)
    ex.model(r'zksync_concurrency::ctx::channel::UnboundedReceiver::<.*>::recv_or_disconnected', recv)
    def lock_deref(e, n, a):
        v = a[0]
        while isinstance(v, Ref): v = v.get()
        return Ref(v.cell) if isinstance(v, BoxV) else NotImplemented
    ex.model(r'<zksync_concurrency::sync::ExclusiveLock<.*> as std::ops::Deref(Mut)?>::deref(_mut)?', lock_deref)
    mine = ex.user_models[n_before:]; del ex.user_models[n_before:]
    ex.user_models[0:0] = mine; ex._um_cache = {}
    key = db.find_one(r'zksync_consensus_network::mux::transient_stream::ReadStream::read_exact', kinds=('fn',))
    rrs_t = mk.ty(r'zksync_consensus_network::mux::reusable_stream::ReadReusableStream')

    def body(ex):
        s = dict(log=[], recvs=0, max_recvs=2, permits=[]); cur[0] = s
        # arbitrary stream state: CLOSE seen or not; a cached DATA frame with unread bytes or none
        closed = ex.choose(2, 'close_received') == 0
        cache = none(); cached = None
        if ex.choose(2, 'cached_frame') == 0:
            cached = BufV(ex, 'cached'); ex.assume(z3.And(cached.len.e >= 1, cached.len.e <= cached.cap.e, cached.cap.e <= 65535))
            hdr = mk.tuple_struct(r'zksync_consensus_network::mux::header::Header', Num(0b0100000000000000, 16))
            # the harness follows the declared type of the `cache` field: the whole frame (data + read permit) or, if the code
            # keeps only the unread bytes, just those — the permit obligations below are about frames taken from the channel
            cdisp = db.ty(NET, [f for f in rrs_t['info']['variants'][0]['fields'] if f['name'] == 'cache'][0]['ty'])['display']
            if cdisp.endswith('Frame>'):
                pv_ = PermitV(cached); s['permits'].append(pv_)
                cache = some(mk.adt(r'zksync_consensus_network::mux::reusable_stream::Frame', header=hdr, data=some(cached), _permit=some(pv_)))
            elif cdisp.endswith('Buffer>'):
                cache = some(cached)
            else:
                raise Unmodelled(f'ReadReusableStream::cache has type {cdisp}: environment model out of date')
        rrs = mk.adt(r'zksync_consensus_network::mux::reusable_stream::ReadReusableStream', cache=cache, recv=Opaque('frame_channel'), close_received=closed)
        stream = mk.tuple_struct(r'zksync_consensus_network::mux::transient_stream::ReadStream', BoxV(rrs))
        dst = BufV(ex, 'dst'); ex.assume(z3.And(dst.len.e <= dst.cap.e, dst.cap.e <= 65535))
        pre_len = dst.len
        cell = Cell(stream)
        r = coro.run_async(ex, key, [Ref(cell), Ref(Cell(Opaque('ctx'))), Ref(Cell(dst))])
        post = fld(cell.v, '0')
        while isinstance(post, (Ref, BoxV)): post = post.get() if isinstance(post, Ref) else post.cell.v
        return r, closed, cached, dst, pre_len, post, list(s['log']), list(s['permits'])
    try:
        res = explore(ex, body, budget_s=900)
    except (Unmodelled, BoundExceeded, KeyError) as u:
        rep.absorb_stats(ex.stats)
        rep.add(F.Obligation(name, 'inconclusive', f'{type(u).__name__}: {u}'[:700])); return
    rep.absorb_stats(ex.stats)
    viol = {}; moved_paths = 0

    def need(pc, k, text, cond):
        if k in viol: return
        st, m = solve(pc, z3.Not(cond))
        if st == 'sat': viol[k] = (text, m)
        elif st != 'unsat': raise Unmodelled('solver unknown')
    for kind, val, pc, _ in res:
        if kind == 'panic':
            st, m = solve(pc, None)
            if st == 'sat': viol.setdefault('read:' + panic_key(val), (f'ReadStream::read_exact panics: {val[0]} at {val[1]}', m))
            continue
        r, closed, cached, dst, pre_len, post, log, permits = val
        evs = [e[0] for e in log]
        if closed:
            need(pc, 'read:reads-past-close', 'after CLOSE was received read_exact still takes frames (it would swallow data of the next stream on this reusable stream)', z3.BoolVal('recv' not in evs and 'push' not in evs))
            continue
        # order: the cached frame is consumed before anything is received
        pushes = [e for e in log if e[0] == 'push']
        if pushes: moved_paths += 1; rep.nontrivial += 1
        if cached is not None and pushes:
            need(pc, 'read:cache-not-first', 'data received later is delivered before the cached rest of an earlier frame (order)', z3.BoolVal(pushes[0][2] is cached))
            first_recv = evs.index('recv') if 'recv' in evs else len(evs)
            first_push = evs.index('push')
            need(pc, 'read:cache-not-first', 'a frame is taken from the channel before the cached rest of an earlier frame was consumed', z3.BoolVal(first_push < first_recv))
        if cached is not None and not pushes and r != 'pending' and r.variant == 0:
            need(pc, 'read:cached-data-lost', 'read_exact returns with free space in the buffer while cached data was not delivered', z3.BoolVal(False))
        # every push is followed by a take of exactly the moved bytes from the same frame
        for i, e in enumerate(log):
            if e[0] != 'push': continue
            nxt = log[i + 1] if i + 1 < len(log) else None
            good = nxt is not None and nxt[0] == 'take' and nxt[1] is e[2]
            need(pc, 'read:moved-bytes-not-consumed', 'bytes copied into the caller\'s buffer are not removed from the frame (they would be delivered twice) or other bytes are removed (lost)',
                 z3.And(z3.BoolVal(bool(good)), (nxt[2].e == e[3].e) if good else z3.BoolVal(False)))
        # frames with unread data are kept, in the cache, for the next read
        frames = [e[2] for e in log if e[0] == 'frame' and e[1] == 'data'] + ([cached] if cached is not None else [])
        post_cache = fld(post, 'cache')
        pc_buf = find_buf(post_cache) if post_cache.variant == 1 else None
        # flow control: the read permit of a frame (its share of read_frame_count / read_buffer_size) is given back exactly when the
        # frame's data has been consumed completely — never while unread bytes of it are still held (cached) by the stream
        for pm in permits:
            if pm.dropped_at is not None:
                need(pc, 'read:permit-released-early', 'the read permit of a DATA frame is released while unread bytes of the frame are still held by the stream (received-but-unconsumed data is no longer counted against read_buffer_size / read_frame_count)', pm.dropped_at[0].e == 0)
            elif r != 'pending' and pm.buf is not pc_buf:
                need(pc, 'read:permit-leaked', f'a DATA frame is gone but its read permit was never released (the intake budget shrinks for good) [events: {[e[0] for e in log]}, result {str(r)[:40]}]', z3.BoolVal(False))
        for fb in frames:
            if fb is pc_buf: continue
            if r == 'pending': continue
            need(pc, 'read:unread-data-dropped', 'a DATA frame is dropped although not all of its bytes were delivered (data loss; its read permit is released early)', fb.len.e == 0)
        if pc_buf is not None:
            need(pc, 'read:empty-frame-cached', 'a fully consumed frame stays cached (its read permit is never released)', pc_buf.len.e >= 1)
        # result
        if r != 'pending' and r.variant == 0:
            ended = 'disconnected' in evs or any(e[0] == 'frame' and e[1] == 'close' for e in log)
            need(pc, 'read:returns-early', 'read_exact returns Ok although the buffer is not full and the stream has not ended', z3.Or(dst.len.e == dst.cap.e, z3.BoolVal(ended)))
            if any(e[0] == 'frame' and e[1] == 'close' for e in log):
                need(pc, 'read:close-not-recorded', 'a CLOSE frame was consumed but end-of-stream is not recorded (the next read would continue into the next stream)', z3.BoolVal(bool(fld(post, 'close_received') is True or fld(post, 'close_received') == True)))
    for k, (text, m) in viol.items():
        rep.violation(F.Violation(rep.prop, k, text, None, None, ', '.join(f'{d.name()}={m[d]}' for d in m.decls() if d.arity() == 0 and '!' not in d.name())[:400] if m is not None else ''))
    if moved_paths == 0 and not viol:
        rep.add(F.Obligation(name, 'inconclusive', 'no path moves data (vacuous)')); return
    rep.add(F.Obligation(name, 'violated' if viol else 'discharged', paths=len(res), wall_s=round(time.time() - t0, 1)))
    rep.samples.append(f'ReadStream::read_exact: {len(res)} paths, {moved_paths} move data')


class PermitV:
    """the ReadPermit of one inbound frame (count + size semaphore permits); dropping it returns the frame's share of the intake budget"""
    def __init__(self, buf): self.buf = buf; self.dropped_at = None
    def py_clone(self, ex): return self
    def __repr__(self): return f'ReadPermit<{self.buf}>'


def find_buf(v, depth=0):
    """the BufV held somewhere inside a value (representation-independent view of the cached rest of a frame)"""
    if isinstance(v, BufV): return v
    if depth > 6: return None
    if isinstance(v, Ref): return find_buf(v.get(), depth + 1)
    if isinstance(v, BoxV): return find_buf(v.cell.v, depth + 1)
    if isinstance(v, Agg):
        for f in v.fields:
            r = find_buf(f, depth + 1)
            if r is not None: return r
    return None


class SliceOf:
    def __init__(self, buf): self.buf = buf
    def py_clone(self, ex): return self
