"""C09 — byte-level canonical form: `zksync_protobuf::canonical_raw` (proto_fmt.rs:167-252) executed on the real MIR for EVERY
byte string up to a length bound, compared with a reference written from the canonical-encoding spec in the module
documentation.

Real code executed: canonical_raw, read_fields, Reader::{new, read, read_field}, Wire::{from_tag, raw, From<Kind>} (recursion
into sub-messages included). Modelled (trusted): the quick-protobuf byte reader / writer (varint, fixed, length-delimited —
transcribed from quick-protobuf 0.8.1 reader.rs / writer.rs, including its silent truncation of over-long varints) and the
prost-reflect descriptor, which is a FIXED two-message proto3 schema instead of a run-time descriptor pool:

    message M0 { optional uint64 a = 1; repeated uint32 b = 2; optional bytes c = 3; optional M1 d = 4;
                 repeated fixed32 e = 5; repeated M1 f = 6; uint32 implicit = 7; }
    message M1 { optional uint64 x = 1; repeated uint64 y = 2; }

Reference (`sem` + `enc` below): a byte string is a sequence of TLVs; a field's values are collected in order of appearance
whether they arrive one TLV each, packed, or mixed, and wherever they sit between other fields; the canonical form lists
the fields in ascending number, a scalar field as one TLV (packed iff more than one value, omitted if it has none), minimal
varints, a length-delimited field as one TLV per value in order, sub-messages canonical. Unknown fields, wire types that do
not fit the field, implicit-presence fields, singular fields given more than once and truncated input are refused.

Obligation per path (symbolic bytes, concrete length): no panic; result == Ok(enc(sem(bytes))) if sem is defined, Err
otherwise; the output is a fixpoint. Because enc∘sem does not look at order or packing, this is the statement "every valid
serialisation of a message normalises to the same canonical bytes" for all inputs inside the bound.
Don't-care (only no-panic + fixpoint checked): a SINGULAR scalar given in packed form (not a valid protobuf serialisation;
the implementation accepts it when the chunk holds exactly one value).
"""
import time
import z3
from mirsym.core import (Exec, explore, solve, Num, Agg, Ref, Cell, Opaque, Panic, Unmodelled, BoundExceeded, Infeasible, num_cmp, to_z3_bool, UNIT)
from mirsym import env, models as M
from mirsym.models import some, none, ok, err, VecV, deref_all
from mirsym.mk import Mk
from framework import Obligation, Violation
from props.c11 import panic_key

PROP = 'C09'
FIXPOINT_MAX_LEN = 4
VARINT, I64, LEN, I32 = 0, 1, 2, 5
# schema: msg -> num -> (kind name, wire, is_list, supports_presence, nested msg)
SCHEMA = {
    0: {1: ('Uint64', VARINT, False, True, None), 2: ('Uint32', VARINT, True, False, None), 3: ('Bytes', LEN, False, True, None),
        4: ('Message', LEN, False, True, 1), 5: ('Fixed32', I32, True, False, None), 6: ('Message', LEN, True, False, 1),
        7: ('Uint32', VARINT, False, False, None)},
    1: {1: ('Uint64', VARINT, False, True, None), 2: ('Uint64', VARINT, True, False, None)},
}


class DescV:
    def __init__(self, msg): self.msg = msg
    def py_clone(self, ex): return self
    def __repr__(self): return f'MessageDescriptor(M{self.msg})'


class FieldV:
    def __init__(self, msg, num): self.msg = msg; self.num = num
    def py_clone(self, ex): return self
    def __repr__(self): return f'Field(M{self.msg}.{self.num})'


class RdV:
    """quick_protobuf::BytesReader: start / end (concrete per path)"""
    def __init__(self, end): self.start = 0; self.end = end
    def py_clone(self, ex): r = RdV(self.end); r.start = self.start; return r


class WrV:
    """quick_protobuf::Writer<&mut Vec<u8>>"""
    def __init__(self, target): self.target = target
    def py_clone(self, ex): return self


class Invalid(Exception):
    pass


class DontCare(Exception):
    pass


def B(v):
    return v if isinstance(v, Num) else Num(v, 8)


def byte_e(b):
    return b.e if isinstance(b, Num) else z3.IntVal(b)


# ------------------------------------------------------------------ shared varint arithmetic (reader side: quick-protobuf semantics)
def rd_u8(ex, r, data):
    if r.start >= len(data): return None
    b = data[r.start]; r.start += 1
    return B(b)


def cont(ex, b):
    """continuation bit of a byte"""
    if b.concrete: return b.e >= 128
    return ex.branch(b.e >= 128)


def rd_varint(ex, r, data, width):
    """returns z3 Int expression | None (error). width 32: quick-protobuf read_varint32 (bytes 5..9 discarded, 5th byte masked
    with 0xF); width 64: read_varint64 (10th byte contributes its low bit(s) shifted by 63, rest truncated)."""
    acc = z3.IntVal(0)
    for i in range(10):
        b = rd_u8(ex, r, data)
        if b is None: return None
        be = byte_e(b)
        more = cont(ex, b)
        if width == 32:
            if i < 4: acc = acc + (be % 128) * (128 ** i)
            elif i == 4: acc = acc + (be % 16) * (2 ** 28)
        else:
            if i < 9: acc = acc + (be % 128) * (128 ** i)
            else: acc = (acc + be * (2 ** 63)) % (2 ** 64)      # (b as u32) << 7 then << 56: bits beyond 64 are dropped
        if not more:
            return z3.simplify(acc)
    return None


def varint_bytes(ex, v):
    """minimal varint encoding of a non-negative z3 Int (< 2^64): list of byte expressions; branches on the size"""
    v = z3.simplify(v)
    out = []
    for i in range(10):
        rest = v / (128 ** i) if i else v
        last = ex.branch(rest < 128)
        if last:
            out.append(Num(z3.simplify(rest), 8)); return out
        out.append(Num(z3.simplify(rest % 128 + 128), 8))
    raise Unmodelled('varint longer than 10 bytes')


def fixed_bytes(v, n):
    return [Num(z3.simplify((v / (256 ** i)) % 256), 8) for i in range(n)]


def fixed_value(bs):
    return z3.simplify(sum((byte_e(B(b)) * (256 ** i) for i, b in enumerate(bs)), z3.IntVal(0)))


# ------------------------------------------------------------------ models
def install(ex, mk):
    env.install(ex)
    kind_t = None

    def kind_val(msg, num):
        name, wire, is_list, pres, nested = SCHEMA[msg][num]
        if name == 'Message':
            return mk.adt(r'prost_reflect::(descriptor::)?Kind$', 'Message', _0=DescV(nested))
        return mk.adt(r'prost_reflect::(descriptor::)?Kind$', name)

    P = r'prost_reflect::.*'
    ex.model(P + r'MessageDescriptor>?::parent_file', lambda e, n, a: Opaque('FileDescriptor'))
    ex.model(P + r'FileDescriptor>?::syntax$', lambda e, n, a: mk.adt(r'prost_reflect::(descriptor::)?Syntax$', 'Proto3'))

    def get_field(e, n, a):
        d = deref_all(a[0]); num = a[1]
        for f in sorted(SCHEMA[d.msg]):
            if num.concrete:
                if num.e == f: return some(FieldV(d.msg, f))
            elif e.branch(num.e == f):
                return some(FieldV(d.msg, f))
        return none()
    ex.model(P + r'MessageDescriptor>?::get_field$', get_field)
    fd = lambda a: deref_all(a[0])
    sch = lambda a: SCHEMA[fd(a).msg][fd(a).num]
    ex.model(P + r'FieldDescriptor>?::is_map$', lambda e, n, a: False)
    ex.model(P + r'FieldDescriptor>?::is_list$', lambda e, n, a: sch(a)[2])
    ex.model(P + r'FieldDescriptor>?::supports_presence$', lambda e, n, a: sch(a)[3])
    ex.model(P + r'FieldDescriptor>?::number$', lambda e, n, a: Num(fd(a).num, 32))
    ex.model(P + r'FieldDescriptor>?::kind$', lambda e, n, a: kind_val(fd(a).msg, fd(a).num))
    ex.model(P + r'FieldDescriptor>?::parent_message$', lambda e, n, a: DescV(fd(a).msg))
    ex.model(P + r'(FieldDescriptor|MessageDescriptor)>?::name$', lambda e, n, a: M.StrV('name'))

    Q = r'quick_protobuf::(reader::)?BytesReader::'
    data_of = lambda a: deref_all(a[1]).items
    qerr = lambda: err(Opaque('quick_protobuf::Error'))
    ex.model(Q + r'from_bytes', lambda e, n, a: RdV(len(deref_all(a[0]).items)))
    ex.model(Q + r'is_eof', lambda e, n, a: fd(a).start == fd(a).end)
    ex.model(Q + r'len', lambda e, n, a: Num(fd(a).end - fd(a).start, 64))

    def next_tag(e, n, a):
        v = rd_varint(e, fd(a), data_of(a), 32)
        return qerr() if v is None else ok(Num(v, 32))
    ex.model(Q + r'(next_tag|read_varint32)', next_tag)

    def read_varint64(e, n, a):
        v = rd_varint(e, fd(a), data_of(a), 64)
        return qerr() if v is None else ok(Num(v, 64))
    ex.model(Q + r'read_varint64', read_varint64)

    def read_fixed(nbytes, bits):
        def f(e, n, a):
            r = fd(a); d = data_of(a)
            if r.start + nbytes > len(d): return qerr()
            v = fixed_value(d[r.start:r.start + nbytes]); r.start += nbytes
            return ok(Num(v, bits))
        return f
    ex.model(Q + r'read_fixed64', read_fixed(8, 64))
    ex.model(Q + r'read_fixed32', read_fixed(4, 32))

    def read_bytes(e, n, a):
        r = fd(a); d = data_of(a)
        ln = rd_varint(e, r, d, 32)
        if ln is None: return qerr()
        ln = Num(ln, 32)
        # read_len: end = start + len; get(start..end) fails beyond the slice
        for k in range(len(d) - r.start + 1):
            if (ln.e == k) if ln.concrete else e.branch(ln.e == k):
                sub = d[r.start:r.start + k]; r.start += k
                return ok(Ref(Cell(VecV(list(sub), 'slice'))))
        return qerr()
    ex.model(Q + r'read_bytes', read_bytes)

    W = r'quick_protobuf::(writer::)?Writer::<.*>::'
    tgt = lambda a: deref_all(deref_all(a[0]).target)
    ex.model(W + r'new', lambda e, n, a: WrV(a[0]))

    def w_varint(e, n, a):
        tgt(a).items.extend(varint_bytes(e, a[1].e if isinstance(a[1].e, z3.ExprRef) else z3.IntVal(a[1].e))); return ok(UNIT)
    ex.model(W + r'(write_varint|write_tag)', w_varint)
    ex.model(W + r'write_fixed64', lambda e, n, a: (tgt(a).items.extend(fixed_bytes(z3.IntVal(a[1].e) if a[1].concrete else a[1].e, 8)), ok(UNIT))[1])
    ex.model(W + r'write_fixed32', lambda e, n, a: (tgt(a).items.extend(fixed_bytes(z3.IntVal(a[1].e) if a[1].concrete else a[1].e, 4)), ok(UNIT))[1])
    ex.model(W + r'write_u8', lambda e, n, a: (tgt(a).items.append(B(a[1])), ok(UNIT))[1])

    def w_bytes(e, n, a):
        bs = deref_all(a[1]).items
        tgt(a).items.extend(varint_bytes(e, z3.IntVal(len(bs)))); tgt(a).items.extend(B(b) for b in bs); return ok(UNIT)
    ex.model(W + r'write_bytes', w_bytes)
    # user models first
    return ex


# ------------------------------------------------------------------ reference
def sem(ex, data, msg):
    """logical content of a serialisation: {num: [values]} in order of appearance; values: ('v', int expr) varint scalars,
    ('x', [bytes]) fixed scalars, ('b', [bytes]) byte strings, ('m', {..}) sub-messages. Raises Invalid / DontCare."""
    r = RdV(len(data)); fields = {}
    while r.start != r.end:
        tag = rd_varint(ex, r, data, 32)
        if tag is None: raise Invalid('truncated tag')
        tag = Num(tag, 32)
        wire = None
        for wv in range(8):
            if ex.branch(tag.e % 8 == wv):
                wire = wv; break
        if wire not in (VARINT, I64, LEN, I32): raise Invalid('wire type')
        num = None
        for f in sorted(SCHEMA[msg]):
            if ex.branch(tag.e / 8 == f):
                num = f; break
        if num is None: raise Invalid('unknown field')
        kind, fwire, is_list, pres, nested = SCHEMA[msg][num]
        if not is_list and not pres: raise Invalid('implicit presence')
        vals = fields.setdefault(num, [])

        def one(rr, dd):
            if fwire == VARINT:
                v = rd_varint(ex, rr, dd, 64)
                if v is None: raise Invalid('truncated varint')
                return ('v', v)
            if fwire in (I64, I32):
                n = 8 if fwire == I64 else 4
                if rr.start + n > len(dd): raise Invalid('truncated fixed')
                bs = dd[rr.start:rr.start + n]; rr.start += n
                return ('x', [B(b) for b in bs])
            ln = rd_varint(ex, rr, dd, 32)
            if ln is None: raise Invalid('truncated length')
            for k in range(len(dd) - rr.start + 1):
                if ex.branch(ln == k):
                    sub = dd[rr.start:rr.start + k]; rr.start += k
                    return ('b', [B(b) for b in sub])
            raise Invalid('length beyond input')
        if wire == fwire:
            vals.append(one(r, data))
        elif wire == LEN:
            # packed scalars
            ln = rd_varint(ex, r, data, 32)
            if ln is None: raise Invalid('truncated length')
            chunk = None
            for k in range(len(data) - r.start + 1):
                if ex.branch(ln == k):
                    chunk = data[r.start:r.start + k]; r.start += k; break
            if chunk is None: raise Invalid('length beyond input')
            rr = RdV(len(chunk))
            got = []
            while rr.start != rr.end:
                got.append(one(rr, chunk))
            if not is_list:
                fields.setdefault('dontcare', True)
            vals.extend(got)
        else:
            raise Invalid('wire type does not fit the field')
    dont = fields.pop('dontcare', False)
    out = {}
    for num, vals in fields.items():
        kind, fwire, is_list, pres, nested = SCHEMA[msg][num]
        if not is_list and len(vals) > 1: raise Invalid('singular field given more than once')
        if nested is not None:
            vals = [('m', sem(ex, v[1], nested)) for v in vals]
        out[num] = vals
    if dont: raise DontCare()
    return out


def enc(ex, fields, msg):
    out = []
    for num in sorted(fields):
        vals = fields[num]
        kind, fwire, is_list, pres, nested = SCHEMA[msg][num]
        if not vals: continue
        if fwire != LEN:
            raw = []
            for t, v in vals:
                raw.append(varint_bytes(ex, v) if t == 'v' else list(v))
            if len(vals) > 1:
                flat = [b for r_ in raw for b in r_]
                out.extend(varint_bytes(ex, z3.IntVal(num * 8 + LEN))); out.extend(varint_bytes(ex, z3.IntVal(len(flat)))); out.extend(flat)
            else:
                out.extend(varint_bytes(ex, z3.IntVal(num * 8 + fwire))); out.extend(raw[0])
        else:
            for t, v in vals:
                body = enc(ex, v, nested) if t == 'm' else list(v)
                out.extend(varint_bytes(ex, z3.IntVal(num * 8 + LEN))); out.extend(varint_bytes(ex, z3.IntVal(len(body)))); out.extend(body)
    return out


# ------------------------------------------------------------------ replay against the real crates
REPLAY_HEAD = r'''
// generated by /verif/lib/props/c09_canon.py: the fixed schema M0 / M1 as a REAL prost-reflect descriptor pool, the
// witness byte strings through the REAL zksync_protobuf::canonical_raw, compared with the reference canonical form.
use prost_types::{field_descriptor_proto::{Label, Type}, DescriptorProto, FieldDescriptorProto, FileDescriptorProto, FileDescriptorSet, OneofDescriptorProto};

fn field(name: &str, num: i32, label: Label, ty: Type, type_name: Option<&str>, oneof: Option<i32>) -> FieldDescriptorProto {
    FieldDescriptorProto { name: Some(name.into()), number: Some(num), label: Some(label as i32), r#type: Some(ty as i32), type_name: type_name.map(|s| s.into()),
        oneof_index: oneof, proto3_optional: oneof.map(|_| true), json_name: Some(name.into()), ..Default::default() }
}
fn oneof(name: &str) -> OneofDescriptorProto { OneofDescriptorProto { name: Some(name.into()), ..Default::default() } }
fn pool() -> prost_reflect::DescriptorPool {
    let m1 = DescriptorProto { name: Some("M1".into()), field: vec![
        field("x", 1, Label::Optional, Type::Uint64, None, Some(0)), field("y", 2, Label::Repeated, Type::Uint64, None, None)],
        oneof_decl: vec![oneof("_x")], ..Default::default() };
    let m0 = DescriptorProto { name: Some("M0".into()), field: vec![
        field("a", 1, Label::Optional, Type::Uint64, None, Some(0)), field("b", 2, Label::Repeated, Type::Uint32, None, None),
        field("c", 3, Label::Optional, Type::Bytes, None, Some(1)), field("d", 4, Label::Optional, Type::Message, Some(".t.M1"), Some(2)),
        field("e", 5, Label::Repeated, Type::Fixed32, None, None), field("f", 6, Label::Repeated, Type::Message, Some(".t.M1"), None),
        field("implicit", 7, Label::Optional, Type::Uint32, None, None)],
        oneof_decl: vec![oneof("_a"), oneof("_c"), oneof("_d")], ..Default::default() };
    let file = FileDescriptorProto { name: Some("t.proto".into()), package: Some("t".into()), syntax: Some("proto3".into()), message_type: vec![m0, m1], ..Default::default() };
    prost_reflect::DescriptorPool::from_file_descriptor_set(FileDescriptorSet { file: vec![file] }).expect("descriptor pool")
}
/// the model's view of the schema (c09_canon.SCHEMA) must be what the real prost-reflect reports
fn check_model(p: &prost_reflect::DescriptorPool) {
    let want: &[(&str, u32, bool, bool)] = &[("t.M0", 1, false, true), ("t.M0", 2, true, false), ("t.M0", 3, false, true), ("t.M0", 4, false, true), ("t.M0", 5, true, false),
        ("t.M0", 6, true, false), ("t.M0", 7, false, false), ("t.M1", 1, false, true), ("t.M1", 2, true, false)];
    for (m, n, list, pres) in want {
        let f = p.get_message_by_name(m).unwrap().get_field(*n).unwrap();
        if f.is_list() != *list || f.supports_presence() != *pres || f.is_map() { println!("MODEL-MISMATCH schema field {m}.{n}"); panic!("MODEL-MISMATCH"); }
    }
    if p.get_message_by_name("t.M0").unwrap().get_field(8).is_some() { println!("MODEL-MISMATCH unknown field"); panic!("MODEL-MISMATCH"); }
}
fn hex(b: &[u8]) -> String { b.iter().map(|x| format!("{x:02x}")).collect() }
/// expect: "ok:<hex>" | "invalid" | "dontcare"
fn case(p: &prost_reflect::DescriptorPool, msg: &str, bytes: &[u8], expect: &str) -> bool {
    let desc = p.get_message_by_name(msg).unwrap();
    let got = std::panic::catch_unwind(|| zksync_protobuf::canonical_raw(bytes, &desc).map_err(|e| format!("{e:#}")));
    let good = match (&got, expect) {
        (Err(_), _) => false,
        (Ok(Ok(v)), e) if e.starts_with("ok:") => hex(v) == e[3..],
        (Ok(Err(_)), e) if e.starts_with("ok:") => false,
        (Ok(Ok(_)), "invalid") => false,
        (Ok(Err(_)), "invalid") => true,
        (Ok(Ok(v)), _) => zksync_protobuf::canonical_raw(v, &desc).ok().as_ref() == Some(v),
        (Ok(Err(_)), _) => true,
    };
    if !good { println!("MISMATCH {msg} bytes={} expect={expect} got={:?}", hex(bytes), got.as_ref().map(|r| r.as_ref().map(|v| hex(v))).map_err(|_| "PANIC")); }
    good
}
'''


def replay_src(cases):
    """cases: [(msg, [bytes], expect)]"""
    body = '\n'.join(f'    all &= case(&p, "t.M{m}", &[{", ".join(str(b) for b in bs)}], "{exp}");' for m, bs, exp in cases)
    return REPLAY_HEAD + f'''
#[test]
fn replay() {{
    let p = pool();
    check_model(&p);
    let mut all = true;
{body}
    assert!(all, "canonical_raw differs from the reference canonical form");
}}
'''


# ------------------------------------------------------------------ the check
def run_len(rep, db, key, L, msg, budget_s):
    ex = Exec(db, loop_bound=4 * L + 8)
    mk = Mk(db, 'zksync_protobuf')
    install(ex, mk)

    def body(ex):
        data = [ex.fresh(f'b{i}', 8) for i in range(L)]
        res = dict(data=data)
        try:
            res['want'] = enc(ex, sem(ex, data, msg), msg)
        except Invalid as i:
            res['want'] = ('invalid', str(i))
        except DontCare:
            res['want'] = ('dontcare',)
        buf = Ref(Cell(VecV(list(data), 'slice')))
        desc = Ref(Cell(DescV(msg)))
        try:
            r = ex.call_key(key, [buf, desc], 'canonical_raw')
        except Panic as p:
            res['panic'] = (p.msg, p.where or (ex.callstack[-1] if ex.callstack else '?')); return res
        res['variant'] = r.variant
        if r.variant == 0:
            out = deref_all(r.fields[0]).items
            res['out'] = [B(b) for b in out]
            # fixpoint (only for short inputs: the nested div/mod terms of a re-parsed output are expensive for the solver; for the rest it
            # follows from the main obligation, the output being itself an input whenever it is inside the bound)
            if L > FIXPOINT_MAX_LEN: res['again'] = 'skipped'; return res
            try:
                r2 = ex.call_key(key, [Ref(Cell(VecV(list(res['out']), 'slice'))), Ref(Cell(DescV(msg)))], 'canonical_raw')
                res['again'] = [B(b) for b in deref_all(r2.fields[0]).items] if r2.variant == 0 else None
            except Panic as p:
                res['again'] = None
        return res
    results = explore(ex, body, budget_s=budget_s)
    rep.absorb_stats(ex.stats)
    viol = {}
    n_ok = n_err = 0

    def witness(m, data):
        return 'bytes=[' + ' '.join('%02x' % (m.eval(d.e, model_completion=True).as_long()) for d in data) + f'] descriptor=M{msg}'

    def same(pc, a, b):
        """None if a == b on the whole path, else a model"""
        if len(a) != len(b):
            st, m = solve(pc, None)
            return m if st == 'sat' else None
        diff = z3.Or([byte_e(x) != byte_e(y) for x, y in zip(a, b)]) if a else z3.BoolVal(False)
        st, m = solve(pc, diff)
        if st == 'unknown': raise Unmodelled('solver unknown')
        return m if st == 'sat' else None
    def expect_of(m, want):
        if isinstance(want, tuple): return want[0]
        return 'ok:' + ''.join('%02x' % m.eval(byte_e(b), model_completion=True).as_long() for b in want)
    for kind, val, pc, _ in results:
        if kind == 'panic':
            raise Unmodelled(f'panic outside canonical_raw: {val}')
        data = val['data']; want = val['want']
        rep.nontrivial += 1
        cls = want[0] if isinstance(want, tuple) else 'valid'
        if 'panic' in val:
            st, m = solve(pc, None)
            if st == 'sat':
                pk = panic_key(val['panic'])
                viol.setdefault(f'canonical:panic:{cls}:' + pk, (f'canonical_raw panics ({val["panic"][0]} at {val["panic"][1]}) on a byte string of length {L} that is ' +
                                                               {'valid': 'a VALID serialisation', 'dontcare': 'a singular scalar in packed form', 'invalid': 'not a valid serialisation'}[cls], m, data, expect_of(m, want)))
            continue
        if val['variant'] == 0:
            n_ok += 1
            if val['again'] == 'skipped':
                pass
            elif val['again'] is None:
                st, m = solve(pc, None)
                if st == 'sat': viol.setdefault('canonical:not-fixpoint', ('canonical_raw refuses (or panics on) its own output', m, data, expect_of(m, want)))
            else:
                m = same(pc, val['again'], val['out'])
                if m is not None: viol.setdefault('canonical:not-fixpoint', ('canonical_raw(canonical_raw(b)) differs from canonical_raw(b)', m, data, expect_of(m, want)))
            if isinstance(want, tuple):
                if want[0] == 'invalid':
                    st, m = solve(pc, None)
                    if st == 'sat': viol.setdefault('canonical:accepts-invalid:' + want[1], (f'canonical_raw accepts a serialisation the canonical-encoding spec refuses ({want[1]})', m, data, 'invalid'))
            else:
                m = same(pc, val['out'], want)
                if m is not None: viol.setdefault('canonical:not-canonical', ('canonical_raw output differs from the canonical encoding of the message the input denotes (order / packing / varint minimality / field omission)', m, data, expect_of(m, want)))
        else:
            n_err += 1
            if not isinstance(want, tuple):
                st, m = solve(pc, None)
                if st == 'sat': viol.setdefault('canonical:refuses-valid', ('canonical_raw refuses a valid serialisation', m, data, expect_of(m, want)))
    out = {}
    for k, (text, m, data, expect) in viol.items():
        bs = [m.eval(d.e, model_completion=True).as_long() for d in data]
        out[k] = (text, witness(m, data), bs, expect)
    # concrete vectors for the differential validation of the models / the reference against the real crates
    samples = []
    picked = {'valid': 0, 'invalid': 0, 'dontcare': 0}
    for kind, val, pc, _ in reversed(results):
        want = val['want']; cls = want[0] if isinstance(want, tuple) else 'valid'
        if 'panic' in val or picked[cls] >= (6 if cls == 'valid' else 2): continue
        if cls == 'valid' and val.get('variant') != 0: continue
        st, m = solve(pc, None)
        if st != 'sat': continue
        picked[cls] += 1
        samples.append((msg, [m.eval(d.e, model_completion=True).as_long() for d in val['data']], expect_of(m, want)))
    return out, len(results), n_ok, n_err, samples


_CTX = None


def _one(c):
    import framework as F
    db, key, tier = _CTX
    L, msg = c
    sub = F.Report(PROP, tier, 0)
    try:
        v, n, n_ok, n_err, samples = run_len(sub, db, key, L, msg, 1500)
        return dict(L=L, msg=msg, viol=v, samples=samples, paths=n, ok=n_ok, err=n_err, q=sub.queries, s=sub.solver_s, p=sub.paths, fns=dict(sub.functions), nontrivial=sub.nontrivial)
    except (Unmodelled, KeyError, BoundExceeded) as u:
        return dict(L=L, msg=msg, error=f'{type(u).__name__}: {u}'[:700])


def run(rep, db, tier):
    t0 = time.time()
    keys = db.find(r'zksync_protobuf::proto_fmt::canonical_raw$', kinds=('fn',))
    if not keys:
        rep.add(Obligation('canonical_raw (byte-level canonical form)', 'inconclusive', 'canonical_raw not found in the dump')); return
    key = keys[0]
    maxlen = {0: 4, 1: 5} if tier == 'quick' else {0: 6, 1: 7}
    cases = sorted([(L, msg) for msg in (0, 1) for L in range(0, maxlen[msg] + 1)], key=lambda c: -c[0])

    global _CTX
    _CTX = (db, key, tier)
    import framework as F
    results = F.parallel_map(_one, cases)
    from replay import run_replay
    seen = set(); vectors = []; nrep = 0
    for r in sorted(results, key=lambda r: (r['L'], r['msg'])):
        name = f'canonical_raw == reference canonical form, all byte strings of length {r["L"]}, descriptor M{r["msg"]}'
        if 'error' in r:
            rep.add(Obligation(name, 'inconclusive', r['error'])); continue
        rep.queries += r['q']; rep.solver_s += r['s']; rep.paths += r['p']; rep.nontrivial += r['nontrivial']
        for f, c in r['fns'].items(): rep.functions[f] = rep.functions.get(f, 0) + c
        vectors += r['samples']
        for k, (text, wit, bs, expect) in r['viol'].items():
            if k in seen: continue
            seen.add(k)
            rr = run_replay(f'c09_canon_{nrep}', replay_src([(r['msg'], bs, expect)])); nrep += 1; rep.replayed += 1
            repro = rr['reproduced']
            if repro and 'MODEL-MISMATCH' in rr['output']: repro = None
            rep.violation(Violation(PROP, k, text + ' | ' + wit + f' | expected {expect}', rr['path'], repro if repro is not None else False, wit))
        rep.add(Obligation(name, 'violated' if r['viol'] else 'discharged', paths=r['paths'], accepted_paths=r['ok'], refused_paths=r['err']))
    # differential validation: concrete vectors from the explored paths through the real crates (must agree)
    if vectors:
        rr = run_replay('c09_canon_validation', replay_src(vectors)); rep.replayed += 1
        if rr['reproduced'] is False:
            rep.add(Obligation(f'model validation: {len(vectors)} concrete byte strings through the real canonical_raw and a real prost-reflect descriptor pool agree with the encoding', 'discharged'))
        elif seen and rr['reproduced'] is True and 'MODEL-MISMATCH' not in rr['output']:
            rep.add(Obligation('model validation', 'discharged', 'vectors disagree on a tree with reported violations (expected)'))
        else:
            rep.add(Obligation('model validation: concrete vectors through the real canonical_raw', 'inconclusive', 'the real crates disagree with the encoding on vectors the solver considers conforming:\n' + rr['output'][-1500:]))
    rep.samples.append(f'canonical_raw: every byte string of length 0..{maxlen[0]} (descriptor M0) / 0..{maxlen[1]} (M1) of the fixed schema; reference = spec transcription (sem/enc)')
    rep.trusted.append('quick-protobuf BytesReader / Writer modelled natively (varint incl. truncation of over-long encodings, fixed32/64 little endian, length-delimited); prost-reflect descriptor = fixed schema M0/M1 (c09_canon.py)')
