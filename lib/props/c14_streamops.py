"""C14 — the remaining sequential operations of a transient sub-stream, each executed on its real MIR from an arbitrary
state with the channels answered by contract:

 recv_open   `ReadReusableStream::recv_open` (coroutine): whatever the previous transient stream left behind (a cached
             DATA frame with unread bytes, the end-of-stream flag) and whatever frames are still queued before the peer's
             OPEN, after Ok(()) the reader is CLEAN: no cached frame, end-of-stream not set, every frame up to and
             including the OPEN consumed and none after it — nothing of the previous stream is visible on the next one.
 write_all   `WriteStream::write_all` + `WriteReusableStream::send_data` (coroutines): for a source of symbolic length and
             a write buffer of symbolic capacity (<= 3) and fill, the bytes are appended to the buffer in source order
             without gap or overlap, a DATA frame is emitted exactly when the buffer is full, each frame carries the
             whole buffer (1..capacity bytes) under this stream's id and kind, and frames + final buffer content account
             for exactly old content + source (no loss, no duplication, order kept).
 send_close / send_open: pending data is emitted BEFORE the CLOSE frame; CLOSE / OPEN carry this stream's id and kind and
             are followed by a flush notification.
`noise::bytes::Buffer` is used through its contract (decided on the real file under C13)."""
import time
import z3
from mirsym.core import (Exec, explore, solve, Num, Agg, Ref, Cell, Opaque, Unmodelled, BoundExceeded, num_cmp, num_arith, to_z3_bool, UNIT)
from mirsym import env, models as M
from mirsym.models import some, none, ok, err, ready, pending, BoxV, deref_all
from mirsym.mk import Mk, fld
from props import coro
from props.coro import EnvFuture, CANCELED
from props.c11 import panic_key
import framework as F

NET = 'zksync_consensus_network'
MUX = r'zksync_consensus_network::mux::'
KIND_BITS = {'open': 0b0000000000000000, 'data': 0b0100000000000000, 'close': 0b1000000000000000}


class BufV:
    def __init__(self, tag, cap, length): self.tag = tag; self.cap = cap; self.len = length
    def py_clone(self, ex): return self
    def __repr__(self): return f'Buf<{self.tag}>'


class SrcV:
    """the caller's byte slice: only its length matters; sub-slices remember where they start"""
    def __init__(self, length, start=None): self.len = length; self.start = start if start is not None else Num(0, 64)
    def py_clone(self, ex): return self


def witness(m):
    return ', '.join(f'{d.name()}={m[d]}' for d in m.decls() if d.arity() == 0 and '!' not in d.name())[:400] if m is not None else ''


def finish(rep, name, viol, n, t0, nontrivial):
    for k, (text, m) in viol.items():
        rep.violation(F.Violation(rep.prop, k, text, None, None, witness(m)))
    if nontrivial == 0 and not viol:
        rep.add(F.Obligation(name, 'inconclusive', 'no path reaches the interesting outcome (vacuous)')); return
    rep.add(F.Obligation(name, 'violated' if viol else 'discharged', paths=n, wall_s=round(time.time() - t0, 1)))
    rep.samples.append(f'{name}: {n} paths')


def mk_header(mk, bits):
    return mk.tuple_struct(MUX + r'header::Header', bits if isinstance(bits, Num) else Num(bits, 16))


# ------------------------------------------------------------------------------------------------ recv_open
def check_recv_open(rep, db):
    name = 'ReadReusableStream::recv_open: the next transient stream starts clean (no cached frame, no end-of-stream, frames consumed up to the OPEN only)'
    t0 = time.time()
    ex = Exec(db, loop_bound=8)
    env.install(ex); coro.install_futures(ex)
    n_before = len(ex.user_models)
    cur = [None]; mk = Mk(db, NET)

    def recv(e, n, a):
        def respond(e2):
            s = cur[0]; s['recvs'] += 1
            if s['recvs'] > 3: return pending()
            c = e2.choose(4, 'frame')
            if c == 0: return ready(err(CANCELED))
            kind = ['open', 'data', 'close'][c - 1]
            sid = e2.fresh('frame_stream_bits', 16); e2.assume(sid.e < 16384)
            data = none()
            if kind == 'data':
                fb = BufV(f'frame{s["recvs"]}', e2.fresh('fcap'), e2.fresh('flen')); data = some(fb)
            fr = mk.adt(MUX + r'reusable_stream::Frame', header=mk_header(mk, Num(KIND_BITS[kind] + sid.e, 16)), data=data, _permit=none())
            s['log'].append(kind)
            return ready(ok(fr))
        return EnvFuture('frame channel', respond)
    ex.model(r'zksync_concurrency::ctx::channel::UnboundedReceiver::<.*>::recv', recv)
    mine = ex.user_models[n_before:]; del ex.user_models[n_before:]; ex.user_models[0:0] = mine; ex._um_cache = {}
    try:
        key = db.find_one(MUX + r'reusable_stream::ReadReusableStream::recv_open', kinds=('fn',))
    except KeyError as u:
        rep.add(F.Obligation(name, 'inconclusive', str(u)[:400])); return

    def body(ex):
        s = dict(log=[], recvs=0); cur[0] = s
        closed = ex.choose(2, 'close_received') == 0
        cache = none()
        if ex.choose(2, 'cached_frame') == 0:
            cached = BufV('cached', ex.fresh('ccap'), ex.fresh('clen'))
            cache = some(mk.adt(MUX + r'reusable_stream::Frame', header=mk_header(mk, KIND_BITS['data']), data=some(cached), _permit=none()))
        rrs = mk.adt(MUX + r'reusable_stream::ReadReusableStream', cache=cache, recv=Opaque('frame_channel'), close_received=closed)
        cell = Cell(rrs)
        r = coro.run_async(ex, key, [Ref(cell), Ref(Cell(Opaque('ctx')))])
        return r, cell.v, list(s['log']), closed, cache.variant == 1
    try:
        res = explore(ex, body, budget_s=600)
    except (Unmodelled, BoundExceeded, KeyError) as u:
        rep.absorb_stats(ex.stats); rep.add(F.Obligation(name, 'inconclusive', f'{type(u).__name__}: {u}'[:700])); return
    rep.absorb_stats(ex.stats)
    viol = {}; good_paths = 0

    def need(pc, k, text, cond):
        if k in viol: return
        st, m = solve(pc, z3.Not(cond))
        if st == 'sat': viol[k] = (text, m)
        elif st != 'unsat': raise Unmodelled('solver unknown')
    for kind, val, pc, _ in res:
        if kind == 'panic':
            st, m = solve(pc, None)
            if st == 'sat': viol.setdefault('open:' + panic_key(val), (f'recv_open panics: {val[0]} at {val[1]}', m))
            continue
        r, post, log, closed, had_cache = val
        if r == 'pending' or r.variant != 0: continue
        good_paths += 1; rep.nontrivial += 1
        need(pc, 'open:stale-cache', 'after the OPEN handshake the reader still holds the cached rest of a DATA frame of the PREVIOUS transient stream: its bytes would be delivered on the new stream', z3.BoolVal(fld(post, 'cache').variant == 0))
        cr = fld(post, 'close_received')
        need(pc, 'open:stale-eos', 'after the OPEN handshake the end-of-stream flag of the previous transient stream is still set: the new stream would read as empty', z3.BoolVal(cr is False) if isinstance(cr, bool) else z3.Not(to_z3_bool(cr)))
        need(pc, 'open:not-at-open', 'recv_open returns although the last frame it consumed is not the peer\'s OPEN (or it consumed frames after it)', z3.BoolVal(bool(log) and log[-1] == 'open' and 'open' not in log[:-1]))
    finish(rep, name, viol, len(res), t0, good_paths)


# ------------------------------------------------------------------------------------------------ write side
def install_write(ex, mk, cur):
    log = lambda: cur[0]['log']
    b = lambda a: deref_all(a[0])
    P = 'zksync_consensus_network::noise::bytes::Buffer::'
    ex.model_path(P + 'len', lambda e, n, a: b(a).len)
    ex.model_path(P + 'capacity', lambda e, n, a: num_arith('Sub', b(a).cap, b(a).len))

    def buf_new(e, n, a):
        cur[0]['nbuf'] += 1
        return BufV(f'new{cur[0]["nbuf"]}', a[0], Num(0, 64))
    ex.model_path(P + 'new', buf_new)

    def push(e, n, a):
        dst = b(a); src = deref_all(a[1])
        free = num_arith('Sub', dst.cap, dst.len)
        rest = src.len
        k = e.fresh('moved'); e.assume(z3.And(k.e <= free.e, k.e <= rest.e, z3.Or(k.e == free.e, k.e == rest.e)))
        log().append(('push', dst, src.start, k, dst.len))
        dst.len = Num(z3.simplify(dst.len.e + k.e) if not (isinstance(dst.len.e, int) and isinstance(k.e, int)) else dst.len.e + k.e, 64)
        return k
    ex.model_path(P + 'push', push)

    def index_from(e, n, a):
        src = deref_all(a[0]); rng = a[1]
        start = rng.fields[0]
        if not e.branch(num_cmp('Le', start, src.len)): raise M.Panic('slice start index out of range')
        return Ref(Cell(SrcV(num_arith('Sub', src.len, start), num_arith('Add', src.start, start))))
    ex.model(r'<\[u8\] as std::ops::Index<std::ops::RangeFrom<usize>>>::index|core::slice::index::<impl std::ops::Index<std::ops::RangeFrom<usize>> for \[u8\]>::index|std::slice::index::<impl std::ops::Index<std::ops::RangeFrom<usize>> for \[u8\]>::index', index_from)
    ex.model(r'core::slice::<impl \[u8\]>::len|std::slice::<impl \[u8\]>::len', lambda e, n, a: deref_all(a[0]).len if isinstance(deref_all(a[0]), SrcV) else NotImplemented)

    class Slot:
        def py_clone(self, ex): return self

    def reserve(e, n, a):
        def respond(e2):
            c = e2.choose(3, 'reserve')
            if c == 0: return ready(err(CANCELED))
            if c == 1: return ready(ok(err(Agg('adt', 'Disconnected', 0, []))))
            return ready(ok(ok(Slot())))
        return EnvFuture('write_send.reserve', respond)
    ex.model(r'zksync_concurrency::ctx::channel::Sender::<.*>::reserve_or_disconnected', reserve)

    def slot_send(e, n, a):
        log().append(('cmd', a[1])); return UNIT
    ex.model(r'tokio::sync::mpsc::Permit::<.*>::send|zksync_concurrency::ctx::channel::Permit::<.*>::send|tokio::sync::mpsc::bounded::Permit::<.*>::send', slot_send)

    def chan_send(e, n, a):
        def respond(e2):
            if e2.choose(2, 'send') == 0: return ready(err(CANCELED))
            log().append(('cmd', a[2])); return ready(ok(UNIT))
        return EnvFuture('write_send.send', respond)
    ex.model(r'zksync_concurrency::ctx::channel::Sender::<.*>::send', chan_send)
    ex.model(r'tokio::sync::Notify::notify_one|tokio::sync::notify::Notify::notify_one', lambda e, n, a: (log().append(('notify',)), UNIT)[1])

    def lock_deref(e, n, a):
        v = a[0]
        while isinstance(v, Ref): v = v.get()
        return Ref(v.cell) if isinstance(v, BoxV) else NotImplemented
    ex.model(r'<zksync_concurrency::sync::ExclusiveLock<.*> as std::ops::Deref(Mut)?>::deref(_mut)?', lock_deref)


def mk_writer(ex, db, mk, cap, fill):
    kind_bit = Num(0b0010000000000000, 16) if ex.choose(2, 'stream_kind') == 0 else Num(0, 16)
    sid = ex.fresh('own_stream_id', 16); ex.assume(sid.e < 8192)
    cfg_t = mk.ty(MUX + r'config::Config')
    cfg_vals = {f['name']: (cap if f['name'] == 'write_frame_size' else Opaque('cfg_' + f['name'])) for f in cfg_t['info']['variants'][0]['fields']}
    if 'write_frame_size' not in cfg_vals: raise Unmodelled('mux Config has no write_frame_size')
    cfg = Agg('adt', cfg_t, 0, [cfg_vals[f['name']] for f in cfg_t['info']['variants'][0]['fields']])
    buf = BufV('initial', cap, fill)
    w = mk.adt(MUX + r'reusable_stream::WriteReusableStream', cfg=BoxV(cfg), stream_id=mk.tuple_struct(MUX + r'header::StreamId', sid),
               stream_kind=mk.tuple_struct(MUX + r'header::StreamKind', kind_bit), buffer=buf, write_send=Opaque('write_send'), flush=BoxV(Opaque('notify')))
    return w, buf, kind_bit, sid


def frames_of(log):
    out = []
    for e in log:
        if e[0] != 'cmd': continue
        c = e[1]
        if isinstance(c, Agg) and c.fields and isinstance(c.fields[0], Agg):
            out.append(c.fields[0])          # WriteCommand::Frame(frame)
        else:
            out.append(None)                 # Flush
    return out


def header_ok(fr, kind, kind_bit, sid):
    h = fld(fr, 'header'); bits = fld(h, '0')
    return bits.e == KIND_BITS[kind] + (kind_bit.e if not isinstance(kind_bit.e, int) else kind_bit.e) + sid.e


def check_write(rep, db, which):
    names = {'write_all': 'WriteStream::write_all / send_data: bytes buffered in order, a DATA frame per full buffer under the stream\'s own id, nothing lost or duplicated',
             'send_close': 'WriteReusableStream::send_close: pending data is emitted before CLOSE; CLOSE carries the stream\'s id and is flushed',
             'send_open': 'WriteReusableStream::send_open: OPEN carries the stream\'s id and is flushed'}
    name = names[which]; t0 = time.time()
    ex = Exec(db, loop_bound=12)
    env.install(ex); coro.install_futures(ex)
    n_before = len(ex.user_models)
    cur = [None]; mk = Mk(db, NET)
    install_write(ex, mk, cur)
    mine = ex.user_models[n_before:]; del ex.user_models[n_before:]; ex.user_models[0:0] = mine; ex._um_cache = {}
    try:
        key = db.find_one({'write_all': MUX + r'transient_stream::WriteStream::write_all', 'send_close': MUX + r'reusable_stream::WriteReusableStream::send_close',
                           'send_open': MUX + r'reusable_stream::WriteReusableStream::send_open'}[which], kinds=('fn',))
    except KeyError as u:
        rep.add(F.Obligation(name, 'inconclusive', str(u)[:400])); return

    def body(ex):
        s = dict(log=[], nbuf=0); cur[0] = s
        cap = ex.fresh('write_frame_size', 32); ex.assume(z3.And(cap.e >= 1, cap.e <= 3))
        fill = ex.fresh('buffered'); ex.assume(fill.e <= cap.e)
        w, buf, kind_bit, sid = mk_writer(ex, db, mk, cap, fill)
        cell = Cell(w)
        if which == 'write_all':
            n = ex.fresh('src_len'); ex.assume(n.e <= 5)
            stream = mk.tuple_struct(MUX + r'transient_stream::WriteStream', BoxV(cell))
            r = coro.run_async(ex, key, [Ref(Cell(stream)), Ref(Cell(Opaque('ctx'))), Ref(Cell(SrcV(n)))])
        else:
            n = Num(0, 64)
            r = coro.run_async(ex, key, [Ref(cell), Ref(Cell(Opaque('ctx')))])
        post = cell.v
        return r, list(s['log']), cap, fill, n, kind_bit, sid, fld(post, 'buffer')
    try:
        res = explore(ex, body, budget_s=900)
    except (Unmodelled, BoundExceeded, KeyError) as u:
        rep.absorb_stats(ex.stats); rep.add(F.Obligation(name, 'inconclusive', f'{type(u).__name__}: {u}'[:700])); return
    rep.absorb_stats(ex.stats)
    viol = {}; good = 0

    def need(pc, k, text, cond):
        if k in viol: return
        st, m = solve(pc, z3.Not(cond))
        if st == 'sat': viol[k] = (text, m)
        elif st != 'unsat': raise Unmodelled('solver unknown')
    for kind, val, pc, _ in res:
        if kind == 'panic':
            st, m = solve(pc, None)
            if st == 'sat': viol.setdefault(f'{which}:' + panic_key(val), (f'{which} panics: {val[0]} at {val[1]}', m))
            continue
        r, log, cap, fill, n, kind_bit, sid, post_buf = val
        frames = frames_of(log)
        # every emitted DATA frame: whole buffer, 1..cap bytes, own id / kind (also on paths that fail later)
        total_in_frames = z3.IntVal(0)
        for fr in frames:
            if fr is None: continue
            d = fld(fr, 'data')
            if d.variant == 1:
                fb = deref_all(d.fields[0])
                need(pc, f'{which}:frame-size', 'a DATA frame is emitted empty or larger than write_frame_size', z3.And(fb.len.e >= 1, fb.len.e <= cap.e))
                need(pc, f'{which}:foreign-header', 'a DATA frame is sent under another stream\'s id / kind (it would be delivered to a different sub-stream)', header_ok(fr, 'data', kind_bit, sid))
                total_in_frames = total_in_frames + fb.len.e
        if r == 'pending': continue
        pb = deref_all(post_buf)
        # conservation on EVERY outcome, failed or cancelled operations included: the stream stays usable after a cancelled write
        # (the writer is handed on to the CLOSE of this stream and to the next transient stream), so bytes accepted earlier must
        # still be either in a frame that was handed to the transport task or in the write buffer — never dropped on the floor
        taken = z3.IntVal(0)
        for e in log:
            if e[0] == 'push': taken = taken + e[3].e
        need(pc, f'{which}:lost-on-failure', 'after a failed or cancelled operation the bytes accepted so far are neither in an emitted DATA frame nor in the write buffer (a hole in the stream: the writer stays in use)',
             total_in_frames + pb.len.e == fill.e + taken)
        if r.variant != 0: continue
        good += 1; rep.nontrivial += 1
        if which == 'write_all':
            pushes = [e for e in log if e[0] == 'push']
            off = z3.IntVal(0)
            for e in pushes:
                need(pc, 'write_all:source-order', 'bytes are taken from the source out of order, with a gap or twice', e[2].e == off)
                off = off + e[3].e
            need(pc, 'write_all:incomplete', 'write_all returns Ok although not all bytes of the source were buffered or sent', off == n.e)
            need(pc, 'write_all:conservation', 'the DATA frames emitted plus the bytes left in the buffer do not add up to the old buffer content plus the source (data lost or duplicated)',
                 total_in_frames + pb.len.e == fill.e + n.e)
            need(pc, 'write_all:buffer-invariant', 'the write buffer is left over-full', pb.len.e <= pb.cap.e)
        else:
            kinds = []
            for fr in frames:
                if fr is None: kinds.append('flush'); continue
                d = fld(fr, 'data'); kinds.append('data' if d.variant == 1 else 'ctl')
            want_kind = 'close' if which == 'send_close' else 'open'
            ctl = [fr for fr in frames if fr is not None and fld(fr, 'data').variant == 0]
            need(pc, f'{which}:no-frame', f'{which} returns Ok without sending exactly one {want_kind.upper()} frame', z3.BoolVal(len(ctl) == 1))
            if len(ctl) == 1:
                need(pc, f'{which}:foreign-header', f'the {want_kind.upper()} frame does not carry this stream\'s id / kind or is of the wrong kind', header_ok(ctl[0], want_kind, kind_bit, sid))
                evs = [('notify' if e[0] == 'notify' else ('ctl' if (e[0] == 'cmd' and isinstance(e[1], Agg) and e[1].fields and isinstance(e[1].fields[0], Agg) and fld(e[1].fields[0], 'data').variant == 0) else ('data' if e[0] == 'cmd' else e[0]))) for e in log]
                need(pc, f'{which}:not-flushed', f'the {want_kind.upper()} frame is not followed by a flush notification (the peer may never see it)', z3.BoolVal('notify' in evs[evs.index('ctl'):]))
                if which == 'send_close':
                    need(pc, 'send_close:data-after-close', 'buffered data is not emitted before the CLOSE frame (the peer sees end-of-stream before the last bytes, or never gets them)',
                         z3.And(z3.Implies(fill.e >= 1, z3.BoolVal('data' in evs[:evs.index('ctl')])), z3.BoolVal('data' not in evs[evs.index('ctl'):]), pb.len.e == 0))
    finish(rep, name, viol, len(res), t0, good)


def run(rep, db, tier):
    check_recv_open(rep, db)
    for which in ('write_all', 'send_close', 'send_open'):
        check_write(rep, db, which)
